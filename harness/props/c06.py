"""C06 — "same expression" diagnostics fire only when the operands really are the same.

Lean: Props/C06.lean over Model/Equiv.lean (`isEquiv` = refurb.checks.common.is_equivalent case by case; exact
characterisation, equivalence relation, `isEquiv <-> synEq` under resolved names, mutants at any depth, Full refuted).
Translator (harness/extract_c06.py -> Generated/EquivCfg.lean, by execution): does the NameExpr case compare `name`?

Correspondence (in-process, fresh worker process per probe file): refurb's own pipeline analyses generated probe
files (`_ = (A) if (B) else c` lines over a typed prelude; sections: module, function with redefinitions,
unreachable code, platform-guarded code, undefined names, async); the worker calls the REAL `is_equivalent` /
`get_common_expr_positions` on the real mypy nodes (probe pairs both ways round, cross pairs between probes, (None, x)
pairs, operand quadruples) and serialises the nodes; the Lean model must return the same verdicts.  The model's
rendering of literals is compared with `str(node)`, and the shape assumption A1 (`str(node)` starts with the class
name) is checked on every serialised operand.  The model's `synEq` is compared with `ast.dump` equality.

Oracle (fresh `python -m refurb --enable-all` per file): a FURB110 diagnostic on the probe line/column is present iff
`ast.dump(parse(A)) == ast.dump(parse(B))` (and-chains compared right-nested as mypy parses them; two import aliases
of one object count as one name, see ALIASES); the same for FURB108/124/136/121/102/132/188 through their own use
of the relation (FURB108/124 also with an operand repeated inside ONE comparison, which is not a shared operand).  Every mismatch is classified by diffing the two serialised operands (cause) and reported.
"""

from __future__ import annotations

import ast
import copy
import io
import json
import subprocess
import sys
import tokenize
from concurrent.futures import ThreadPoolExecutor
from pathlib import Path
from typing import Any

from .. import core

GENERATED: list[str] = ["EquivCfg"]

PRELUDE = '''\
import os
import sys
import os.path as p1, os.path as p2
from os import sep as s1, sep as s2


class K:
    at: int = 0
    bt: int = 0
    st: str = ""

    def me(self, *a: object, **k: object) -> "K":
        return self


def fa(*a: object, **k: object) -> int:
    return 0


def fb(*a: object, **k: object) -> int:
    return 0


def fs(*a: object, **k: object) -> str:
    return ""


va: int = 1
vb: int = 2
vc: float = 1.5
vs: str = "s"
vt: str = "t"
vl: list[int] = [1]
vm: list[str] = ["m"]
vd: dict[str, int] = {}
ve: dict[str, int] = {}
sx: set[int] = set()
vk = K()
vj = K()
c = 0
'''

MODULE_NAMES = ["va", "vb", "vc", "vs", "vt", "vl", "vm", "vd", "ve", "vk", "vj", "fa", "fb", "K", "os", "p1", "s1"]
ALIASES = {"p2": "p1", "s2": "s1"}  # import aliases of one object: `is_equivalent` compares what a name resolves to
ATTRS = ["at", "bt", "st", "me", "real", "sep", "path"]
UNDEFINED = ["u1", "u2", "u3", "u4"]
BINOPS = [ast.Add, ast.Sub, ast.Mult, ast.Div, ast.FloorDiv, ast.Mod, ast.Pow, ast.LShift, ast.RShift, ast.BitOr, ast.BitXor, ast.BitAnd, ast.MatMult]
UNOPS = [ast.Not, ast.USub, ast.UAdd, ast.Invert]
CMPOPS = [ast.Eq, ast.NotEq, ast.Lt, ast.LtE, ast.Gt, ast.GtE, ast.Is, ast.IsNot, ast.In, ast.NotIn]
CONSTS: list[Any] = [0, 1, 2, 10, 255, 10**20, 0.5, 1.0, 1e10, 1j, 2.5j, "", "a", "ab", "a b", "x'y", 'q"r', "é", "\\n", "l\nb", "a:1", "10:30", "host:8080", "x  y", "NameExpr(k)", "k)", ":7", "Tab\there", "UPPER lower", b"", b"a", b"h:80", b"\x00\xff", ..., True, False, None]


def mut_text(rng: Any, v: str) -> str:
    """a different text: one small edit of any of the kinds a normalising comparison might swallow (a digit, a `:digits` run as in
    mypy's line tags, blanks, case, quotes, brackets, an escape), anywhere in the text"""
    edits = []
    if v:
        i = rng.randrange(len(v))
        edits += [v[:i] + v[i + 1 :], v[:i] + rng.choice("a :1)('\\\"\n\tZ") + v[i:]]
        digs = [k for k, c in enumerate(v) if c.isdigit()]
        if digs:
            k = rng.choice(digs)
            edits += [v[:k] + str((int(v[k]) + 1) % 10) + v[k + 1 :]] * 3
        if v.lower() != v.upper():
            ks = [k for k, c in enumerate(v) if c.swapcase() != c]
            k = rng.choice(ks)
            edits.append(v[:k] + v[k].swapcase() + v[k + 1 :])
        if " " in v:
            edits.append(v.replace(" ", "  ", 1))
    edits += [v + c for c in ("a", " ", "'", "\\", ":1", ":", ")", "1")]
    edits = [e for e in edits if e != v]
    return rng.choice(edits)

SECTIONS = {
    # name: (header lines, indent, names, allow await)
    "module": ([], 0, MODULE_NAMES + ["p2", "s2"], False),
    "function": (["def fn(la: int, lb: str, lk: K) -> None:", "    lr = 1"], 4, MODULE_NAMES + ["la", "lb", "lk", "lr"], False),
    "unreachable": (["def ur() -> None:", "    return None"], 4, MODULE_NAMES, False),
    "platform": (['if sys.platform == "win32":'], 4, MODULE_NAMES, False),
    "undefined": ([], 0, UNDEFINED + ["va", "fa"], False),
    "async": (["async def co(la: int) -> None:"], 4, MODULE_NAMES + ["la"], True),
}


# --------------------------------------------------------------------------------------------
# expression generator (Python `ast` trees, printed by ast.unparse)


def name(n: str) -> ast.expr:
    return ast.Name(id=n, ctx=ast.Load())


class Gen:
    def __init__(self, rng: Any, names: list[str], allow_await: bool = False, plain: bool = False) -> None:
        self.rng = rng
        self.names = names
        self.allow_await = allow_await
        self.plain = plain  # no BoolOp / IfExp / Compare / lambda / comprehension (operands of the other checks)
        self.fresh = 0

    def leaf(self) -> ast.expr:
        r = self.rng
        if r.random() < 0.6:
            return name(r.choice(self.names))
        return ast.Constant(value=r.choice(CONSTS))

    def args(self, d: int, inner: bool) -> tuple[list[ast.expr], list[ast.keyword]]:
        r = self.rng
        pos: list[ast.expr] = []
        for _ in range(r.choice([0, 1, 1, 2, 3])):
            e = self.expr(d, inner)
            pos.append(ast.Starred(value=e, ctx=ast.Load()) if r.random() < 0.15 else e)
        kws = []
        for _ in range(r.choice([0, 0, 1, 2])):
            kws.append(ast.keyword(arg=r.choice(["k", "j", None]), value=self.expr(d, inner)))
        seen = set()
        kws = [k for k in kws if k.arg is None or (k.arg not in seen and not seen.add(k.arg))]
        return pos, kws

    def comp(self, d: int) -> list[ast.comprehension]:
        r = self.rng
        gens = []
        for v in (["q"] if r.random() < 0.8 else ["q", "r"]):
            gens.append(
                ast.comprehension(
                    target=ast.Name(id=v, ctx=ast.Store()),
                    iter=self.expr(d, True),
                    ifs=[self.expr(d, True)] if r.random() < 0.4 else [],
                    is_async=0,
                )
            )
        return gens

    def with_names(self, extra: list[str]) -> "Gen":
        g = Gen(self.rng, self.names + extra * 3, self.allow_await, self.plain)
        return g

    def expr(self, d: int, inner: bool = False) -> ast.expr:
        """inner: inside a lambda/comprehension/f-string (no walrus, no await)"""
        r = self.rng
        if d <= 0:
            return self.leaf()
        kinds = [
            ("leaf", 3), ("attr", 4), ("index", 2), ("slice", 2), ("call", 5), ("list", 1), ("tuple", 1), ("set", 1), ("dict", 1.5),
            ("unary", 2), ("binop", 4), ("fstring", 1),
        ]
        if not self.plain:
            kinds += [("boolop", 1.5), ("compare", 2.5), ("ifexp", 1), ("lambda", 1), ("listcomp", 1), ("setcomp", 0.4), ("dictcomp", 0.5), ("genexp", 0.5)]
            if not inner:
                kinds.append(("walrus", 0.6))
                if self.allow_await:
                    kinds.append(("await", 2))
        k = r.choices([x for x, _ in kinds], [w for _, w in kinds])[0]
        e = lambda: self.expr(d - 1 if r.random() < 0.7 else max(0, d - 2), inner)  # noqa: E731
        if k == "leaf":
            return self.leaf()
        if k == "attr":
            return ast.Attribute(value=e(), attr=r.choice(ATTRS), ctx=ast.Load())
        if k == "index":
            return ast.Subscript(value=e(), slice=e(), ctx=ast.Load())
        if k == "slice":
            parts = [e() if r.random() < 0.5 else None for _ in range(3)]
            sl: ast.expr = ast.Slice(lower=parts[0], upper=parts[1], step=parts[2])
            if r.random() < 0.15:
                sl = ast.Tuple(elts=[sl, e()], ctx=ast.Load())
            return ast.Subscript(value=e(), slice=sl, ctx=ast.Load())
        if k == "call":
            pos, kws = self.args(d - 1, inner)
            return ast.Call(func=e() if r.random() < 0.5 else name(r.choice(["fa", "fb", "fs"] if "fa" in self.names else self.names)), args=pos, keywords=kws)
        if k in ("list", "tuple", "set"):
            n = r.choice([0, 1, 2, 3]) if k != "set" else r.choice([1, 2, 3])
            elts = []
            for _ in range(n):
                x = e()
                elts.append(ast.Starred(value=x, ctx=ast.Load()) if r.random() < 0.12 else x)
            if k == "list":
                return ast.List(elts=elts, ctx=ast.Load())
            if k == "tuple":
                return ast.Tuple(elts=elts, ctx=ast.Load())
            return ast.Set(elts=elts)
        if k == "dict":
            keys: list[ast.expr | None] = []
            vals = []
            for _ in range(r.choice([0, 1, 2, 3])):
                keys.append(None if r.random() < 0.25 else e())
                vals.append(e())
            return ast.Dict(keys=keys, values=vals)
        if k == "unary":
            return ast.UnaryOp(op=r.choice(UNOPS)(), operand=e())
        if k == "binop":
            return ast.BinOp(left=e(), op=r.choice(BINOPS)(), right=e())
        if k == "boolop":
            return ast.BoolOp(op=r.choice([ast.And, ast.Or])(), values=[e() for _ in range(r.choice([2, 2, 3]))])
        if k == "compare":
            n = r.choice([1, 1, 1, 2, 3])
            return ast.Compare(left=e(), ops=[r.choice(CMPOPS)() for _ in range(n)], comparators=[e() for _ in range(n)])
        if k == "ifexp":
            return ast.IfExp(test=e(), body=e(), orelse=e())
        if k == "fstring":
            vals2: list[ast.expr] = []
            for _ in range(r.choice([1, 2, 3])):
                if r.random() < 0.5:
                    vals2.append(ast.Constant(value=r.choice(["a", "b ", "-"])))
                else:
                    g = Gen(r, self.names, False, True)
                    vals2.append(ast.FormattedValue(value=g.expr(min(d - 1, 1), True), conversion=r.choice([-1, -1, 114]), format_spec=None))
            return ast.JoinedStr(values=vals2)
        if k == "lambda":
            g = self.with_names(["q"])
            argl = [ast.arg(arg="q")] + ([ast.arg(arg="r")] if r.random() < 0.3 else [])
            defaults = [g.leaf()] if r.random() < 0.3 else []
            return ast.Lambda(args=ast.arguments(posonlyargs=[], args=argl, vararg=None, kwonlyargs=[], kw_defaults=[], kwarg=None, defaults=defaults), body=g.expr(d - 1, True))
        if k in ("listcomp", "setcomp", "genexp", "dictcomp"):
            g = self.with_names(["q"])
            gens = g.comp(d - 1)
            if k == "dictcomp":
                return ast.DictComp(key=g.expr(d - 1, True), value=g.expr(d - 1, True), generators=gens)
            cls = {"listcomp": ast.ListComp, "setcomp": ast.SetComp, "genexp": ast.GeneratorExp}[k]
            return cls(elt=g.expr(d - 1, True), generators=gens)
        if k == "walrus":
            return ast.NamedExpr(target=ast.Name(id=r.choice(["w1", "w2"]), ctx=ast.Store()), value=e())
        if k == "await":
            return ast.Await(value=e())
        raise AssertionError(k)


def norm_ast(node: ast.AST, aliases: bool) -> ast.AST:
    """right-nest and/or chains (as mypy's parser does); optionally map import aliases to one name"""

    class T(ast.NodeTransformer):
        def visit_BoolOp(self, n: ast.BoolOp) -> ast.AST:
            self.generic_visit(n)
            vals = list(n.values)
            while len(vals) > 2:
                last = ast.BoolOp(op=n.op, values=vals[-2:])
                vals = vals[:-2] + [last]
            return ast.BoolOp(op=n.op, values=vals)

        def visit_Name(self, n: ast.Name) -> ast.AST:
            if aliases and n.id in ALIASES:
                return ast.Name(id=ALIASES[n.id], ctx=n.ctx)
            return n

    return T().visit(copy.deepcopy(node))


def dump_text(text: str, aliases: bool = False) -> str | None:
    try:
        tree = ast.parse("(" + text + "\n)", mode="eval")
    except (SyntaxError, ValueError, RecursionError):
        return None
    return ast.dump(norm_ast(tree.body, aliases))


def unparse(e: ast.expr) -> str | None:
    try:
        text = ast.unparse(ast.fix_missing_locations(e))
        if "\n" in text:
            return None
        return text if dump_text(text) is not None else None
    except Exception:  # noqa: BLE001
        return None


# --------------------------------------------------------------------------------------------
# single-edit mutants


def parents(tree: ast.AST) -> dict[int, tuple[ast.AST, str, int | None]]:
    out: dict[int, tuple[ast.AST, str, int | None]] = {}
    for p in ast.walk(tree):
        for f, v in ast.iter_fields(p):
            if isinstance(v, list):
                for i, x in enumerate(v):
                    if isinstance(x, ast.AST):
                        out[id(x)] = (p, f, i)
            elif isinstance(v, ast.AST):
                out[id(v)] = (p, f, None)
    return out


def replace(par: dict[int, Any], old: ast.AST, new: ast.AST) -> None:
    p, f, i = par[id(old)]
    if i is None:
        setattr(p, f, new)
    else:
        getattr(p, f)[i] = new


def other(rng: Any, pool: list[Any], cur: Any) -> Any:
    cands = [x for x in pool if x != cur]
    return rng.choice(cands)


def mutate(tree: ast.expr, rng: Any, names: list[str]) -> tuple[str, ast.expr] | None:
    """one random single-field edit somewhere in the tree -> (edit kind, new tree)"""
    root = ast.Expression(body=copy.deepcopy(tree))
    par = parents(root)
    nodes = [n for n in ast.walk(root.body) if isinstance(n, ast.expr) and not (isinstance(n, ast.Name) and not isinstance(n.ctx, ast.Load))]
    nodes = [n for n in nodes if not isinstance(par[id(n)][0], ast.JoinedStr) and not isinstance(n, (ast.JoinedStr, ast.FormattedValue, ast.Slice))]
    if not nodes:
        return None
    rich = [n for n in nodes if isinstance(n, (ast.Call, ast.Dict, ast.Compare, ast.Starred)) or (isinstance(n, ast.Subscript) and isinstance(n.slice, ast.Slice))]
    n = rng.choice(rich) if rich and rng.random() < 0.4 else rng.choice(nodes)
    opts: list[str] = ["nest"]
    in_starred_ok = isinstance(par[id(n)][0], (ast.List, ast.Tuple, ast.Set, ast.Call)) and par[id(n)][1] in ("elts", "args")
    if isinstance(n, ast.Name):
        opts += ["name"] * 4 + ["class"]
    elif isinstance(n, ast.Attribute):
        opts += ["attribute"] * 4
    elif isinstance(n, ast.Subscript):
        opts += ["slice-part"] * 3
    elif isinstance(n, ast.Call):
        opts += ["arg", "arg-kind", "arg-kind", "star-kind", "star-kind", "keyword", "keyword", "arity", "arity", "pos-to-kw"]
    elif isinstance(n, ast.BinOp):
        opts += ["operator"] * 3 + ["swap"]
    elif isinstance(n, ast.BoolOp):
        opts += ["operator"] * 2 + ["arity"]
    elif isinstance(n, ast.UnaryOp):
        opts += ["operator"] * 3
    elif isinstance(n, ast.Compare):
        opts += ["operator"] * 3 + ["arity"] * 2
    elif isinstance(n, ast.Constant):
        opts += ["literal"] * 3 + ["literal-type"] * 3
    elif isinstance(n, (ast.List, ast.Tuple, ast.Set)):
        opts += ["arity"] * 2 + ["class"] * 2 + ["star"]
    elif isinstance(n, ast.Dict):
        opts += ["dict-key"] * 3 + ["arity"] * 2
    elif isinstance(n, ast.Starred):
        opts = ["star"]
    elif isinstance(n, ast.IfExp):
        opts += ["swap"]
    if isinstance(n, ast.Starred) and not in_starred_ok:
        return None
    k = rng.choice(opts)
    small = Gen(rng, names, False, True)
    try:
        if k == "nest":
            if isinstance(n, ast.Starred):
                return None
            wrap = rng.choice(["neg", "call", "tuple", "attr", "index"])
            inner = copy.deepcopy(n)
            new: ast.expr = {
                "neg": ast.UnaryOp(op=ast.USub(), operand=inner),
                "call": ast.Call(func=name("fa"), args=[inner], keywords=[]),
                "tuple": ast.Tuple(elts=[inner], ctx=ast.Load()),
                "attr": ast.Attribute(value=inner, attr="at", ctx=ast.Load()),
                "index": ast.Subscript(value=inner, slice=ast.Constant(value=0), ctx=ast.Load()),
            }[wrap]
            replace(par, n, new)
        elif k == "name":
            n.id = other(rng, names, n.id)
        elif k == "class":
            if isinstance(n, ast.Name):
                replace(par, n, ast.Constant(value=rng.choice([1, "a"])))
            else:
                cls = other(rng, [ast.List, ast.Tuple, ast.Set], type(n))
                if cls is ast.Set and not n.elts:
                    return None
                replace(par, n, cls(elts=n.elts) if cls is ast.Set else cls(elts=n.elts, ctx=ast.Load()))
        elif k == "attribute":
            n.attr = other(rng, ATTRS, n.attr)
        elif k == "slice-part":
            if isinstance(n.slice, ast.Slice):
                f = rng.choice(["lower", "upper", "step"])
                setattr(n.slice, f, None if getattr(n.slice, f) is not None else small.leaf())
            else:
                n.slice = ast.Slice(lower=n.slice, upper=None, step=None)
        elif k == "arg":
            if not n.args and not n.keywords:
                return None
            if n.args and (not n.keywords or rng.random() < 0.6):
                i = rng.randrange(len(n.args))
                if isinstance(n.args[i], ast.Starred):
                    n.args[i].value = small.expr(1)
                else:
                    n.args[i] = small.expr(1)
            else:
                rng.choice(n.keywords).value = small.expr(1)
        elif k == "arg-kind":
            if n.args and (not n.keywords or rng.random() < 0.6):
                i = rng.randrange(len(n.args))
                a = n.args[i]
                n.args[i] = a.value if isinstance(a, ast.Starred) else ast.Starred(value=a, ctx=ast.Load())
            elif n.keywords:
                kw = rng.choice(n.keywords)
                kw.arg = None if kw.arg is not None else "k"
            else:
                return None
        elif k == "star-kind":
            # `*x` <-> `**x`: same expression, same (absent) keyword name, only the argument kind differs
            stars = [i for i, a in enumerate(n.args) if isinstance(a, ast.Starred)]
            dstars = [i for i, kw in enumerate(n.keywords) if kw.arg is None]
            if stars and (not dstars or rng.random() < 0.5):
                # only the LAST positional may become `**`: mypy keeps arguments in source order, and the order of the others must not change
                if stars[-1] != len(n.args) - 1:
                    return None
                a = n.args.pop()
                n.keywords.insert(0, ast.keyword(arg=None, value=a.value))
            elif dstars:
                if dstars[0] != 0:
                    return None
                kw = n.keywords.pop(0)
                n.args.append(ast.Starred(value=kw.value, ctx=ast.Load()))
            else:
                return None
        elif k == "keyword":
            kws = [kw for kw in n.keywords if kw.arg is not None]
            if not kws:
                return None
            kw = rng.choice(kws)
            kw.arg = other(rng, ["k", "j", "m"], kw.arg)
        elif k == "pos-to-kw":
            if not n.args or isinstance(n.args[-1], ast.Starred):
                return None
            n.keywords.insert(0, ast.keyword(arg="z", value=n.args.pop()))
        elif k == "arity":
            if isinstance(n, ast.Call):
                if n.args and rng.random() < 0.5:
                    n.args.pop(rng.randrange(len(n.args)))
                else:
                    n.args.insert(rng.randrange(len(n.args) + 1), small.leaf())
            elif isinstance(n, ast.BoolOp):
                if len(n.values) > 2 and rng.random() < 0.5:
                    n.values.pop()
                else:
                    n.values.append(small.leaf())
            elif isinstance(n, ast.Compare):
                if len(n.ops) > 1 and rng.random() < 0.5:
                    n.ops.pop()
                    n.comparators.pop()
                else:
                    n.ops.append(rng.choice(CMPOPS)())
                    n.comparators.append(small.leaf())
            elif isinstance(n, ast.Dict):
                if n.keys and rng.random() < 0.5:
                    i = rng.randrange(len(n.keys))
                    n.keys.pop(i)
                    n.values.pop(i)
                else:
                    n.keys.append(small.leaf())
                    n.values.append(small.leaf())
            else:
                if len(n.elts) > (1 if isinstance(n, ast.Set) else 0) and rng.random() < 0.5:
                    n.elts.pop(rng.randrange(len(n.elts)))
                else:
                    n.elts.insert(rng.randrange(len(n.elts) + 1), small.leaf())
        elif k == "operator":
            if isinstance(n, ast.BinOp):
                n.op = other(rng, BINOPS, type(n.op))()
            elif isinstance(n, ast.BoolOp):
                n.op = ast.Or() if isinstance(n.op, ast.And) else ast.And()
            elif isinstance(n, ast.UnaryOp):
                n.op = other(rng, UNOPS, type(n.op))()
            else:
                i = rng.randrange(len(n.ops))
                n.ops[i] = other(rng, CMPOPS, type(n.ops[i]))()
        elif k == "swap":
            if isinstance(n, ast.BinOp):
                n.left, n.right = n.right, n.left
            else:
                n.body, n.orelse = n.orelse, n.body
        elif k == "literal":
            v = n.value
            if isinstance(v, bool) or v is None or v is ...:
                replace(par, n, ast.Constant(value=other(rng, [True, False, None, ...], v)))
            elif isinstance(v, (int, float, complex)):
                n.value = v + 1
            elif isinstance(v, str):
                n.value = mut_text(rng, v)
            elif isinstance(v, bytes):
                n.value = mut_text(rng, v.decode("latin-1")).encode("latin-1", "replace")
        elif k == "literal-type":
            v = n.value
            if isinstance(v, bool) or v is None or v is ...:
                n.value = rng.choice([0, "None"])
            elif isinstance(v, int):
                n.value = rng.choice([float(v) if abs(v) < 10**15 else 0.5, str(v), complex(0, v) if abs(v) < 10**15 else 1j])
            elif isinstance(v, float):
                n.value = rng.choice([int(v), complex(0, v), repr(v)])
            elif isinstance(v, complex):
                n.value = rng.choice([v.imag, repr(v)])
            elif isinstance(v, str):
                n.value = v.encode("ascii", "replace")
            elif isinstance(v, bytes):
                n.value = v.decode("latin1")
        elif k == "dict-key":
            if not n.keys:
                return None
            i = rng.randrange(len(n.keys))
            n.keys[i] = None if n.keys[i] is not None else small.leaf()
        elif k == "star":
            if isinstance(n, ast.Starred):
                replace(par, n, n.value)
            else:
                if not n.elts:
                    return None
                i = rng.randrange(len(n.elts))
                x = n.elts[i]
                n.elts[i] = x.value if isinstance(x, ast.Starred) else ast.Starred(value=x, ctx=ast.Load())
    except (AttributeError, IndexError, TypeError, OverflowError, ValueError):
        return None
    return k, root.body


def multiline(text: str, rng: Any) -> str | None:
    """the same expression broken over several lines (it stands inside parentheses)"""
    try:
        toks = list(tokenize.generate_tokens(io.StringIO(text).readline))
    except (tokenize.TokenError, IndentationError, SyntaxError):
        return None
    depth_f = 0
    cuts = []
    for t in toks:
        if t.type == tokenize.FSTRING_START:
            depth_f += 1
        elif t.type == tokenize.FSTRING_END:
            depth_f -= 1
        elif t.type == tokenize.OP and depth_f == 0 and t.start[0] == 1 and t.string not in (")", "]", "}"):
            cuts.append(t.end[1])
    if not cuts:
        return "\n  " + text
    chosen = sorted({c for c in cuts if rng.random() < 0.35} or {rng.choice(cuts)}, reverse=True)
    out = text
    for ccol in chosen:
        out = out[:ccol] + "\n      " + out[ccol:]
    if rng.random() < 0.5:
        out = "\n  " + out
    return out if dump_text(out) == dump_text(text) else None


# hand-written pairs: lexical variants of one expression, and known collisions of the `str()` fallback
CORPUS: list[tuple[str, str, str]] = [
    ("paren", "va", "(va)"),
    ("paren-op", "va + vb", "(va) + (vb)"),
    ("paren-changes-tree", "va + vb * c", "(va + vb) * c"),
    ("tuple-paren", "va, vb", "(va, vb)"),
    ("and-chain-right", "va and vb and c", "va and (vb and c)"),
    ("and-chain-left", "va and vb and c", "(va and vb) and c"),
    ("int-spelling", "10", "1_0"),
    ("int-base", "16", "0x10"),
    ("float-spelling", "1.0", "1.00"),
    ("float-exp", "1000.0", "1e3"),
    ("int-vs-float", "1", "1.0"),
    ("int-vs-bool", "1", "True"),
    ("complex-spelling", "1j", "1.0j"),
    ("str-quotes", "'a'", '"a"'),
    ("str-concat", '"a" "b"', '"ab"'),
    ("str-escape", '"\\x41"', '"A"'),
    ("str-raw", 'r"\\n"', '"\\\\n"'),
    ("bytes-quotes", "b'a'", 'b"a"'),
    ("str-vs-bytes", '"a"', 'b"a"'),
    ("str-collision-astral", '"\\U00010000"', '"\\u10000"'),
    ("str-collision-backslash", '"\\\\\\x01"', '"\\\\u0001"'),
    ("str-nonascii", '"é"', '"\\xe9"'),
    ("str-nonascii-differ", '"é"', '"è"'),
    ("subscript-space", "vl[0]", "vl [ 0 ]"),
    ("subscript-tuple", "vd[va, vb]", "vd[(va, vb)]"),
    ("not-paren", "not va", "not(va)"),
    ("neg-space", "-va", "- va"),
    ("double-neg", "- -va", "-(-va)"),
    ("call-trailing-comma", "fa(va, vb)", "fa(va, vb,)"),
    ("kw-order", "fa(k=va, j=vb)", "fa(j=vb, k=va)"),
    ("star-position", "fa(*vl, va)", "fa(va, *vl)"),
    ("star-vs-dstar", "fa(*vd)", "fa(**vd)"),
    ("star-vs-dstar-last", "fa(va, *vd)", "fa(va, **vd)"),
    ("kw-vs-dstar", "fa(k=vd)", "fa(**vd)"),
    ("pos-vs-star", "fa(vl)", "fa(*vl)"),
    ("pos-vs-dstar", "fa(vd)", "fa(**vd)"),
    ("method-star-vs-dstar", "vk.me(*vd).at", "vk.me(**vd).at"),
    ("lambda-star-position", "lambda: fa(*vl, va)", "lambda: fa(va, *vl)"),
    ("lambda-dict-unpack", "lambda: {**vd, **ve}", "lambda: {vd: ve}"),
    ("lambda-same", "lambda q: q + 1", "lambda q: q + 1"),
    ("lambda-param", "lambda q: 1", "lambda r: 1"),
    ("lambda-default", "lambda q=1: q", "lambda q=2: q"),
    ("listcomp-same", "[q for q in vl if q]", "[q for q in vl if q]"),
    ("listcomp-vs-genexp", "[q for q in vl]", "list(q for q in vl)"),
    ("listcomp-vs-setcomp", "[q for q in vl]", "{q for q in vl}"),
    ("ifexp-same", "va if vb else c", "va if vb else c"),
    ("ifexp-swapped", "va if vb else c", "c if vb else va"),
    ("walrus-same", "(w1 := va)", "(w1 := va)"),
    ("walrus-target", "(w1 := va)", "(w2 := va)"),
    ("alias-module", "p1", "p2"),
    ("alias-module-attr", "p1.sep", "p2.sep"),
    ("alias-object", "s1", "s2"),
    ("alias-vs-attr", "p1.sep", "s1"),
    ("module-attr-vs-var-attr", "os.sep", "vk.sep"),
    ("attr-same-different-base", "vk.at", "vj.at"),
    ("class-vs-instance-attr", "K.at", "vk.at"),
    ("method-call-same", "vk.me().at", "vk.me().at"),
    ("fstring-same", 'f"{va}-{vb!r}"', 'f"{va}-{vb!r}"'),
    ("fstring-differ", 'f"{va}"', 'f"{vb}"'),
    ("fstring-vs-desugared", 'f"{va}"', '"{:{}}".format(va, "")'),
    ("slice-same", "vl[1:2]", "vl[1:2:]"),
    ("slice-none-step", "vl[1:2]", "vl[1:2:None]"),
    ("slice-differ", "vl[1:]", "vl[:1]"),
    ("ellipsis", "vl[...]", "vl[...]"),
    ("dict-unpack-vs-key", "{**vd}", "{vd: vd}"),
    ("set-vs-dict", "{va}", "{va: va}"),
    ("list-vs-tuple", "[va, vb]", "(va, vb)"),
    ("star-vs-plain", "[*vl]", "[vl]"),
    ("compare-chain", "va < vb < c", "va < vb and vb < c"),
    ("compare-op", "va < vb", "va <= vb"),
    ("is-not-vs-not-is", "va is not vb", "not va is vb"),
    ("not-in", "va not in vl", "not va in vl"),
    ("big-int", "100000000000000000000", "100000000000000000001"),
    ("float-precision", "0.1", "0.10000000000000001"),
    ("negative-zero", "0.0", "-0.0"),
]


# --------------------------------------------------------------------------------------------
# probe files


class ProbeFile:
    def __init__(self, fname: str) -> None:
        self.fname = fname
        self.lines: list[str] = PRELUDE.split("\n")
        self.probes: dict[int, dict[str, Any]] = {}  # 1-based line -> probe
        self.open: dict[str, int] = {}

    def add_section(self, sec: str, entries: list[dict[str, Any]], rng: Any, tag: str = "") -> None:
        """tag: a second instance of the section under another function name (the block of the other checks' probes, which comes
        first in the file: mypy stops TYPE-checking a block — at module level: the rest of the file, later function bodies included
        — after an expression of type Never such as `(lambda q: q)()`, and FURB102/FURB132 need the operand's type)"""
        header, indent, _names, _aw = SECTIONS[sec]
        if tag:
            header = [h.replace("def fn(", f"def fn{tag}(").replace("def ur(", f"def ur{tag}(").replace("def co(", f"def co{tag}(") for h in header]
        self.lines.append("")
        self.lines += header
        pad = " " * indent
        half = len(entries) // 2
        for i, p in enumerate(entries):
            if sec == "function" and i == half and not tag:
                # mypy (allow_redefinition) renames the variable from here on: lr', la'
                self.lines += [pad + "print(lr, la)", pad + 'lr = "s"', pad + 'la = "s"']
            text = p["template"].replace("<A>", p["a"]).replace("<B>", p["b"])
            rows = text.split("\n")
            line_no = len(self.lines) + 1
            self.lines.append(pad + rows[0])
            self.lines += rows[1:] if not p.get("stmt") else [pad + r for r in rows[1:]]
            p.update(file=self.fname, line=line_no, col=indent + p.get("coloff", 4) + 1, section=sec)
            self.probes[line_no] = p
        if not entries:
            self.lines.append(pad + "pass")

    def text(self) -> str:
        return "\n".join(self.lines) + "\n"


T110 = "_ = (<A>) if (<B>) else c"

# the other checks that use the relation: template, expected-flag function over `same(x, y)` of operand texts
OTHER_CHECKS: dict[str, dict[str, Any]] = {
    # FURB108/FURB124: an operand shared BETWEEN the two comparisons ("cross": first comparison's operands, second one's)
    "FURB108": {"t": "_ = (<A>) == vb or (<B>) == c", "ops": lambda a, b: ([a, "vb"], [b, "c"]), "kind": "cross"},
    "FURB124": {"t": "_ = (<A>) == vb and (<B>) == c", "ops": lambda a, b: ([a, "vb"], [b, "c"]), "kind": "cross"},
    # a repeated operand inside ONE comparison is not a shared one: `q == q or p == r` must not be flagged, `p == p or p == r` must
    "FURB108s": {"code": "FURB108", "t": "_ = (<A>) == (<A>) or (<B>) == c", "ops": lambda a, b: ([a, a], [b, "c"]), "kind": "cross"},
    "FURB124s": {"code": "FURB124", "t": "_ = vb == (<A>) and (<B>) == (<B>)", "ops": lambda a, b: (["vb", a], [b, b]), "kind": "cross"},
    "FURB136": {"t": "_ = (<A>) if (<B>) > vb else vb", "kind": "ab-or-both-vb"},
    "FURB121": {"t": "_ = isinstance((<A>), int) or isinstance((<B>), str)", "kind": "ab"},
    "FURB102": {"t": '_ = (<A>).startswith("x") or (<B>).startswith("y")', "kind": "ab", "str": True},
    "FURB132": {"t": "if (<A>) in sx:\n    sx.remove(<B>)", "kind": "ab", "stmt": True},
    "FURB188": {"t": "_ = vs[len(<A>):] if vs.startswith(<B>) else vs", "kind": "ab"},
}

REDEF_OPERANDS = ["lr", "la", "fa(lr)", "lr + la", "vl[lr]", "[lr, la]", "lk.at", "fa(k=la)", "-lr"]
RESOLUTION_FREE = {"FURB108", "FURB124", "FURB136"}  # the others also look for `isinstance` / `len` / a type, which unanalysed code does not have
NEEDS_TYPES = {"FURB102", "FURB132"}  # these checks also ask for the operand's type, which mypy only has for reachable code
STR_OPERANDS = ["vs", "vt", "vk.st", "vj.st", "fs(va)", "fs(vb)", "fs(va, k=vb)", "fs(va, j=vb)", "vm[0]", "vm[1]", "vs.strip()", "vs.lower()", "vs + vt", "vt + vs", "vs[1:]", "vs[:1]", "fs(*vl)", "fs(vl)", "vk.me().st", "vk.me(va).st", "str(va)", "str(vb)", '"lit"', '"lit2"', "(vs)", "vs . strip ( )"]


def build_cases(rng: Any, quick: bool) -> list[ProbeFile]:
    depth_max = 4 if quick else 6
    n_base = {"module": 46, "function": 26, "unreachable": 14, "platform": 8, "undefined": 12, "async": 8}
    n_files = 6 if quick else 30
    files = []
    for fi in range(n_files):
        pf = ProbeFile(f"probe{fi}.py")
        main_blocks: list[tuple[str, list[dict[str, Any]]]] = []
        typed_blocks: list[tuple[str, list[dict[str, Any]]]] = []
        for sec, (_h, _ind, names, aw) in SECTIONS.items():
            gen = Gen(rng, names, aw)
            entries: list[dict[str, Any]] = []
            typed: list[dict[str, Any]] = []
            target = [entries]

            def add(kind: str, a: str, b: str, edit: str = "", template: str = T110, check: str = "FURB110", **kw: Any) -> None:
                target[0].append({"kind": kind, "edit": edit, "a": a, "b": b, "template": template, "check": check, **kw})

            for _ in range(n_base[sec]):
                d = rng.choice([1, 2, 2, 3, 3, 4] if depth_max == 4 else [1, 2, 3, 3, 4, 4, 5, 6])
                tree = gen.expr(d)
                a = unparse(tree)
                if a is None or len(a) > 400:
                    continue
                add("identical", a, a)
                ml = multiline(a, rng)
                if ml is not None and rng.random() < 0.5:
                    add("identical-multiline", a, ml)
                for _m in range(3):
                    mu = mutate(tree, rng, names)
                    if mu is None:
                        continue
                    b = unparse(mu[1])
                    if b is None:
                        continue
                    if rng.random() < 0.5:
                        add("mutant", a, b, mu[0])
                    else:
                        add("mutant", b, a, mu[0])
                other_tree = gen.expr(rng.choice([1, 2, 3]))
                b = unparse(other_tree)
                if b is not None:
                    add("unrelated", a, b)
            if sec == "function":
                # the same operands before and after the redefinition point (add_section puts it in the middle)
                entries[:0] = [{"kind": "identical", "edit": "", "a": t, "b": t, "template": T110, "check": "FURB110"} for t in REDEF_OPERANDS]
                entries += [{"kind": "identical", "edit": "", "a": t, "b": t, "template": T110, "check": "FURB110"} for t in REDEF_OPERANDS]
            if sec == "module" and fi == 0:
                # first in the file, so that the replay kept per signature is one of these small pairs
                rest, entries[:] = list(entries), []
                for nm, a, b in CORPUS:
                    add("corpus", a, b, nm)
                    add("corpus", b, a, nm)
                    ml = multiline(b, rng)
                    if ml is not None:
                        add("corpus-multiline", a, ml, nm)
                entries += rest
            if sec in ("module", "function", "unreachable", "platform"):
                # the other checks, on plain operands (no and/or/if/compare/lambda inside, so the diagnostic's line identifies it
                # and no operand has type Never); they go into a block of their own at the top of the file
                target[0] = typed
                pg = Gen(rng, names, False, True)
                for key, spec in OTHER_CHECKS.items():
                    code = spec.get("code", key)
                    if (code in NEEDS_TYPES and sec == "unreachable") or (sec == "platform" and code not in RESOLUTION_FREE):
                        continue
                    for _ in range(3 if quick else 5):
                        if spec.get("str"):
                            a = rng.choice(STR_OPERANDS)
                            cands = [a, rng.choice(STR_OPERANDS), rng.choice(STR_OPERANDS)]
                            for b in cands:
                                add("other-check", a, b, "", spec["t"], code, stmt=spec.get("stmt", False), spec=key)
                            continue
                        tree = pg.expr(rng.choice([1, 2, 3]))
                        a = unparse(tree)
                        if a is None or len(a) > 200:
                            continue
                        add("other-check", a, a, "identical", spec["t"], code, stmt=spec.get("stmt", False), spec=key)
                        mu = mutate(tree, rng, names)
                        if mu is not None:
                            b = unparse(mu[1])
                            if b is not None and "await" not in b:
                                add("other-check", a, b, mu[0], spec["t"], code, stmt=spec.get("stmt", False), spec=key)
                        b = unparse(pg.expr(1))
                        if b is not None:
                            add("other-check", a, b, "unrelated", spec["t"], code, stmt=spec.get("stmt", False), spec=key)
            main_blocks.append((sec, entries))
            if typed:
                typed_blocks.append((sec, typed))
        for sec, block in typed_blocks:
            pf.add_section(sec, block, rng, tag="_t")
        for sec, block in main_blocks:
            pf.add_section(sec, block, rng)
        files.append(pf)
    return files


CMP_NAME = [True]  # set by run() from the generated EquivCfg (does is_equivalent's NameExpr case compare `name`?)


def same(a: str, b: str, aliases: bool = True) -> bool:
    da, db = dump_text(a, aliases), dump_text(b, aliases)
    return da is not None and da == db


def expected_flag(p: dict[str, Any], aliases: bool = True) -> bool:
    a, b = p["a"], p["b"]
    if p["check"] == "FURB110":
        return same(a, b, aliases)
    spec = OTHER_CHECKS[p.get("spec", p["check"])]
    kind = spec["kind"]
    if kind == "ab":
        return same(a, b, aliases)
    if kind == "cross":
        first, second = spec["ops"](a, b)
        return any(same(x, y, aliases) for x in first for y in second)
    if kind == "ab-or-both-vb":
        return same(a, b, aliases) or (same(a, "vb", aliases) and same(b, "vb", aliases))
    raise AssertionError(kind)


# --------------------------------------------------------------------------------------------
# worker: real mypy nodes -> model JSON + the implementation's verdicts   (python -m harness.props.c06 worker SPEC OUT)

STRUCT_TAGS = {
    "NameExpr": "name", "MemberExpr": "member", "IndexExpr": "index", "CallExpr": "call", "ListExpr": "seq", "TupleExpr": "seq",
    "SetExpr": "seq", "DictExpr": "dict", "StarExpr": "star", "UnaryExpr": "unary", "OpExpr": "op", "ComparisonExpr": "cmp", "SliceExpr": "slice",
}
OTHER_AST = {
    "ConditionalExpr": "IfExp", "LambdaExpr": "Lambda", "ListComprehension": "ListComp", "SetComprehension": "SetComp", "DictionaryComprehension": "DictComp",
    "GeneratorExpr": "GeneratorExp", "AssignmentExpr": "NamedExpr", "AwaitExpr": "Await", "YieldExpr": "Yield", "YieldFromExpr": "YieldFrom",
}
LIT_KINDS = {"IntExpr": "int", "StrExpr": "str", "BytesExpr": "bytes", "FloatExpr": "float", "ComplexExpr": "complex", "EllipsisExpr": "ellipsis"}
ARG_KIND_NUM = {"ARG_POS": 0, "ARG_OPT": 1, "ARG_STAR": 2, "ARG_NAMED": 3, "ARG_STAR2": 4, "ARG_NAMED_OPT": 5}


def cps(s: str) -> list[int]:
    return [ord(ch) for ch in s]


def txt(s: str | None) -> Any:
    if s is None:
        return None
    return s if s.isascii() else cps(s)


class Ser:
    """serialise a mypy expression for the Lean model; collects literal renderings and A1 violations on the way"""

    def __init__(self, src_lines: list[str], sees_lines: bool = True) -> None:
        self.sees_lines = sees_lines
        self.index: dict[tuple[str, int, int], ast.AST] = {}
        try:
            for x in ast.walk(ast.parse("\n".join(src_lines))):
                if isinstance(x, ast.expr):
                    self.index.setdefault((type(x).__name__, x.lineno, x.col_offset), x)
        except SyntaxError:
            pass
        self.lits: list[Any] = []
        self.a1: list[str] = []
        self.kinds: dict[str, int] = {}
        self.heads: dict[str, set[str]] = {}

    def syn_of(self, n: Any) -> str | None:
        """position-free syntactic identity of a non-structural node: ast.dump of the Python `ast` node at the same position"""
        cls = OTHER_AST.get(type(n).__name__)
        if cls is None:
            return None
        hit = self.index.get((cls, n.line, n.column))
        return ast.dump(norm_ast(hit, False)) if hit is not None else None

    def node(self, n: Any) -> Any:
        import mypy.nodes as N

        if n is None:
            return None
        cls = type(n).__name__
        self.kinds[cls] = self.kinds.get(cls, 0) + 1
        r = self.node
        if isinstance(n, N.NameExpr):
            return {"t": "name", "n": txt(n.name), "f": txt(n.fullname)}
        if isinstance(n, N.MemberExpr):
            return {"t": "member", "e": r(n.expr), "n": txt(n.name), "f": txt(n.fullname)}
        if isinstance(n, N.IndexExpr):
            return {"t": "index", "b": r(n.base), "i": r(n.index)}
        if isinstance(n, N.CallExpr):
            if not (len(n.args) == len(n.arg_kinds) == len(n.arg_names)):
                self.a1.append(f"CallExpr with args/arg_kinds/arg_names of different length at line {n.line}")
            return {"t": "call", "c": r(n.callee), "args": [[r(a), ARG_KIND_NUM[k.name], txt(nm)] for a, k, nm in zip(n.args, n.arg_kinds, n.arg_names)]}
        if isinstance(n, (N.ListExpr, N.TupleExpr, N.SetExpr)):
            return {"t": "seq", "k": {"ListExpr": "list", "TupleExpr": "tuple", "SetExpr": "set"}[cls], "items": [r(x) for x in n.items]}
        if isinstance(n, N.DictExpr):
            return {"t": "dict", "items": [[r(k), r(v)] for k, v in n.items]}
        if isinstance(n, N.StarExpr):
            return {"t": "star", "e": r(n.expr)}
        if isinstance(n, N.UnaryExpr):
            return {"t": "unary", "op": n.op, "e": r(n.expr)}
        if isinstance(n, N.OpExpr):
            return {"t": "op", "op": n.op, "l": r(n.left), "r": r(n.right)}
        if isinstance(n, N.ComparisonExpr):
            if len(n.operands) != len(n.operators) + 1:
                self.a1.append(f"ComparisonExpr with {len(n.operands)} operands and {len(n.operators)} operators at line {n.line}")
            return {"t": "cmp", "first": r(n.operands[0]), "rest": [[o, r(x)] for o, x in zip(n.operators, n.operands[1:])]}
        if isinstance(n, N.SliceExpr):
            return {"t": "slice", "b": r(n.begin_index), "e": r(n.end_index), "s": r(n.stride)}
        if cls in LIT_KINDS:
            k = LIT_KINDS[cls]
            v = "" if k == "ellipsis" else (n.value if k in ("str", "bytes") else str(n.value))
            sc = str(n)
            self.lits.append([k, cps(v), cps(sc)])
            self.heads.setdefault("other", set()).add(cls)
            return {"t": "lit", "k": k, "v": cps(v)}
        sc = str(n)
        if not (sc.startswith(cls + ":") or sc.startswith(cls + "(")) or cls in STRUCT_TAGS:
            self.a1.append(f"str() of a {cls} starts with {sc[:30]!r}")
        self.heads.setdefault("other", set()).add(cls)
        syn = self.syn_of(n)
        if not self.sees_lines:
            import re

            sc = re.sub(r"(?<=\w):-?\d+(?=\()", "", sc)  # the fallback compares str() without mypy's line tags
        return {"t": "other", "kind": cls, "sc": txt(sc), "syn": txt(syn) if syn is not None else txt("?" + sc), "syn_ok": syn is not None}

    def top(self, n: Any) -> Any:
        j = self.node(n)
        cls = type(n).__name__
        if cls in STRUCT_TAGS:
            import re

            m = re.match(r"[A-Za-z_]+(?=[:(])", str(n))
            self.heads.setdefault(cls, set()).add(m.group(0) if m else "<none>")
        return j


def safe_eq(fn: Any, args: tuple[Any, Any]) -> Any:
    """the implementation's verdict, or what it raised (a crash of the real function is a disagreement, not a harness failure)"""
    try:
        return bool(fn(*args))
    except Exception as e:  # noqa: BLE001
        return {"raised": type(e).__name__}


def worker_main(spec_path: str, out_path: str) -> None:
    import random

    sys.setrecursionlimit(20000)
    from harness import astjson

    spec = json.loads(Path(spec_path).read_text())
    import mypy.nodes as N

    built = astjson.build_trees(list(spec["files"]))
    from refurb.checks.common import get_common_expr_positions, is_equivalent

    from harness.extract_c06 import fallback_sees_lines

    sees_lines = fallback_sees_lines()
    out: dict[str, Any] = {"errors": built["errors"], "files": {}}
    for fname, fspec in spec["files"].items():
        tree = built["trees"].get(fname)
        if tree is None:
            out["files"][fname] = {"missing": True}
            continue
        lines = {int(k): v for k, v in fspec["lines"].items()}
        ser = Ser(Path(fname).read_text().split("\n"), sees_lines)
        found: dict[int, Any] = {}

        def walk(stmts: list[Any]) -> None:
            for s in stmts:
                if isinstance(s, N.AssignmentStmt) and s.line in lines and isinstance(s.rvalue, N.ConditionalExpr):
                    found[s.line] = s.rvalue
                for attr in ("body", "else_body"):
                    b = getattr(s, attr, None)
                    if isinstance(b, N.Block):
                        walk(b.body)
                    elif isinstance(b, list):
                        for x in b:
                            if isinstance(x, N.Block):
                                walk(x.body)
                if isinstance(s, N.Decorator):
                    walk(s.func.body.body)

        walk(tree.defs)
        rng = random.Random(spec["seed"] + ":" + fname)
        operands: list[Any] = []
        nodes: list[Any] = []

        def reg(n: Any) -> int:
            nodes.append(n)
            operands.append(ser.top(n))
            return len(nodes) - 1

        probes = {}
        for line, cond in sorted(found.items()):
            ia, ib = reg(cond.if_expr), reg(cond.cond)
            probes[str(line)] = {"a": ia, "b": ib, "eq": safe_eq(is_equivalent, (cond.if_expr, cond.cond)), "eq_rev": safe_eq(is_equivalent, (cond.cond, cond.if_expr))}
        pairs = []
        idx = list(range(len(nodes)))
        # sub-expressions of operands enter the pool too (direct children found through the traverser-free route: fields)
        subs: list[Any] = []
        for n in list(nodes):
            for f in ("expr", "base", "index", "callee", "left", "right"):
                x = getattr(n, f, None)
                if isinstance(x, N.Expression):
                    subs.append(x)
            for f in ("args", "items", "operands"):
                for x in getattr(n, f, None) or []:
                    if isinstance(x, N.Expression):
                        subs.append(x)
                    elif isinstance(x, tuple):
                        subs += [y for y in x if isinstance(y, N.Expression)]
        rng.shuffle(subs)
        for x in subs[: spec["nsubs"]]:
            reg(x)
        idx = list(range(len(nodes)))
        for _ in range(spec["ncross"]):
            if len(idx) < 2:
                break
            i, j = rng.choice(idx), rng.choice(idx)
            pairs.append([i, j, safe_eq(is_equivalent, (nodes[i], nodes[j]))])
        by_text: dict[str, list[int]] = {}
        for line, pr in probes.items():
            ta, tb = lines[int(line)].split("\x00")
            by_text.setdefault(ta, []).append(pr["a"])
            by_text.setdefault(tb, []).append(pr["b"])
        multi = [v for v in by_text.values() if len(v) > 1]
        for _ in range(spec["ncross"] // 3 if multi else 0):
            v = rng.choice(multi)
            i, j = rng.sample(v, 2)
            pairs.append([i, j, safe_eq(is_equivalent, (nodes[i], nodes[j]))])
        none_pairs = [[None, None, safe_eq(is_equivalent, (None, None))]]
        for i in rng.sample(idx, min(len(idx), spec["nnone"])):
            none_pairs.append([None, i, safe_eq(is_equivalent, (None, nodes[i]))])
            none_pairs.append([i, None, safe_eq(is_equivalent, (nodes[i], None))])
        quads = []
        for _ in range(spec["nquads"]):
            if len(idx) < 7:
                break
            n = rng.choice([4, 4, 4, 4, 4, 4, 2, 3, 5, 6, 7])  # the checks pass four operands; other lengths exercise `half = len // 2`
            base = rng.sample(idx, n)
            for _plant in range(rng.choice([0, 1, 1, 2])):
                # plant an equivalent pair (the two operands of some probe) at two positions: same half or across, by chance
                pr = rng.choice(list(probes.values()))
                pos = rng.sample(range(n), 2)
                base[pos[0]], base[pos[1]] = pr["a"], pr["b"]
            if len({id(nodes[i]) for i in base}) < n:
                continue
            try:
                got = get_common_expr_positions(*[nodes[i] for i in base])
                quads.append([base, list(got) if got is not None else None])
            except Exception as e:  # noqa: BLE001
                quads.append([base, {"raised": type(e).__name__}])
        out["files"][fname] = {"operands": operands, "probes": probes, "cross": pairs, "none": none_pairs, "quads": quads, "lits": ser.lits, "a1": ser.a1, "kinds": ser.kinds, "heads": {k: sorted(v) for k, v in ser.heads.items()}}
    Path(out_path).write_text(json.dumps(out))


def run_worker(cwd: Path, spec: dict[str, Any], timeout: int = 900) -> dict[str, Any]:
    env = core.py_env()
    env["PYTHONPATH"] = str(core.VERIF) + (":" + env["PYTHONPATH"] if env.get("PYTHONPATH") else "")
    (cwd / "_spec.json").write_text(json.dumps(spec))
    p = subprocess.run([core.PY, "-m", "harness.props.c06", "worker", "_spec.json", "_out.json"], cwd=cwd, capture_output=True, text=True, timeout=timeout, env=env)
    if p.returncode != 0:
        raise RuntimeError("C06 worker failed: " + p.stderr[-3000:])
    return json.loads((cwd / "_out.json").read_text())


# --------------------------------------------------------------------------------------------
# diagnosis of a mismatch: where do the two serialised operands differ in what the property looks at but agree in what
# is_equivalent looks at (false positive), or the other way round (false negative)?


def _unm(s: Any) -> str:
    if isinstance(s, list):
        s = "".join(chr(x) for x in s)
    return (s or "").rstrip("'*")


def _s(x: Any) -> str:
    return "".join(chr(c) for c in x) if isinstance(x, list) else (x or "")


def diagnose(a: Any, b: Any, false_positive: bool) -> str:
    """cause of the first point where the spec view and the is_equivalent view of (a, b) part ways"""
    import re

    def rec(x: Any, y: Any) -> str | None:
        if x is None or y is None:
            return None
        if x["t"] != y["t"]:
            return None
        t = x["t"]
        if t == "name":
            syn_eq = _unm(x["n"]) == _unm(y["n"])
            impl_eq = _unm(x["f"]) == _unm(y["f"])
            if false_positive and impl_eq and not syn_eq:
                if _unm(x["f"]) == "":
                    return "unresolved-name"
                return "alias-name" if {_s(x["n"]), _s(y["n"])} <= set(ALIASES) | set(ALIASES.values()) else "names-share-fullname"
            if not false_positive and syn_eq and not impl_eq:
                return "one-name-two-fullnames"
            return None
        if t == "lit":
            if false_positive and x["k"] == y["k"] and x["v"] != y["v"]:
                return "literal-rendering-collision"
            return None
        if t == "other":
            sc_eq = _s(x["sc"]) == _s(y["sc"])
            syn_eq = _s(x["syn"]) == _s(y["syn"])
            if false_positive and sc_eq and not syn_eq:
                return "strconv-collision:" + x["kind"]
            if not false_positive and syn_eq and not sc_eq:
                strip = lambda s: re.sub(r":-?\d+\(", ":(", s)  # noqa: E731
                if strip(_s(x["sc"])) == strip(_s(y["sc"])):
                    return "line-numbers:" + x["kind"]
                star = lambda s: re.sub(r"NameExpr\((\w+)\*", r"NameExpr(\1", s)  # noqa: E731
                if star(strip(_s(x["sc"]))) == star(strip(_s(y["sc"]))):
                    return "definition-marker:" + x["kind"]
                return "strconv-differs:" + x["kind"]
            return None
        if t == "member":
            if not false_positive and _s(x["n"]) == _s(y["n"]) and _unm(x["f"]) != _unm(y["f"]):
                sub = rec(x["e"], y["e"])
                return sub or "member-fullname"
            return rec(x["e"], y["e"])
        kids: list[tuple[Any, Any]] = []
        if t == "index":
            kids = [(x["b"], y["b"]), (x["i"], y["i"])]
        elif t == "call":
            kids = [(x["c"], y["c"])] + [(p[0], q[0]) for p, q in zip(x["args"], y["args"])]
        elif t == "seq":
            kids = list(zip(x["items"], y["items"]))
        elif t == "dict":
            kids = [(p[0], q[0]) for p, q in zip(x["items"], y["items"])] + [(p[1], q[1]) for p, q in zip(x["items"], y["items"])]
        elif t in ("star", "unary"):
            kids = [(x["e"], y["e"])]
        elif t == "op":
            kids = [(x["l"], y["l"]), (x["r"], y["r"])]
        elif t == "cmp":
            kids = [(x["first"], y["first"])] + [(p[1], q[1]) for p, q in zip(x["rest"], y["rest"])]
        elif t == "slice":
            kids = [(x["b"], y["b"]), (x["e"], y["e"]), (x["s"], y["s"])]
        for p, q in kids:
            got = rec(p, q)
            if got:
                return got
        return None

    return rec(a, b) or "unexplained"


# --------------------------------------------------------------------------------------------


def lint(cwd: Path, fname: str) -> tuple[str, dict[tuple[int, int, int], str], str]:
    rc, out, err = core.refurb_cli([fname, "--enable-all", "--quiet"], cwd=cwd, timeout=900)
    mode = "enable-all"
    if rc not in (0, 1) or "Traceback" in err or "Traceback" in out:
        rc, out, err = core.refurb_cli([fname, "--disable-all", "--enable", "FURB110", "--enable", "FURB108", "--enable", "FURB124", "--enable", "FURB136", "--enable", "FURB121", "--enable", "FURB102", "--enable", "FURB132", "--enable", "FURB188", "--quiet"], cwd=cwd, timeout=900)
        mode = "selected-checks (the --enable-all run crashed)"
    diags, other_lines = core.parse_plain(out)
    got = {(d["line"], d["col"], d["code"]): d["msg"] for d in diags}
    return mode, got, (err[-500:] if rc not in (0, 1) else "")


def minimal_source(p: dict[str, Any]) -> str:
    pf = ProbeFile("probe.py")
    q = {k: v for k, v in p.items() if k in ("kind", "edit", "a", "b", "template", "check", "stmt", "coloff")}
    pf.add_section(p["section"], [q], None)
    p["_min_line"], p["_min_col"] = q["line"], q["col"]
    return pf.text()


def run(ctx) -> None:
    res = ctx.res
    rng = ctx.rng("c06")
    quick = ctx.quick
    files = build_cases(rng, quick)
    try:
        gen_cfg = (core.LEAN / "RefurbVerif" / "Generated" / "EquivCfg.lean").read_text()
        CMP_NAME[0] = "cmpName := true" in gen_cfg
    except OSError:
        CMP_NAME[0] = True
    res.rule = (
        "operands: random Python `ast` trees over all expression kinds (names, attributes, subscripts/slices, calls with */**/keywords, "
        "list/tuple/set/dict displays with * and **, unary/binary/bool/compare chains, Int/Float/Complex/Str/Bytes/Ellipsis/True/None, f-strings, "
        "conditional, lambda, list/set/dict comprehensions, generators, walrus, await), depth <= %d, printed by ast.unparse over a typed prelude "
        "(variables, functions, a class with attributes, imports and two import aliases); per base operand: the identical pair, a multi-line layout "
        "of it, 3 single-edit mutants (edit kinds: name, attribute, arg, arg-kind, keyword, pos-to-kw, arity, operator, swap, literal, literal-type, "
        "slice-part, dict-key, star, class, nest), one unrelated operand; 6 sections (module, function with redefined variables, unreachable after "
        "return, platform-guarded block, undefined names, async); a 70-pair hand-written corpus of lexical variants and str() collisions; "
        "in-process also cross pairs between operands/sub-expressions of different probes, (None, x) pairs and operand tuples of length 2-7 for get_common_expr_positions (equivalent pairs planted in one half or across). "
        "non-trivial = the two operand texts differ or the pair is laid out over several lines; distinct = distinct (check, section, A, B)" % (4 if quick else 6)
    )
    driver_ok = ctx.driver.available()
    if not driver_ok:
        res.disagreements.append({"where": "driver", "reason": "driver executable not built"})

    with core.scratch("rv-c06-") as d:
        for pf in files:
            (d / pf.fname).write_text(pf.text())
        groups = [files[i : i + 3] for i in range(0, len(files), 3)]

        def work(group: list[ProbeFile]) -> dict[str, Any]:
            sub = d / ("w_" + group[0].fname[:-3])
            sub.mkdir()
            for pf in group:
                (sub / pf.fname).write_text(pf.text())
            spec = {
                "files": {pf.fname: {"lines": {str(l): p["a"] + "\x00" + p["b"] for l, p in pf.probes.items() if p["check"] == "FURB110"}} for pf in group},
                "seed": f"{core.seed()}:c06",
                "ncross": 700 if quick else 1500,
                "nsubs": 150,
                "nnone": 40,
                "nquads": 120 if quick else 300,
            }
            return run_worker(sub, spec)

        with ThreadPoolExecutor(14) as ex:
            fut_w = [ex.submit(work, g) for g in groups]
            fut_l = {pf.fname: ex.submit(lint, d, pf.fname) for pf in files}
            wouts: dict[str, Any] = {}
            for f in fut_w:
                o = f.result()
                wouts.update(o["files"])
                for e in o["errors"]:
                    res.notes.append("mypy/refurb error line in a probe build: " + str(e)[:200])
            lints = {k: f.result() for k, f in fut_l.items()}

    # ---- model vs implementation (in-process verdicts)
    reqs: list[dict[str, Any]] = []
    meta: list[tuple[str, Any, Any]] = []
    heads: dict[str, set[str]] = {}
    for pf in files:
        w = wouts.get(pf.fname, {})
        if w.get("missing") or not w:
            res.disagreements.append({"where": "worker", "reason": f"no tree for {pf.fname}"})
            continue
        ops = w["operands"]
        for msg in w["a1"]:
            res.disagreements.append({"where": "assumption A1 (shape of str(node) / parallel lists)", "reason": msg})
        for k, n in w["kinds"].items():
            res.bump("node:" + k, n)
        for k, hs in w["heads"].items():
            heads.setdefault(k, set()).update(hs)
        for line, pr in w["probes"].items():
            p = pf.probes[int(line)]
            p["_w"] = pr
            p["_ops"] = (ops[pr["a"]], ops[pr["b"]])
            reqs.append({"verb": "equiv", "a": ops[pr["a"]], "b": ops[pr["b"]]})
            meta.append(("probe", p, pr["eq"]))
            reqs.append({"verb": "equiv", "a": ops[pr["b"]], "b": ops[pr["a"]]})
            meta.append(("probe-rev", p, pr["eq_rev"]))
        for i, j, eq in w["cross"]:
            reqs.append({"verb": "equiv", "a": ops[i], "b": ops[j]})
            meta.append(("cross", (pf.fname, i, j), eq))
        for i, j, eq in w["none"]:
            reqs.append({"verb": "equiv", "a": None if i is None else ops[i], "b": None if j is None else ops[j]})
            meta.append(("none", (pf.fname, i, j), eq))
        for base, got in w["quads"]:
            reqs.append({"verb": "equiv_common", "exprs": [ops[i] for i in base]})
            meta.append(("quad", (pf.fname, base), got))
        seen_l = set()
        for k, v, sc in w["lits"]:
            key = (k, tuple(v))
            if key in seen_l:
                continue
            seen_l.add(key)
            reqs.append({"verb": "equiv_litrepr", "k": k, "v": v})
            cls = {v2: k2 for k2, v2 in LIT_KINDS.items()}[k]
            scs = _s(sc)
            want = None if k == "ellipsis" else (scs[len(cls) + 1 : -1] if scs.startswith(cls + "(") and scs.endswith(")") else "<A1 broken: %r>" % scs[:40])
            if k == "ellipsis" and scs != "Ellipsis":
                res.disagreements.append({"where": "assumption A1", "reason": f"str(EllipsisExpr) = {scs!r}"})
            meta.append(("litrepr", (k, _s(v)), want))
    # A1: the class-name heads of str() keep the classes apart (IndexExpr/CallExpr print their `analyzed` node instead of themselves)
    textual = heads.pop("other", set()) | set(LIT_KINDS) | set(OTHER_AST)
    for cls, hs in heads.items():
        if hs & textual or "None" in hs:
            res.disagreements.append({"where": "assumption A1", "reason": f"str() of a {cls} can start like a non-structural class: {sorted(hs & textual)}"})
        for cls2, hs2 in heads.items():
            if cls < cls2 and hs & hs2:
                res.disagreements.append({"where": "assumption A1", "reason": f"str() of {cls} and {cls2} can start alike: {sorted(hs & hs2)}"})
    res.distribution["str-heads"] = {k: sorted(v) for k, v in heads.items()}
    # unmangle on a fixed list (pure function)
    unm_cases = [None, "", "x", "x'", "x''", "x*", "x'*'", "m.x'", "'", "*'*", "a'b", "a'b'", "x' ", "é'", "m.K.at*"]
    for s in unm_cases:
        reqs.append({"verb": "equiv_unmangle", "s": txt(s)})
        meta.append(("unmangle", s, None))
    if driver_ok:
        from refurb.checks.common import unmangle_name

        answers = ctx.driver.batch(reqs, timeout=1200)
        for a, (kind, m, impl) in zip(answers, meta):
            res.bump("inproc:" + kind)
            if kind in ("probe", "probe-rev"):
                p = m
                res.case(("inproc", kind, p["section"], p["a"], p["b"]), nontrivial=p["a"] != p["b"] or "\n" in p["b"])
                if a["eq"] != impl:
                    res.disagree("is_equivalent", {"kind": kind, "section": p["section"], "a": p["a"], "b": p["b"]}, a["eq"], impl)
                if kind == "probe" and all(o.get("syn_ok", True) for o in _others(p["_ops"][0]) + _others(p["_ops"][1])) and not (has_fstring(p["a"]) or has_fstring(p["b"])):
                    want_syn = same(p["a"], p["b"], aliases=False)
                    res.bump("syn-checked")
                    if a["syn"] != want_syn:
                        res.disagree("synEq vs ast.dump equality", {"section": p["section"], "a": p["a"], "b": p["b"]}, a["syn"], want_syn)
            elif kind in ("cross", "none"):
                res.case(("inproc", kind, m), nontrivial=True)
                if a["eq"] != impl:
                    w = wouts[m[0]]["operands"]
                    res.disagree("is_equivalent (%s pair)" % kind, {"a": None if m[1] is None else w[m[1]], "b": None if m[2] is None else w[m[2]]}, a["eq"], impl)
                if impl is True:
                    res.bump("inproc:%s-equivalent" % kind)
            elif kind == "quad":
                res.case(("inproc", kind, m), nontrivial=impl is not None)
                if a != impl:
                    w = wouts[m[0]]["operands"]
                    res.disagree("get_common_expr_positions", {"exprs": [w[i] for i in m[1]]}, a, impl)
            elif kind == "litrepr":
                res.case(("litrepr", m), nontrivial=True)
                if impl is not None and _s(a) != impl:
                    res.disagree("rendering of a literal inside str(node)", {"kind": m[0], "value": m[1]}, _s(a), impl)
            elif kind == "unmangle":
                res.case(("unmangle", m), nontrivial=True)
                if _s(a) != unmangle_name(m):
                    res.disagree("unmangle_name", m, _s(a), unmangle_name(m))

    # ---- the oracle, through the real checks
    cands: dict[str, list[dict[str, Any]]] = {}
    for pf in files:
        mode, got, err = lints[pf.fname]
        res.bump("lint-mode:" + mode)
        if err:
            res.notes.append(f"refurb failed on {pf.fname}: {err[-300:]}")
            res.disagreements.append({"where": "cli", "reason": f"refurb exited abnormally on {pf.fname}: {err[-200:]}"})
            continue
        for line, p in pf.probes.items():
            code = int(p["check"][4:])
            if p["check"] == "FURB110":
                flagged = (line, p["col"], code) in got
            else:
                flagged = any(l == line and c == code for (l, _c, c) in got)
            want = expected_flag(p)
            key = (p["check"], p["section"], p["a"], p["b"])
            res.case(key, nontrivial=p["a"] != p["b"] or "\n" in p["b"])
            res.bump(f"oracle:{p.get('spec', p['check'])}:{p['kind']}")
            if p["edit"] and p["kind"] == "mutant":
                res.bump("edit:" + p["edit"])
            res.bump("oracle:flagged" if flagged else "oracle:not-flagged")
            w = p.get("_w")
            if p["check"] == "FURB110" and w is not None and w["eq"] != flagged and not err:
                res.disagree("FURB110 vs is_equivalent(if_expr, cond)", {"a": p["a"], "b": p["b"], "section": p["section"]}, w["eq"], flagged)
            if want != expected_flag(p, aliases=False):
                # the operands differ only by an import alias of one object.  "Differing names never count as the same": since the
                # NameExpr case compares names (fix 6444e5d, flag cmpName read off the code) such pairs are judged like any other
                # pair of different operands; while names were not compared either verdict was accepted.
                res.bump("alias-pairs-flagged" if flagged else "alias-pairs-not-flagged")
                if not CMP_NAME[0]:
                    continue
                want = expected_flag(p, aliases=False)
            if flagged == want:
                continue
            fp = flagged and not want
            cause = ("fstring-desugared" if fp and has_fstring(p["a"]) != has_fstring(p["b"]) else diagnose(*p["_ops"], false_positive=fp)) if "_ops" in p else ("unresolved-name" if fp and p["section"] in ("platform", "undefined") else "not-diagnosed")
            ospec = OTHER_CHECKS.get(p.get("spec", p["check"]), {})
            if fp and ospec.get("kind") == "cross":
                first, second = ospec["ops"](p["a"], p["b"])
                if same(first[0], first[1]) or same(second[0], second[1]):
                    cause = "same-comparison-operands"  # the only equal pair sits inside ONE comparison
            cause_class = cause.split(":")[0]
            sig = {"check": p["check"], "direction": "false-positive" if fp else "false-negative", "cause": cause_class}
            what = (
                f"{p['check']} {'reported' if fp else 'NOT reported'} for operands `{p['a']}` / `{p['b'].strip()[:80]}` "
                f"({'they differ syntactically' if fp else 'they are syntactically identical'}; section {p['section']}, cause {cause})"
            )
            res.bump("violation:" + json.dumps(sig, sort_keys=True))
            lst = cands.setdefault(json.dumps(sig, sort_keys=True), [])
            if len(lst) < 3:
                lst.append({"sig": sig, "what": what, "p": p, "pf": pf, "flagged": flagged, "fp": fp, "cause": cause})

    # ---- one replay per signature, and only an input on which the behaviour was SEEN to reproduce: the probe alone in a
    # minimal file is linted again; if none of (up to three) instances reproduces in isolation, the whole probe file is the replay
    def observe(files_: dict[str, str], fname: str, code: str, line: int, col: int | None) -> bool:
        with core.scratch("rv-c06v-") as vd:
            for n_, t_ in files_.items():
                (vd / n_).write_text(t_)
            _mode, got_, _err = lint(vd, fname)
        c_ = int(code[4:])
        return any(l == line and k == c_ and (col is None or cc == col) for (l, cc, k) in got_)

    def settle(lst: list[dict[str, Any]]) -> tuple[dict[str, Any], dict[str, Any]]:
        for v in lst:
            p = v["p"]
            src = minimal_source(p)
            col = p["_min_col"] if p["check"] == "FURB110" else None
            if observe({"probe.py": src}, "probe.py", p["check"], p["_min_line"], col) == v["flagged"]:
                return v, {"files": {"probe.py": src}, "argv": ["probe.py", "--enable-all", "--quiet"], "probe_line": p["_min_line"], "probe_col": col, "scope": "minimal file"}
        v = lst[0]
        p, pf = v["p"], v["pf"]
        col = p["col"] if p["check"] == "FURB110" else None
        again = observe({pf.fname: pf.text()}, pf.fname, p["check"], p["line"], col) == v["flagged"]
        return v, {
            "files": {pf.fname: pf.text()}, "argv": [pf.fname, "--enable-all", "--quiet"], "probe_line": p["line"], "probe_col": col,
            "scope": "whole probe file only: the probe alone in a minimal file behaves as required, so something EARLIER in this file changes the verdict" + ("" if again else " (and a second run of the whole file did not reproduce it either)"),
        }

    with ThreadPoolExecutor(8) as ex:
        settled = list(ex.map(settle, cands.values()))
    for v, rp in settled:
        p = v["p"]
        sig = dict(v["sig"])
        if rp["scope"] != "minimal file":
            sig["context"] = "whole-file-only"
        res.violate(
            v["what"] + ("" if rp["scope"] == "minimal file" else " [reproduces only inside the whole probe file]"),
            sig,
            {
                **rp,
                "code": p["check"],
                "observed": "diagnostic present" if v["flagged"] else "no diagnostic",
                "required": "no diagnostic (operands differ: ast.dump differs)" if v["fp"] else "diagnostic (operands identical up to layout)",
                "cause": v["cause"],
                "kind": p["kind"],
                "edit": p["edit"],
                "how": "write files into an empty directory, run `python -m refurb` with argv there, look for `code` at probe_line; or: bin/check C06 --replay <this file>",
            },
        )
    if res.distribution.get("alias-pairs-flagged"):
        res.notes.append("%d FURB110 probes whose operands differ only by an import alias of the same object (p1/p2, s1/s2) were flagged; not judged (see assumptions)" % res.distribution["alias-pairs-flagged"])
    for pf in files[:1]:
        for line, p in list(pf.probes.items())[:400:70]:
            res.sample({"check": p["check"], "section": p["section"], "kind": p["kind"], "edit": p["edit"], "a": p["a"], "b": p["b"], "expected_flag": expected_flag(p)})
    res.assumptions += [
        "A1: str(node) of a mypy node starts with the node's class name followed by '(' or ':', and str(None) is 'None' — so the str() fallback never "
        "equates nodes of different classes; checked on every serialised operand / non-structural node of this run",
        "CallExpr.args/arg_kinds/arg_names have equal length and ComparisonExpr has one operand more than operators (mypy invariants; checked on every serialised node)",
        "the property's 'syntactically identical' is ast.dump equality of the operand texts with and/or chains right-nested (`a and b and c` = `a and (b and c)`, "
        "which differ only by parentheses and are one tree for mypy)",
        "two names bound by import to the same object (`import os.path as p1, os.path as p2`) are outside the guard of the partial theorems (World.FnInj) and are not judged by the oracle: "
        "is_equivalent compares what a name resolves to, refurb flags such pairs, the suggested rewrite is right but the quoted source text shows the first alias twice "
        "(counted in distribution.alias-pairs-flagged / alias-pairs-not-flagged)",
        "`syn` of a non-structural node is ast.dump of its source segment (mypy's line/column/end_line/end_column); pairs where the segment does not parse are "
        "left out of the synEq-vs-ast comparison only",
    ]
    res.not_proved += [
        "mypy's StrConv (the text the fallback compares for lambdas, comprehensions, conditionals, walrus, await, yield) is an input of the model (`sc`), not modelled; "
        "only StrConv.str_repr (string literals) is modelled and compared",
        "that mypy resolves equal names in one expression to equal fullnames (the `World` of the partial theorems) is an assumption about mypy; the oracle exercises it end to end",
    ]
    res.trusted_extra += [
        "harness/props/c06.py:Ser — serialisation of mypy nodes into the model's expression type (fields read: name, fullname, expr, base, index, callee, args, arg_kinds, arg_names, items, op, operators, operands, begin_index, end_index, stride, value)",
        "harness/astjson.build_trees — refurb's own pipeline (run_refurb with load_checks stubbed) gives the analysed trees",
    ]


def has_fstring(text: str) -> bool:
    d = dump_text(text)
    return d is None or "JoinedStr" in d


def _others(j: Any) -> list[Any]:
    out: list[Any] = []

    def rec(x: Any) -> None:
        if isinstance(x, dict):
            if x.get("t") == "other":
                out.append(x)
            for v in x.values():
                rec(v)
        elif isinstance(x, list):
            for v in x:
                rec(v)

    rec(j)
    return out


def replay(path) -> int:
    data = json.loads(Path(path).read_text())
    rp = data.get("replay", {})
    if "files" not in rp:
        print(json.dumps(data, indent=1))
        return 0
    with core.scratch("rv-c06r-") as d:
        for name_, content in rp["files"].items():
            (d / name_).write_text(content)
        rc, out, err = core.refurb_cli(rp["argv"], cwd=d)
    diags, _ = core.parse_plain(out)
    code = int(rp["code"][4:])
    hit = [x for x in diags if x["line"] == rp["probe_line"] and x["code"] == code and (rp.get("probe_col") is None or x["col"] == rp["probe_col"])]
    observed = "diagnostic present" if hit else "no diagnostic"
    fname = rp["argv"][0]
    print(f"{fname} line {rp['probe_line']}: {rp['files'][fname].splitlines()[rp['probe_line'] - 1]}")
    print(f"required: {rp['required']}\nobserved now: {observed}" + (f" — {hit[0]['msg']}" if hit else ""))
    if err.strip():
        print(err[-400:])
    reproduced = observed == rp["observed"]
    print("REPRODUCED" if reproduced else "NOT reproduced (fixed?)")
    return 1 if reproduced else 0


if __name__ == "__main__":
    if len(sys.argv) == 4 and sys.argv[1] == "worker":
        worker_main(sys.argv[2], sys.argv[3])
