/-
C13 — report contract: one line per diagnostic, formats agree, exit 1 iff any.

Text is `List Char`; all statements hold for messages, file names and lists of any length.
-/
import RefurbVerif.Model.Report
import RefurbVerif.Lemmas.Sort

namespace RefurbVerif.C13
open RefurbVerif

/-! ### Characters of printed numbers -/

theorem natChars_isDigit (n : Nat) : ∀ c ∈ natChars n, c.isDigit = true := by
  intro c hc
  exact Nat.isDigit_of_mem_toDigits (by decide) (by decide) hc

theorem natChars_ne_nil (n : Nat) : natChars n ≠ [] := Nat.toDigits_ne_nil

theorem intChars_nonneg (i : Int) (h : 0 ≤ i) : intChars i = natChars i.toNat := by
  unfold intChars; split
  · omega
  · rfl

/-- the characters `str(int)` can produce -/
theorem intChars_chars (i : Int) : ∀ c ∈ intChars i, c.isDigit = true ∨ c = '-' := by
  intro c hc
  unfold intChars at hc
  split at hc
  · rcases List.mem_cons.mp hc with rfl | hc
    · exact Or.inr rfl
    · exact Or.inl (natChars_isDigit _ c hc)
  · exact Or.inl (natChars_isDigit _ c hc)

theorem not_mem_intChars (i : Int) (c : Char) (hd : c.isDigit = false) (hm : c ≠ '-') : c ∉ intChars i := by
  intro hc
  rcases intChars_chars i c hc with h | h
  · simp [hd] at h
  · exact hm h

/-! ### Colour only adds escape sequences -/

inductive St where
  | normal | esc | csi

/-- remove SGR sequences `ESC [ ... m` (what a terminal does not print) -/
def strip : St → Str → Str
  | _, [] => []
  | .normal, c :: r => if c = ESC then strip .esc r else c :: strip .normal r
  | .esc, c :: r => if c = '[' then strip .csi r else c :: strip .normal r
  | .csi, c :: r => if c = 'm' then strip .normal r else strip .csi r

def stripAnsi (s : Str) : Str := strip .normal s

def NoEsc (s : Str) : Prop := ESC ∉ s

theorem strip_noEsc_append (a b : Str) (h : NoEsc a) : strip .normal (a ++ b) = a ++ strip .normal b := by
  induction a with
  | nil => rfl
  | cons c r ih =>
    have hc : c ≠ ESC := fun hc => h (by simp [hc])
    have hr : NoEsc r := fun hr => h (by simp [hr])
    simp [strip, hc, ih hr]

theorem strip_noEsc (a : Str) (h : NoEsc a) : strip .normal a = a := by
  simpa [strip] using strip_noEsc_append a [] h

theorem strip_csi (n b : Str) (h : 'm' ∉ n) : strip .csi (n ++ 'm' :: b) = strip .normal b := by
  induction n with
  | nil => simp [strip]
  | cons c r ih =>
    have hc : c ≠ 'm' := fun hc => h (by simp [hc])
    simp [strip, hc, ih (fun hr => h (by simp [hr]))]

theorem strip_sgr (n b : Str) (h : 'm' ∉ n) : strip .normal (sgr n ++ b) = strip .normal b := by
  have : sgr n ++ b = ESC :: '[' :: (n ++ 'm' :: b) := by simp [sgr]
  rw [this]
  simp [strip, strip_csi n b h]

theorem strip_blue (b : Str) : strip .normal (blue ++ b) = strip .normal b := strip_sgr _ _ (by decide)
theorem strip_yellow (b : Str) : strip .normal (yellow ++ b) = strip .normal b := strip_sgr _ _ (by decide)
theorem strip_gray (b : Str) : strip .normal (gray ++ b) = strip .normal b := strip_sgr _ _ (by decide)
theorem strip_green (b : Str) : strip .normal (green ++ b) = strip .normal b := strip_sgr _ _ (by decide)
theorem strip_red (b : Str) : strip .normal (red ++ b) = strip .normal b := strip_sgr _ _ (by decide)
theorem strip_reset (b : Str) : strip .normal (reset ++ b) = strip .normal b := strip_sgr _ _ (by decide)

theorem strip_char (c : Char) (b : Str) (h : c ≠ ESC) : strip .normal (c :: b) = c :: strip .normal b := by
  simp [strip, h]

theorem noEsc_intChars (i : Int) : NoEsc (intChars i) :=
  not_mem_intChars i ESC (by decide) (by decide)

theorem noEsc_natChars (n : Nat) : NoEsc (natChars n) := by
  intro h; have := natChars_isDigit n ESC h; revert this; decide

/-- `splitAt` loses nothing: joining the pieces with the separator gives the text back -/
def joinWith (c : Char) : List Str → Str
  | [] => []
  | [p] => p
  | p :: ps => p ++ c :: joinWith c ps

theorem splitAt_ne_nil (c : Char) (s : Str) : splitAt c s ≠ [] := by
  induction s with
  | nil => simp [splitAt]
  | cons x xs ih =>
    unfold splitAt
    split
    · simp
    · split <;> simp

theorem joinWith_splitAt (c : Char) (s : Str) : joinWith c (splitAt c s) = s := by
  induction s with
  | nil => rfl
  | cons x xs ih =>
    unfold splitAt
    split
    · rename_i h; exact absurd h (splitAt_ne_nil c xs)
    · rename_i p ps h
      rw [h] at ih
      split
      · rename_i hx
        subst hx
        cases ps with
        | nil => simp [joinWith] at ih ⊢; exact ih
        | cons q qs => simp [joinWith] at ih ⊢; exact ih
      · cases ps with
        | nil => simp [joinWith] at ih ⊢; exact ih
        | cons q qs => simp [joinWith] at ih ⊢; exact ih

theorem mem_of_mem_splitAt (c : Char) (s p : Str) (hp : p ∈ splitAt c s) : ∀ x ∈ p, x ∈ s := by
  induction s generalizing p with
  | nil => simp [splitAt] at hp; subst hp; simp
  | cons y ys ih =>
    unfold splitAt at hp
    split at hp
    · simp at hp; subst hp; simp
    · rename_i q qs h
      split at hp
      · rcases List.mem_cons.mp hp with rfl | hp
        · simp
        · intro x hx; exact List.mem_cons_of_mem _ (ih p (by rw [h]; exact hp) x hx)
      · rcases List.mem_cons.mp hp with rfl | hp
        · intro x hx
          rcases List.mem_cons.mp hx with rfl | hx
          · simp
          · exact List.mem_cons_of_mem _ (ih q (by rw [h]; simp) x hx)
        · intro x hx; exact List.mem_cons_of_mem _ (ih p (by rw [h]; exact List.mem_cons_of_mem _ hp) x hx)

theorem strip_colorMsg (msg : Str) (h : NoEsc msg) : strip .normal (colorMsg msg) = msg := by
  unfold colorMsg
  split
  · rename_i p0 p1 p2 p3 p4 hs
    have hj := joinWith_splitAt '`' msg
    rw [hs] at hj
    have hp : ∀ p ∈ [p0, p1, p2, p3, p4], NoEsc p := by
      intro p hp hx
      exact h (mem_of_mem_splitAt '`' msg p (by rw [hs]; exact hp) ESC hx)
    have h0 := hp p0 (by simp)
    have h1 := hp p1 (by simp)
    have h2 := hp p2 (by simp)
    have h3 := hp p3 (by simp)
    have h4 := hp p4 (by simp)
    have hb : ('`' : Char) ≠ ESC := by decide
    simp only [List.append_assoc, List.cons_append, List.nil_append]
    rw [strip_noEsc_append _ _ h0, strip_gray, strip_char _ _ hb, strip_red, strip_noEsc_append _ _ h1,
      strip_gray, strip_char _ _ hb, strip_reset, strip_noEsc_append _ _ h2, strip_gray, strip_char _ _ hb,
      strip_green, strip_noEsc_append _ _ h3, strip_gray, strip_char _ _ hb, strip_reset, strip_noEsc _ h4]
    simpa [joinWith] using hj
  · exact strip_noEsc msg h

/-- **Colour only adds escape sequences**: what the terminal shows is the plain rendering. -/
theorem color_only_adds_escapes (d : Diag) (hf : NoEsc d.file) (hp : NoEsc d.pfx) (hm : NoEsc d.msg) :
    stripAnsi (formatColor d) = formatPlain d := by
  unfold stripAnsi formatColor formatPlain Diag.codeChars
  have hc : ∀ c : Char, c ∈ [':', ' ', '[', ']'] → c ≠ ESC := by decide
  simp only [List.append_assoc, List.cons_append, List.nil_append]
  rw [strip_blue, strip_noEsc_append _ _ hf, strip_reset, strip_gray, strip_char _ _ (hc _ (by simp)),
    strip_noEsc_append _ _ (noEsc_intChars _), strip_char _ _ (hc _ (by simp)),
    strip_noEsc_append _ _ (noEsc_intChars _), strip_reset, strip_char _ _ (hc _ (by simp)), strip_yellow,
    strip_char _ _ (hc _ (by simp)), strip_noEsc_append _ _ hp, strip_noEsc_append _ _ (noEsc_natChars _),
    strip_char _ _ (hc _ (by simp)), strip_reset, strip_gray, strip_char _ _ (hc _ (by simp)), strip_reset,
    strip_char _ _ (hc _ (by simp)), strip_colorMsg _ hm]

/-! ### One line per item; the report's lines are the items, in order -/

def NoNl (s : Str) : Prop := '\n' ∉ s

theorem noNl_intChars (i : Int) : NoNl (intChars i) := not_mem_intChars i '\n' (by decide) (by decide)
theorem noNl_natChars (n : Nat) : NoNl (natChars n) := by
  intro h; have := natChars_isDigit n '\n' h; revert this; decide

theorem plain_one_line (d : Diag) (hf : NoNl d.file) (hp : NoNl d.pfx) (hm : NoNl d.msg) :
    NoNl (formatPlain d) := by
  unfold NoNl formatPlain Diag.codeChars at *
  simp only [List.mem_append, List.mem_cons, List.mem_nil_iff, not_or]
  have h1 := noNl_intChars d.line
  have h2 := noNl_intChars (d.col + 1)
  have h3 := noNl_natChars d.code
  unfold NoNl at h1 h2 h3
  refine ⟨⟨⟨⟨⟨⟨⟨⟨hf, ?_⟩, h1⟩, ?_⟩, h2⟩, ?_⟩, ⟨hp, h3⟩⟩, ?_⟩, hm⟩ <;> decide

theorem github_one_line (rel : Str) (d : Diag) (hf : NoNl rel) (hp : NoNl d.pfx) (hm : NoNl d.msg) :
    NoNl (formatGithub rel d) := by
  unfold NoNl formatGithub Diag.codeChars at *
  simp only [List.mem_append, List.mem_cons, List.mem_nil_iff, not_or]
  have h1 := noNl_intChars d.line
  have h2 := noNl_intChars (d.col + 1)
  have h3 := noNl_natChars d.code
  unfold NoNl at h1 h2 h3
  refine ⟨⟨⟨⟨⟨⟨⟨⟨⟨?_, h1⟩, ?_⟩, h2⟩, ?_⟩, ⟨hp, h3⟩⟩, ?_⟩, hf⟩, ?_⟩, hm⟩ <;> decide

theorem splitAt_no_sep (c : Char) (s : Str) (h : c ∉ s) : splitAt c s = [s] := by
  induction s with
  | nil => rfl
  | cons x xs ih =>
    have hx : x ≠ c := fun hx => h (by simp [hx])
    unfold splitAt
    rw [ih (fun hm => h (List.mem_cons_of_mem _ hm))]
    simp [hx]

theorem splitAt_cons_sep (c : Char) (b : Str) : splitAt c (c :: b) = [] :: splitAt c b := by
  conv => lhs; unfold splitAt
  split
  · rename_i h'; exact absurd h' (splitAt_ne_nil c b)
  · rename_i p ps h'; simp [h']

theorem splitAt_cons_other (c x : Char) (b : Str) (p : Str) (ps : List Str) (hx : x ≠ c)
    (h : splitAt c b = p :: ps) : splitAt c (x :: b) = (x :: p) :: ps := by
  conv => lhs; unfold splitAt
  simp [h, hx]

theorem splitAt_append_sep (c : Char) (a b : Str) (h : c ∉ a) :
    splitAt c (a ++ c :: b) = a :: splitAt c b := by
  induction a with
  | nil => exact splitAt_cons_sep c b
  | cons x xs ih =>
    have hx : x ≠ c := fun hx => h (by simp [hx])
    exact splitAt_cons_other c x _ xs _ hx (ih (fun hm => h (List.mem_cons_of_mem _ hm)))

/-- **The lines of a joined report are exactly its items, in order** (no item is lost, merged or
    split), provided each rendered item is one line. -/
theorem lines_of_joinLines (ls : List Str) (hne : ls ≠ []) (h : ∀ l ∈ ls, NoNl l) :
    splitAt '\n' (joinLines ls) = ls := by
  induction ls with
  | nil => exact absurd rfl hne
  | cons l r ih =>
    cases r with
    | nil => exact splitAt_no_sep _ _ (h l (by simp))
    | cons m r' =>
      show splitAt '\n' (l ++ '\n' :: joinLines (m :: r')) = _
      rw [splitAt_append_sep _ _ _ (h l (by simp)), ih (by simp) (fun x hx => h x (List.mem_cons_of_mem _ hx))]

/-- the same items, in the same order, whatever the format: line `i` of each rendering is the
    rendering of item `i` -/
theorem same_items_same_order (fmt : Format) (rel : Str → Str) (items : List Item) (hne : items ≠ [])
    (h : ∀ i ∈ items, NoNl (formatItem fmt rel i)) :
    splitAt '\n' (formatErrors fmt rel true items) = items.map (formatItem fmt rel) := by
  unfold formatErrors hintShown
  simp only [Bool.not_true, Bool.false_and, Bool.false_eq_true, ↓reduceIte, List.append_nil]
  apply lines_of_joinLines
  · simpa using hne
  · intro l hl
    obtain ⟨i, hi, rfl⟩ := List.mem_map.mp hl
    exact h i hi

/-! ### Hint and exit status -/

theorem hint_iff (fmt : Format) (rel : Str → Str) (quiet : Bool) (items : List Item) :
    formatErrors fmt rel quiet items =
      joinLines (items.map (formatItem fmt rel)) ++ (if (∃ i ∈ items, i.isDiag = true) ∧ quiet = false then hint else []) := by
  unfold formatErrors hintShown
  congr 1
  by_cases hq : quiet = true
  · simp [hq]
  · have : quiet = false := by simpa using hq
    simp [this, List.any_eq_true]

/-- which strings in the result list are error lines (mypy/refurb) rather than `--debug` dumps is
    not visible to `main`; the model makes it a parameter -/
def ExitIff (isErrorLine : Str → Bool) (items : List Item) : Prop :=
  exitStatus items = 1 ↔ ∃ i ∈ items, i.isDiag = true ∨ (∃ s, i = .text s ∧ isErrorLine s = true)

theorem exit_iff_partial (isErrorLine : Str → Bool) (items : List Item)
    (hnodebug : ∀ s, Item.text s ∈ items → isErrorLine s = true) : ExitIff isErrorLine items := by
  unfold ExitIff exitStatus
  cases items with
  | nil => simp
  | cons i r =>
    simp only [List.isEmpty_cons, Bool.false_eq_true, ↓reduceIte, true_iff]
    refine ⟨i, by simp, ?_⟩
    cases i with
    | diag d => exact Or.inl rfl
    | text s => exact Or.inr ⟨s, rfl, hnodebug s (by simp)⟩

/-- with `--debug` the list holds syntax-tree dumps, and the exit status is 1 without any
    diagnostic or error line: the full statement is false of the current code (known finding). -/
theorem exit_iff_refuted : ¬ ∀ (isErrorLine : Str → Bool) (items : List Item), ExitIff isErrorLine items := by
  intro h
  have := h (fun _ => false) [.text ['M']]
  simp [ExitIff, exitStatus, Item.isDiag] at this

theorem exit_zero_iff_empty (items : List Item) : exitStatus items = 0 ↔ items = [] := by
  cases items <;> simp [exitStatus]

/-! ### The plain rendering determines its fields (parse back) -/

/-- longest prefix satisfying `p`, and the rest -/
def spanP (p : Char → Bool) : Str → Str × Str
  | [] => ([], [])
  | x :: xs => if p x then ((x :: (spanP p xs).1), (spanP p xs).2) else ([], x :: xs)

theorem span_append (p : Char → Bool) (a : Str) (c : Char) (r : Str)
    (ha : ∀ x ∈ a, p x = true) (hc : p c = false) : spanP p (a ++ c :: r) = (a, c :: r) := by
  induction a with
  | nil => simp [spanP, hc]
  | cons x xs ih =>
    have hx := ha x (by simp)
    have := ih (fun y hy => ha y (List.mem_cons_of_mem _ hy))
    simp [spanP, hx, this]

structure Fields where
  file : Str
  line : Nat
  col : Nat
  pfx : Str
  code : Nat
  msg : Str
  deriving DecidableEq, Repr

def readNat (s : Str) : Nat := Nat.ofDigitChars 10 s 0

/-- a reader of `file:line:col [PFXnnn]: msg` -/
def parsePlain (s : Str) : Option Fields :=
  match spanP (· != ':') s with
  | (file, ':' :: r1) =>
    match spanP Char.isDigit r1 with
    | (lineS, ':' :: r2) =>
      match spanP Char.isDigit r2 with
      | (colS, ' ' :: '[' :: r3) =>
        match spanP (fun c => !c.isDigit && c != ']') r3 with
        | (pfx, r4) =>
          match spanP Char.isDigit r4 with
          | (codeS, ']' :: ':' :: ' ' :: msg) =>
            some { file := file, line := readNat lineS, col := readNat colS, pfx := pfx, code := readNat codeS, msg := msg }
          | _ => none
      | _ => none
    | _ => none
  | _ => none

theorem readNat_natChars (n : Nat) : readNat (natChars n) = n := Nat.ofDigitChars_ten_toDigits

/-- **Plain round trip**: for a diagnostic with a non-negative position, a file name without `:`
    and a letters-only prefix, the printed line parses back to exactly its fields (the column as
    printed, i.e. 1-based). -/
theorem plain_roundtrip (d : Diag) (hl : 0 ≤ d.line) (hc : 0 ≤ d.col + 1)
    (hf : ':' ∉ d.file) (hp : ∀ c ∈ d.pfx, c.isDigit = false ∧ c ≠ ']') :
    parsePlain (formatPlain d) =
      some { file := d.file, line := d.line.toNat, col := (d.col + 1).toNat, pfx := d.pfx, code := d.code, msg := d.msg } := by
  unfold formatPlain Diag.codeChars parsePlain
  rw [intChars_nonneg _ hl, intChars_nonneg _ hc]
  simp only [List.append_assoc, List.cons_append, List.nil_append]
  rw [span_append (· != ':') d.file ':' _
    (by intro x hx; have : x ≠ ':' := fun h => hf (h ▸ hx); simpa using this) (by simp)]
  simp only
  rw [span_append Char.isDigit (natChars d.line.toNat) ':' _ (natChars_isDigit _) (by decide)]
  simp only
  rw [span_append Char.isDigit (natChars (d.col + 1).toNat) ' ' _ (natChars_isDigit _) (by decide)]
  simp only
  have hcode : natChars d.code ≠ [] := natChars_ne_nil _
  obtain ⟨c0, cr, hcr⟩ : ∃ c0 cr, natChars d.code = c0 :: cr := by
    cases h : natChars d.code with
    | nil => exact absurd h hcode
    | cons a b => exact ⟨a, b, rfl⟩
  have hc0 : c0.isDigit = true := natChars_isDigit d.code c0 (by rw [hcr]; simp)
  rw [hcr]
  simp only [List.cons_append]
  rw [span_append (fun c => !c.isDigit && c != ']') d.pfx c0 _
    (by intro x hx; have := hp x hx; simp [this.1, this.2]) (by simp [hc0])]
  simp only
  have : c0 :: (cr ++ ']' :: ':' :: ' ' :: d.msg) = (c0 :: cr) ++ ']' :: ':' :: ' ' :: d.msg := rfl
  rw [this, ← hcr, span_append Char.isDigit (natChars d.code) ']' _ (natChars_isDigit _) (by decide)]
  simp only [readNat_natChars]

/-- the two textual formats print the same numbers: GitHub's `line=`/`col=` are the plain
    rendering's `line:col` (both 1-based columns) -/
theorem github_prints_same_position (rel : Str) (d : Diag) :
    formatGithub rel d = "::error line=".toList ++ intChars d.line ++ ",col=".toList ++ intChars (d.col + 1)
        ++ (",title=Refurb ".toList ++ d.codeChars ++ ",file=".toList ++ rel ++ [':', ':'] ++ d.msg) ∧
    formatPlain d = d.file ++ [':'] ++ intChars d.line ++ [':'] ++ intChars (d.col + 1)
        ++ ([' ', '['] ++ d.codeChars ++ [']', ':', ' '] ++ d.msg) := by
  constructor
  · unfold formatGithub; simp only [List.append_assoc]
  · unfold formatPlain; simp only [List.append_assoc]

/-! ### The GitHub annotation determines its fields too -/

/-- drop a literal prefix -/
def stripPre : Str → Str → Option Str
  | [], s => some s
  | _ :: _, [] => none
  | p :: ps, x :: xs => if p = x then stripPre ps xs else none

theorem stripPre_append (p r : Str) : stripPre p (p ++ r) = some r := by
  induction p with
  | nil => simp [stripPre]
  | cons a as ih => simp [stripPre, ih]

/-- a reader of `::error line=L,col=C,title=Refurb PFXnnn,file=F::msg` -/
def parseGithub (s : Str) : Option Fields :=
  match stripPre "::error line=".toList s with
  | some r0 =>
    match spanP Char.isDigit r0 with
    | (lineS, r0') =>
      match stripPre ",col=".toList r0' with
      | some r1 =>
        match spanP Char.isDigit r1 with
        | (colS, r2) =>
          match stripPre ",title=Refurb ".toList r2 with
          | some r3 =>
            match spanP (fun c => !c.isDigit && c != ',') r3 with
            | (pfx, r4) =>
              match spanP Char.isDigit r4 with
              | (codeS, r5) =>
                match stripPre ",file=".toList r5 with
                | some r6 =>
                  match spanP (· != ':') r6 with
                  | (file, ':' :: ':' :: msg) =>
                    some { file := file, line := readNat lineS, col := readNat colS, pfx := pfx, code := readNat codeS, msg := msg }
                  | _ => none
                | none => none
          | none => none
      | none => none
  | none => none

/-- **GitHub round trip**: the annotation parses back to exactly the diagnostic's fields — the message verbatim, the
    column as printed (1-based), the file as given relative to the working directory. -/
theorem github_roundtrip (rel : Str) (d : Diag) (hl : 0 ≤ d.line) (hc : 0 ≤ d.col + 1)
    (hf : ':' ∉ rel) (hp : ∀ c ∈ d.pfx, c.isDigit = false ∧ c ≠ ',') :
    parseGithub (formatGithub rel d) =
      some { file := rel, line := d.line.toNat, col := (d.col + 1).toNat, pfx := d.pfx, code := d.code, msg := d.msg } := by
  unfold formatGithub Diag.codeChars parseGithub
  rw [intChars_nonneg _ hl, intChars_nonneg _ hc]
  simp only [List.append_assoc]
  rw [stripPre_append]
  simp only
  have e1 : ",col=".toList ++ (natChars (d.col + 1).toNat ++ (",title=Refurb ".toList ++ (d.pfx ++ (natChars d.code ++ (",file=".toList ++ (rel ++ ([':', ':'] ++ d.msg)))))))
      = ',' :: ("col=".toList ++ (natChars (d.col + 1).toNat ++ (",title=Refurb ".toList ++ (d.pfx ++ (natChars d.code ++ (",file=".toList ++ (rel ++ ([':', ':'] ++ d.msg)))))))) := rfl
  rw [e1, span_append Char.isDigit (natChars d.line.toNat) ',' _ (natChars_isDigit _) (by decide)]
  simp only
  rw [← e1, stripPre_append]
  simp only
  have e2 : ",title=Refurb ".toList ++ (d.pfx ++ (natChars d.code ++ (",file=".toList ++ (rel ++ ([':', ':'] ++ d.msg)))))
      = ',' :: ("title=Refurb ".toList ++ (d.pfx ++ (natChars d.code ++ (",file=".toList ++ (rel ++ ([':', ':'] ++ d.msg)))))) := rfl
  rw [e2, span_append Char.isDigit (natChars (d.col + 1).toNat) ',' _ (natChars_isDigit _) (by decide)]
  simp only
  rw [← e2, stripPre_append]
  simp only
  obtain ⟨c0, cr, hcr⟩ : ∃ c0 cr, natChars d.code = c0 :: cr := by
    cases h : natChars d.code with
    | nil => exact absurd h (natChars_ne_nil _)
    | cons a b => exact ⟨a, b, rfl⟩
  have hc0 : c0.isDigit = true := natChars_isDigit d.code c0 (by rw [hcr]; simp)
  rw [hcr]
  simp only [List.cons_append]
  rw [span_append (fun c => !c.isDigit && c != ',') d.pfx c0 _
    (by intro x hx; have := hp x hx; simp [this.1, this.2]) (by simp [hc0])]
  simp only
  have e3 : c0 :: (cr ++ (",file=".toList ++ (rel ++ ':' :: ':' :: ([] ++ d.msg)))) = (c0 :: cr) ++ ',' :: ("file=".toList ++ (rel ++ ':' :: ':' :: ([] ++ d.msg))) := rfl
  rw [e3, ← hcr, span_append Char.isDigit (natChars d.code) ',' _ (natChars_isDigit _) (by decide)]
  simp only
  have e4 : ',' :: ("file=".toList ++ (rel ++ ':' :: ':' :: ([] ++ d.msg))) = ",file=".toList ++ (rel ++ ':' :: (':' :: d.msg)) := rfl
  rw [e4, stripPre_append]
  simp only
  rw [span_append (· != ':') rel ':' _
    (by intro x hx; have : x ≠ ':' := fun h => hf (h ▸ hx); simpa using this) (by simp)]
  simp only [readNat_natChars]

/-- **The formats agree**: read back, the plain line and the GitHub annotation of a diagnostic carry the same line, column,
    code and message (and the same file, spelled relative to the working directory in the annotation). -/
theorem formats_agree (rel : Str) (d : Diag) (hl : 0 ≤ d.line) (hc : 0 ≤ d.col + 1) (hf : ':' ∉ d.file) (hr : ':' ∉ rel)
    (hp : ∀ c ∈ d.pfx, c.isDigit = false ∧ c ≠ ']' ∧ c ≠ ',') :
    ∃ p g, parsePlain (formatPlain d) = some p ∧ parseGithub (formatGithub rel d) = some g ∧
      p.line = g.line ∧ p.col = g.col ∧ p.pfx = g.pfx ∧ p.code = g.code ∧ p.msg = g.msg ∧ p.file = d.file ∧ g.file = rel :=
  ⟨_, _, plain_roundtrip d hl hc hf (fun c h => ⟨(hp c h).1, (hp c h).2.1⟩),
    github_roundtrip rel d hl hc hr (fun c h => ⟨(hp c h).1, (hp c h).2.2⟩), rfl, rfl, rfl, rfl, rfl, rfl, rfl⟩

/-! ### Non-vacuity -/

def sample : Diag := { file := "a.py".toList, line := 3, col := 4, pfx := "FURB".toList, code := 123,
                        msg := "Replace `int(0)` with `0`".toList }

example : parsePlain (formatPlain sample) =
    some { file := "a.py".toList, line := 3, col := 5, pfx := "FURB".toList, code := 123, msg := sample.msg } := by
  decide +kernel
example : stripAnsi (formatColor sample) = formatPlain sample := by decide +kernel
example : parseGithub (formatGithub "sub/a.py".toList { sample with msg := "two  blanks, a `tick` and 100%".toList }) =
    some { file := "sub/a.py".toList, line := 3, col := 5, pfx := "FURB".toList, code := 123, msg := "two  blanks, a `tick` and 100%".toList } := by
  decide +kernel
example : colorMsg sample.msg ≠ sample.msg := by decide +kernel

end RefurbVerif.C13
