"""C10 — checks do not interfere: any selection's output is a filter of the full output.

Lean: Props/C10.lean (visitAll_select / selection_is_filter for any catalogue of stateful checks, any
selection, any number of nodes; locality facts of today's 93 check modules by `decide` over the
regenerated Generated/Locality.lean with committed allow-lists).
Correspondence: the model's composition law — the full report is the stable sort of the concatenated
group reports — evaluated by the driver (`sort` verb) on the real reports of a random partition of
the catalogue, compared with the real `--enable-all` report.
Oracle (implementation, CLI, fresh processes): on refurb's own idiom corpus (test/data) plus the C04
corpus, the report with only a subset S enabled must equal the `--enable-all` report filtered to S —
for a random partition, singletons, complements and `--ignore` runs; same lines, same order.
"""

from __future__ import annotations

import shutil
from concurrent.futures import ThreadPoolExecutor
from pathlib import Path
from typing import Any

from .. import core, extract

GENERATED = ["Catalogue", "Locality"]


def lint(d: Path, files: list[str], extra: list[str]) -> tuple[int, list[dict[str, Any]], list[str], str]:
    rc, out, err = core.refurb_cli([*files, "--quiet", *extra], cwd=d, timeout=1200)
    diags, other = core.parse_plain(out)
    return rc, diags, other, err


def as_item(x: dict[str, Any]) -> dict[str, Any]:
    return {"k": "diag", "file": x["file"], "line": x["line"], "col": x["col"] - 1, "prefix": x["prefix"], "code": x["code"], "msg": x["msg"]}


def run(ctx) -> None:
    res = ctx.res
    rng = ctx.rng("c10")
    rows = extract.catalogue_rows()
    codes = [f"{r['prefix']}{r['code']}" for r in rows]
    res.rule = (
        "one case per (selection, file set): selections = a random partition of the catalogue into 12 groups (quick) / all 93 singletons "
        "(thorough) + complements of singletons + random subsets + --ignore runs; each selection's report is compared line by line, in "
        "order, with the --enable-all report filtered to the selection; non-trivial = the filtered full report is non-empty; distinct = "
        "distinct selection"
    )
    with core.scratch("rv-c10-") as d:
        names = []
        for sub in ("data", "data_3.9", "data_3.10", "data_3.11"):
            for f in sorted((core.REPO / "test" / sub).glob("*.py")):
                # renamed: test/data/pathlib.py would shadow the standard library in the scratch cwd
                name = f"td_{sub[5:].replace('.', '')}_{f.name}"
                shutil.copy(f, d / name)
                names.append(name)
        for f in sorted((core.VERIF / "corpus" / "C04").glob("*.py")):
            shutil.copy(f, d / ("c04_" + f.name))
            names.append("c04_" + f.name)
        for f in sorted((core.VERIF / "corpus" / "C10").glob("*.py")):
            shutil.copy(f, d / ("c10_" + f.name))
            names.append("c10_" + f.name)
        # idioms of different checks nested inside each other's operands and inside f-strings, calls, comprehensions
        # (the C04 context generator): cross-check interference needs such nestings to show
        from . import c04

        nested = c04.build_cases(ctx.rng("c10-nested"), True)
        for k in range(0, len(nested), 60):
            text = c04.PRELUDE + "".join(c04.locate(c["src"])[0] + "\n" for c in nested[k : k + 60])
            name = f"nest_{k // 60}.py"
            (d / name).write_text(text)
            names.append(name)
        (d / "pyproject.toml").write_text("")
        # refurb's own data directory holds files that need each other (module pairs); lint them all together
        shuffled = codes[:]
        rng.shuffle(shuffled)
        selections: list[tuple[str, list[str], list[str]]] = []  # (label, argv, selected codes)
        if ctx.quick:
            ngroups = 12
            for g in range(ngroups):
                grp = shuffled[g::ngroups]
                selections.append((f"group{g}", ["--disable-all", "--enable", ",".join(grp)], grp))
            singles = rng.sample(codes, 5)
            comps = rng.sample(codes, 4)
            rand = 3
            ign = rng.sample(codes, 3)
        else:
            singles = codes
            comps = codes[::3]
            rand = 40
            ign = rng.sample(codes, 20)
            for g in range(12):
                grp = shuffled[g::12]
                selections.append((f"group{g}", ["--disable-all", "--enable", ",".join(grp)], grp))
        for c in singles:
            selections.append((f"single:{c}", ["--disable-all", "--enable", c], [c]))
        for c in comps:
            rest = [x for x in codes if x != c]
            selections.append((f"complement:{c}", ["--enable-all", "--disable", c], rest))
        for i in range(rand):
            sub = rng.sample(codes, rng.randint(2, 60))
            selections.append((f"random{i}", ["--disable-all", "--enable", ",".join(sub)], sub))
        for c in ign:
            rest = [x for x in codes if x != c]
            selections.append((f"ignore:{c}", ["--enable-all", "--ignore", c], rest))

        with ThreadPoolExecutor(16) as ex:
            fut_full = ex.submit(lint, d, names, ["--enable-all"])
            futs = [ex.submit(lint, d, names, argv) for _, argv, _ in selections]
            full = fut_full.result()
            results = [f.result() for f in futs]
    rc, full_diags, other, err = full
    if err.strip() or other:
        res.violate("the --enable-all run on refurb's own test data printed errors", {"kind": "full-run-error"}, {"stderr": err[-800:], "other": other[:5]})
        return
    full_lines = [(x["file"], x["line"], x["col"], f"{x['prefix']}{x['code']}", x["msg"]) for x in full_diags]
    res.bump("full_diagnostics", len(full_lines))
    res.bump("files", len(names))
    how = "copy /repo/test/data*/*.py (renamed td_<dir>_<name>), the nested-idiom files written by harness/props/c10.py (c04.build_cases) and /verif/corpus/C04/*.py (as c04_*.py) into an empty directory with an empty pyproject.toml; run python -m refurb *.py --quiet ARGV and compare with the --enable-all run"
    group_reports: list[list[dict[str, Any]]] = []
    for (label, argv, sel), (rc_s, diags, other_s, err_s) in zip(selections, results):
        selset = set(sel)
        want = [l for l in full_lines if l[3] in selset]
        got = [(x["file"], x["line"], x["col"], f"{x['prefix']}{x['code']}", x["msg"]) for x in diags]
        res.case(("selection", label, tuple(sorted(sel))), nontrivial=bool(want))
        res.bump("selection:" + label.split(":")[0].rstrip("0123456789"))
        if label.startswith("group"):
            group_reports.append([as_item(x) for x in diags])
        if err_s.strip() or other_s:
            res.violate(f"the run with selection {label} printed errors", {"kind": "subset-run-error", "label": label}, {"argv": argv, "stderr": err_s[-500:], "other": other_s[:3], "how": how})
            continue
        if got != want:
            missing = [l for l in want if l not in got][:4]
            extra = [l for l in got if l not in want][:4]
            reordered = not missing and not extra
            culprit = sorted({l[3] for l in missing + extra}) or ["order"]
            res.violate(
                f"selection {label}: the report differs from the filtered --enable-all report ({'order only' if reordered else f'missing {len(missing)}+, extra {len(extra)}+'}; codes {culprit[:4]})",
                {"kind": "selection-differs", "codes": culprit[:4], "mode": label.split(":")[0].rstrip("0123456789")},
                {"argv": argv, "missing_from_subset_run": missing, "only_in_subset_run": extra, "how": how},
            )
    res.sample({"selection": selections[0][0], "argv": selections[0][1][:2] + ["…"], "diagnostics_in_subset_run": len(results[0][1])})
    res.sample({"selection": selections[-1][0], "argv": selections[-1][1], "diagnostics_in_subset_run": len(results[-1][1])})

    # ---- model: composition law (full = stable sort of the concatenated group reports)
    if ctx.driver.available() and group_reports:
        flat = [it for g in group_reports for it in g]
        ans = ctx.driver.batch([{"verb": "sort", "items": flat, "by": "filename"}])[0]
        model_full = [(a["file"], a["line"], a["col"] + 1, f"{a['prefix']}{a['code']}", a["msg"]) for a in ans]
        res.case(("compose", len(flat)))
        if model_full != full_lines:
            diff = next((i for i, (a, b) in enumerate(zip(model_full, full_lines)) if a != b), min(len(model_full), len(full_lines)))
            res.disagree("compose", {"groups": len(group_reports), "first_difference_at": diff}, model_full[diff : diff + 2], full_lines[diff : diff + 2])
    elif not ctx.driver.available():
        res.disagreements.append({"where": "driver", "reason": "driver executable not built"})

    # ---- locality facts: show what the allow-lists cover (implementation side of the decide-theorems)
    from .. import extract_c10

    for r in extract_c10.locality_rows():
        res.case(("locality", r["module"]), nontrivial=bool(r["module_state"] or r["node_writes"] or r["errors_other"] or r["mutable_imports"]))
    res.assumptions += [
        "Local(c) — a check's output on a node depends only on the tree and its own state — is a syntactic scan (ast) of the check modules: "
        "no mutable imports between check modules, no writes to nodes, `errors` only appended to; the three allow-listed exceptions are justified in Model/Visitor.lean",
        "refurb's test/data is the idiom corpus (every built-in check fires there)",
    ]


def replay(path) -> int:
    print(Path(path).read_text())
    return 0
