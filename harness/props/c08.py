"""C08 — `# noqa` suppresses exactly the named diagnostics on its own line.

Lean: Props/C08.lean over Model/Noqa.lean (str.splitlines vs the tokenizer's physical lines, rstrip, the regex
`# noqa(: [^'"]*)?$` under re.search, the code-list splitter, the filter that precedes sorting).
Translator: harness/extract_c08.py probes refurb.main.get_source_lines (which characters end a line, trailing
empty line or not) into Generated/NoqaLines.lean; the theorems cover both `str.splitlines` (refurb 2.0.0: full
law refuted, guarded law proved) and newline-only splitting (full law proved).
Correspondence (in-process): model `splitlines`/`noqa`/`noqa_report` vs str.splitlines, read_text's newline
translation, refurb.main.get_source_lines, is_ignored_via_comment and should_ignore_error + sorted on generated
lines and files; the model's physical lines vs CPython's parser (ast line numbers) on every oracle file.
Oracle (metamorphic, end to end through the CLI in fresh processes): lint generated files, append `# noqa` /
`# noqa: LIST` to subsets of the physical lines on which the tokenizer accepts a comment — diagnosed lines AND
lines that carry no diagnostic (the last line of a diagnosed multi-line statement/expression, lines of its body,
continuation lines, neighbours, anything else) — lint again; the new report must be the old one minus exactly the
diagnostics whose OWN reported line got a comment that names them, in the same order. The model is asked to
predict every annotated report from the old one as well.
"""

from __future__ import annotations

import ast
import io
import json
import re
import tokenize
from concurrent.futures import ThreadPoolExecutor
from pathlib import Path
from typing import Any

from .. import core, extract_c08

GENERATED = ["NoqaLines"]

# separators only str.splitlines knows (the tokenizer treats \f as blank space and the others as ordinary
# characters of a string literal or comment)
EXOTIC = {"VT": "\x0b", "FF": "\x0c", "FS": "\x1c", "GS": "\x1d", "RS": "\x1e", "NEL": "\x85", "LS": "\u2028", "PS": "\u2029"}
EXOTIC_CHARS = "".join(EXOTIC.values())
PY_SPACE = "\t\n\x0b\x0c\r\x1c\x1d\x1e\x1f \x85\xa0\u1680\u2000\u2001\u2002\u2003\u2004\u2005\u2006\u2007\u2008\u2009\u200a\u2028\u2029\u202f\u205f\u3000"


# ------------------------------------------------------------------------------------------------
# reference transcriptions (independent of refurb and of the Lean model)


def ref_phys_lines(raw: str) -> list[str]:
    """Physical lines as the tokenizer numbers them: \\r\\n, \\r, \\n end a line; nothing else does."""
    parts = re.split(r"\r\n|\r|\n", raw)
    if parts and parts[-1] == "":
        parts.pop()
    return parts


def cp(s: str) -> list[int]:
    """wire form of model text in answers: code points (see Wire/Noqa.lean)"""
    return [ord(c) for c in s]


def cps(ls: list[str]) -> list[list[int]]:
    return [cp(l) for l in ls]


def predicted_ignore(comment_kind: Any, code: str) -> bool:
    """The property's own reading of an appended comment: bare -> everything, list -> exactly the listed codes."""
    if comment_kind == "bare":
        return True
    return code in comment_kind


# ------------------------------------------------------------------------------------------------
# in-process correspondence


def gen_text(rng, n: int) -> str:
    alpha = ["a", "b", " ", "#", "\n", "\n", "\r", "\r\n", "\t", "é", "\x1f", "\xa0"] + list(EXOTIC.values())
    return "".join(rng.choice(alpha) for _ in range(n))


CODE_HEADS = ["x = int(0)", "s = \"a # noqa\"", "t = '# noqa: FURB123'", "é = \"日本語\"", "\tif x:", "", "y = 1  # why", "z = '''", "# noqa: FURB123 '", "u = 1 #noqa", "w = 2  # noqa:FURB123"]
COMMENTS = [
    "# noqa", "# noqa: FURB123", "# noqa: FURB123,XYZ100", "# noqa: FURB123, XYZ100", "# noqa: XYZ100 FURB123", "# noqa: FURB124", "# noqa: FURB12",
    "# noqa: FURB1234", "# noqa: furb123", "# noqa: 123", "# noqa:FURB123", "# noqa : FURB123", "# noqa:  FURB123", "# noqa: ", "# noqa:", "#noqa", "# NOQA",
    "#  noqa", "# noqa: FURB123 # it's", "# noqa: FURB123 # fine", "# noqa # noqa: XYZ100", "# noqa: XYZ100 # noqa", "# noqa: \"FURB123\"", "# noqa: FURB123\"",
    "# noqa: FURB123;XYZ100", "# noqa: FURB123,,XYZ100", "# noqa: ,FURB123", "# noqa: FURB123,", "# noqa: FURB123\tXYZ100", "# noqa: FURB123\xa0", "# noqa: ABCD999, FURB123",
    "# noqa: é, FURB123", "# noqa\x1f", "# noqa -- reason", "# type: ignore  # noqa", "# noqa: FURB123  # type: ignore", "", "# nothing", "# noqa: FURB 123",
]
TRAILS = ["", "", " ", "  \t", "\x1f", "\xa0", "\u3000", "\u200b", " x", "'", "\"", " \"", ".", "\\"]
PROBE_CODES = [("FURB", 123), ("XYZ", 100), ("FURB", 12), ("FURB", 124), ("ABCD", 999), ("FURB", 1234)]


def gen_line(rng) -> str:
    r = rng.random()
    if r < 0.12:
        # free-form soup around the tag
        atoms = ["# noqa", "# noqa:", ": ", " ", ",", "FURB123", "XYZ100", "'", "\"", "#", "noqa", "x", "\t", "é", "\xa0"]
        return "".join(rng.choice(atoms) for _ in range(rng.randint(1, 7)))
    head = rng.choice(CODE_HEADS)
    gap = rng.choice(["  ", " ", "", "\t"])
    return head + gap + rng.choice(COMMENTS) + rng.choice(TRAILS)


def error_class(prefix: str, code: int):
    from refurb.error import Error

    return type(f"E{prefix}{code}", (Error,), {"prefix": prefix, "code": code})


def correspondence(ctx, d: Path) -> None:
    res = ctx.res
    rng = ctx.rng("corr")
    import refurb.main as M
    from refurb.settings import Settings

    if not ctx.driver.available():
        res.disagreements.append({"where": "driver", "reason": "driver executable not built"})
        return
    classes = {(p, c): error_class(p, c) for p, c in PROBE_CODES}
    reqs: list[dict[str, Any]] = []
    expect: list[Any] = []
    meta: list[tuple] = []

    # (1) line splitting: str.splitlines, read_text's translation, get_source_lines, the tokenizer's lines
    n_text = 1500 if ctx.quick else 20000
    texts = ["", "\n", "\r", "\r\n", "\n\r", "\r\r\n", "a", "a\n", "a\r\nb", "a\x0c\nb", "x = int(0)\n\x0c\ny = int(1)  # noqa\n"]
    texts += ["a" + s + "b" for s in EXOTIC.values()] + [s for s in EXOTIC.values()] + ["a\r" + s + "\nb" for s in EXOTIC.values()]
    texts += [gen_text(rng, rng.randint(0, 14)) for _ in range(n_text)]
    (d / "t").mkdir()
    for i, s in enumerate(texts):
        p = d / "t" / f"t{i}.txt"
        p.write_bytes(s.encode("utf8"))
        impl = {"py": cps(s.splitlines()), "translated": cp(p.read_text("utf8")), "source": cps(M.get_source_lines(str(p))), "phys": cps(ref_phys_lines(s))}
        reqs.append({"verb": "splitlines", "s": s})
        expect.append(impl)
        meta.append(("splitlines", s, any(c in s for c in EXOTIC_CHARS + "\r\n")))

    # (2) is_ignored_via_comment on single lines (files of 200 separator-free lines)
    n_lines = 1200 if ctx.quick else 12000
    lines = [c + t for c in COMMENTS for t in ("", " ")] + ["x = int(0)  " + c for c in COMMENTS]
    lines += [gen_line(rng) for _ in range(n_lines)]
    lines = [l for l in lines if not any(c in l for c in EXOTIC_CHARS + "\r\n")]
    (d / "l").mkdir()
    for start in range(0, len(lines), 200):
        chunk = lines[start : start + 200]
        p = d / "l" / f"l{start}.py"
        p.write_bytes(("\n".join(chunk) + "\n").encode("utf8"))
        for k, line in enumerate(chunk):
            # str.splitlines drops nothing here, but a chunk ending in empty lines has fewer entries: pad
            for pfx, code in rng.sample(PROBE_CODES, 3) if start + k >= 120 else PROBE_CODES:
                err = classes[(pfx, code)](k + 1, 0, "m", str(p))
                try:
                    impl = M.is_ignored_via_comment(err)
                except IndexError:
                    continue  # trailing empty lines of the chunk (no such line for splitlines)
                reqs.append({"verb": "noqa", "line": line, "code": f"{pfx}{code}"})
                expect.append(impl)
                meta.append(("noqa", (line, f"{pfx}{code}"), "# noqa" in line))

    # (3) the filter as a whole: files with every kind of separator, positions incl. out-of-range ones
    n_files = 150 if ctx.quick else 1500
    (d / "f").mkdir()
    for i in range(n_files):
        body = []
        for _ in range(rng.randint(0, 6)):
            r = rng.random()
            line = gen_line(rng) if r < 0.7 else rng.choice(["", "a" + rng.choice(list(EXOTIC.values())) + "b  # noqa", "\x0c", "k = 1"])
            body.append(line + rng.choice(["\n", "\n", "\r\n", "\r", rng.choice(list(EXOTIC.values()))]))
        raw = "".join(body)
        if rng.random() < 0.3:
            raw = raw.rstrip("\r\n")
        p = d / "f" / f"f{i}.py"
        p.write_bytes(raw.encode("utf8"))
        items = []
        for _ in range(rng.randint(0, 6)):
            if rng.random() < 0.1:
                items.append({"k": "text", "s": rng.choice(["refurb: x", "f.py:1: error: y"])})
                continue
            pfx, code = rng.choice(PROBE_CODES)
            n_py = max(1, len(raw.splitlines()))
            line_no = rng.randint(1, n_py) if rng.random() < 0.8 else rng.choice([0, -1, -3, n_py + 1, n_py + 30, -n_py, -n_py - 1])
            items.append({"k": "diag", "file": str(p), "line": line_no, "col": rng.choice([0, 4]), "prefix": pfx, "code": code, "msg": "m"})
        by = rng.choice(["filename", "error"])
        # end positions on other lines (often ones that carry a `# noqa`): the filter must not look at them
        errs = [
            it["s"] if it["k"] == "text" else classes[(it["prefix"], it["code"])](it["line"], it["col"], it["msg"], it["file"], rng.choice([None, it["line"], it["line"] + 1, it["line"] + 2, 1]), rng.choice([None, 0, 7]))
            for it in items
        ]
        s = Settings(sort_by=by)
        try:
            kept = sorted([e for e in errs if not M.should_ignore_error(e, s)], key=lambda e: M.sort_errors(e, s))
            impl: Any = {"items": [{"k": "text", "s": e} if isinstance(e, str) else {"k": "diag", "file": e.filename, "line": e.line, "col": e.column, "prefix": e.prefix, "code": e.code, "msg": e.msg} for e in kept]}
        except IndexError:
            impl = {"raised": "IndexError"}
        reqs.append({"verb": "noqa_report", "files": [[str(p), raw]], "items": items, "by": by})
        expect.append(impl)
        meta.append(("noqa_report", (raw, json.dumps(items, sort_keys=True), by), any(it["k"] == "diag" for it in items)))
    getattr(M.get_source_lines, "cache_clear", lambda: None)()

    answers = ctx.driver.batch(reqs)
    for a, e, m in zip(answers, expect, meta):
        res.case(("corr", m[0], m[1]), nontrivial=m[2])
        res.bump("corr_" + m[0])
        if m[0] == "noqa":
            got = a.get("ignored") if isinstance(a, dict) else a
            if got != e:
                if isinstance(a, dict) and isinstance(a.get("match"), dict) and a["match"].get("group") is not None:
                    a = {"ignored": got, "match": {"group": "".join(map(chr, a["match"]["group"]))}}
                res.disagree("is_ignored_via_comment", {"line": m[1][0], "code": m[1][1]}, a, e)
            res.bump("corr_noqa_ignored" if e else "corr_noqa_kept")
        elif m[0] == "noqa_report":
            if a != e:
                res.disagree("should_ignore_error+sorted", {"raw": m[1][0], "items": json.loads(m[1][1]), "by": m[1][2]}, a, e)
            res.bump("corr_report_raised" if "raised" in e else "corr_report_ok")
        elif a != e:
            res.disagree("splitlines", {"s": m[1]}, a, e)
    res.sample({"verb": "noqa", "line": lines[3], "impl": expect[len(texts)]})


# ------------------------------------------------------------------------------------------------
# oracle: generated programs


# a plugin with checks under another prefix: XYZ100 on the literal 4242, XYZ123 on the literal 4244, and two whose ids have
# fewer than three digits (XYZ7 on 4247, XYZ42 on 4249): a diagnostic is printed as [XYZ7], and `# noqa: XYZ7` is its code
PLUGIN = {"probe_c08/__init__.py": ""}
for _code, _value in ((100, 4242), (123, 4244), (7, 4247), (42, 4249)):
    PLUGIN[f"probe_c08/k{_code}.py"] = f"""
from dataclasses import dataclass
from mypy.nodes import IntExpr
from refurb.error import Error

@dataclass
class ErrorInfo(Error):
    \"\"\"probe\"\"\"
    prefix = "XYZ"
    code = {_code}
    name = "probe-c08-{_code}"
    msg: str = "probe {_value}"

def check(node: IntExpr, errors: list[Error]) -> None:
    if node.value == {_value}:
        errors.append(ErrorInfo.from_node(node))
"""
LOAD = ["--load", "probe_c08"]


def write_plugin(d: Path) -> None:
    for rel, src in PLUGIN.items():
        p = d / rel
        p.parent.mkdir(exist_ok=True)
        p.write_text(src)


class Unit:
    """A few physical lines; `needles` = (offset, variable name) pairs checked against ast line numbers."""

    def __init__(self, lines: list[str], needles: list[tuple[int, str]] = (), tag: str = "") -> None:
        self.lines, self.needles, self.tag = lines, list(needles), tag


def diag_units(i: int, rng, sep: str | None) -> list[Unit]:
    v = f"v{i}"
    us = [
        Unit([f"{v} = int({i})"], [(0, v)], "int"),
        Unit([f"{v} = list()"], [(0, v)], "list"),
        Unit(['print("")'], [], "print"),
        Unit([f"{v} = int(0); w{i} = dict()"], [(0, v)], "two-codes"),
        Unit([f"{v} = int(1) + int(2)"], [(0, v)], "same-code-twice"),
        Unit([f"{v} = {i} in [1, 2]"], [(0, v)], "in-list"),
        Unit(["if True:", f"\t{v} = int(", "\t\t3", "\t)"], [(1, v)], "tabs-multiline"),
        Unit([f"{v} = \\", "    int(4)"], [(0, v)], "continuation-before"),
        Unit([f"{v} = int(7) + \\", "  1"], [(0, v)], "continuation-after"),
        Unit([f'{v} = f"""', "{int(5)}", '"""'], [(0, v)], "in-fstring"),
        Unit([f"{v} = bool(True)  # comment"], [(0, v)], "has-comment"),
        Unit([f"é{i} = int(6)"], [(0, f"é{i}")], "non-ascii-name"),
        Unit([f'{v} = "日本語", tuple()'], [(0, v)], "non-ascii-string"),
        Unit([f'{v} = "# noqa", int(8)'], [(0, v)], "noqa-in-string"),
        Unit([f"{v} = '# noqa: FURB123', int(8), list()"], [(0, v)], "noqa-list-in-string"),
        Unit([f"{v} = '# noqa: FURB123 FURB112 ', int(8), list()"], [(0, v)], "noqa-list-in-string-blank"),
        Unit([f'{v} = int(8), "x  # noqa"'], [(0, v)], "noqa-at-string-end"),
        Unit([f"def f{i}(a: int = int(9)) -> list:", "    return list()", ""], [], "def"),
        Unit([f"{v} = 4242"], [(0, v)], "custom-prefix"),
        Unit([f"{v} = int(4244)"], [(0, v)], "custom-prefix-same-number"),
        Unit([f"{v} = 4242, list()"], [(0, v)], "custom-prefix-and-builtin"),
        # many multi-byte characters BEFORE the diagnosed node (its column counted in bytes lies far right of its character position)
        Unit([f'{v} = {{"ключ-значение-и-ещё-длиннее": int(8)}}'], [(0, v)], "non-ascii-before-node"),
        Unit([f'{v} = "日本語の長い文字列、日本語の長い文字列", list()'], [(0, v)], "cjk-before-node"),
        Unit([f'{v} = "😀😀😀😀😀😀😀😀", int(8), tuple()'], [(0, v)], "astral-before-nodes"),
        # an ODD number of one quote character in front of the comment (an apostrophe inside a double-quoted literal, a lone double
        # quote inside single quotes, an apostrophe in an earlier comment)
        Unit([f'{v} = str("it\'s"), int(8)'], [(0, v)], "odd-apostrophe-in-string"),
        Unit([f"{v} = int(8), 'say \"hi'"], [(0, v)], "odd-double-quote-in-string"),
        Unit([f"{v} = int(8), list()  # don't touch"], [(0, v)], "apostrophe-in-earlier-comment"),
        Unit([f"{v} = 4247"], [(0, v)], "custom-prefix-short-id"),
        Unit([f"{v} = 4249, int(4247)"], [(0, v)], "custom-prefix-short-ids-and-builtin"),
        # multi-line diagnosed nodes: the diagnostic sits on the first line, the node ends lines later
        Unit([f"def w{i}(lines: list[str]) -> None:", '    with open("file", "w") as f:', "        for line in lines:", "            f.write(line)", ""], [], "for-writelines"),
        Unit([f"def r{i}(p: str) -> str:", "    with open(p) as fh:", "        data = fh.read()", "    return data", ""], [], "with-read"),
        Unit([f"def q{i}(p: str, s: str) -> None:", '    with open(p, "w") as fh:', "        fh.write(s)", ""], [], "with-write"),
        Unit([f"def t{i}() -> None:", "    try:", '        print("x")', "    except ValueError:", "        pass", ""], [], "try-pass"),
        Unit([f"def c{i}(ys: list[int]) -> list[int]:", "    xs = []", "    for y in ys:", "        xs.append(y)", "    return xs", ""], [], "for-append"),
        Unit([f"def e{i}(xs: list[int]) -> None:", "    xs.append(1)", "    xs.append(2)", ""], [], "append-twice"),
        Unit([f"{v} = (", "    int(1)", "    + int(2)", ")"], [(0, v)], "paren-expr"),
        Unit(["print(", '    ""', ")"], [], "multiline-call"),
        Unit([f"{v} = 3 in [", "    1,", "    2,", "]"], [(0, v)], "multiline-in-list"),
        Unit([f"{v} = {i}", f"if {v} == 1 or {v} == 2:", f"    {v} = 3", "else:", f"    {v} = 4"], [(0, v)], "if-or"),
        Unit([f"{v} = [", "    x", "    for x in (1, 2)", "    if x == 1 or x == 2", "]"], [(0, v)], "comprehension-multiline"),
        Unit([f"{v} = int(", f"    {i}", ") + int(", "    2", ")"], [(0, v)], "two-calls-chained"),
        Unit([f"{v} =\x0cint({i})"], [(0, v)], "formfeed-between-tokens"),
        Unit([f"\x0c{v} = int({i})"], [(0, v)], "formfeed-at-line-start"),
        Unit([f"{v} = int({i})\x0c"], [(0, v)], "formfeed-at-line-end"),
    ]
    if sep is not None:
        us += [
            Unit([f'{v} = int({i}), "a{sep}b"'], [(0, v)], "sep-in-string-on-line"),
            Unit([f'{v} = "a{sep}b", int({i}), list()'], [(0, v)], "sep-in-string-before-call"),
            Unit([f"{v} = int({i})  # a{sep}b"], [(0, v)], "sep-in-comment-on-line"),
        ]
    return us


def neutral_units(i: int, sep: str | None) -> list[Unit]:
    us = [Unit([f"n{i} = {i}"], [(0, f"n{i}")], "plain"), Unit([""], [], "blank"), Unit(["# just a comment"], [], "comment"), Unit([f"n{i} = 'it''s'  # noqa"], [(0, f"n{i}")], "clean-noqa")]
    if sep is not None:
        us += [Unit([f"# c{sep}c"], [], "sep-in-comment"), Unit([f'n{i} = "a{sep}b"'], [(0, f"n{i}")], "sep-in-string"), Unit([f'n{i} = """a', f'{sep}', '"""'], [(0, f"n{i}")], "sep-in-multiline-string")]
        if sep == "\x0c":
            us += [Unit(["\x0c"], [], "formfeed-line"), Unit(["\x0c" * 2], [], "formfeed-line2")]
    return us


class GenFile:
    def __init__(self, name: str, lines: list[str], terms: list[str], bom: bool, needles: list[tuple[int, str]], features: dict[str, Any]) -> None:
        self.name, self.lines, self.terms, self.bom, self.needles, self.features = name, lines, terms, bom, needles, features

    def raw(self, comments: dict[int, str] | None = None) -> str:
        comments = comments or {}
        return ("\ufeff" if self.bom else "") + "".join(l + comments.get(n + 1, "") + t for n, (l, t) in enumerate(zip(self.lines, self.terms)))


def gen_file(rng, idx: int) -> GenFile:
    sep_name = [None, *EXOTIC][idx % 9] if idx % 3 else rng.choice([None, *EXOTIC])
    if idx < 9:
        sep_name = [None, *EXOTIC][idx]
    sep = EXOTIC[sep_name] if sep_name else None
    placement = rng.choice(["before", "between", "after", "on", "mixed"]) if sep else "none"
    term_style = rng.choice(["lf", "lf", "crlf", "cr", "mixed"])
    bom = rng.random() < 0.25
    n_units = rng.randint(5, 11)
    units: list[Unit] = []
    counter = idx * 100
    n_diag = 0
    for k in range(n_units):
        counter += 1
        if rng.random() < 0.6 or (k >= n_units - 3 and n_diag < 3):
            pool = diag_units(counter, rng, sep if placement in ("on", "mixed") else None)
            units.append(rng.choice(pool))
            n_diag += 1
        else:
            units.append(rng.choice(neutral_units(counter, None)))
    if sep:
        carriers = lambda: rng.choice(neutral_units(10_000 + rng.randint(0, 9999) + idx * 10_000, sep)[4:])  # noqa: E731
        diag_pos = [k for k, u in enumerate(units) if u.tag not in ("plain", "blank", "comment", "clean-noqa")]
        first, last = (diag_pos[0], diag_pos[-1]) if diag_pos else (0, 0)
        if placement in ("before", "mixed"):
            units.insert(rng.randint(0, first), carriers())
        elif placement == "between":
            units.insert(rng.randint(first + 1, max(first + 1, last)), carriers())
        elif placement == "after":
            units.insert(rng.randint(last + 1, len(units)), carriers())
    lines: list[str] = []
    needles: list[tuple[int, str]] = []
    for u in units:
        needles += [(len(lines) + off + 1, name) for off, name in u.needles]
        lines += u.lines
    terms = []
    for k, line in enumerate(lines):
        terms.append({"lf": "\n", "crlf": "\r\n", "cr": "\r"}.get(term_style) or rng.choice(["\n", "\r\n", "\r"]))
        if line == "" and k and terms[k - 1] == "\r" and terms[k].startswith("\n"):
            terms[k] = "\r"  # "\r" + "" + "\n" would read as one CRLF
    if rng.random() < 0.2 and lines[-1] != "":
        terms[-1] = ""
    feats = {"sep": sep_name, "placement": placement, "terms": term_style, "bom": bom, "units": [u.tag for u in units]}
    return GenFile(f"g{idx:03d}.py", lines, terms, bom, needles, feats)


def fixed_files() -> list[GenFile]:
    out = []

    def mk(name: str, lines: list[str], terms: list[str] | None = None, bom: bool = False) -> None:
        out.append(GenFile(name, lines, terms or ["\n"] * len(lines), bom, [], {"fixed": name, "sep": None}))

    mk("a_ff.py", ["x = int(0)", "\x0c", "y = int(1)", "z = int(2)"])
    for nm, ch in EXOTIC.items():
        mk(f"a_str_{nm.lower()}.py", [f's = "a{ch}b"', "y = int(1)", "z = list()"])
    mk("a_crlf_bom.py", ["x = int(0)", "y = int(1); w = list()", "z = int(2)"], ["\r\n"] * 3, bom=True)
    mk("a_cr.py", ["x = int(0)", "y = int(1)", "z = int(2)"], ["\r", "\r", ""])
    mk("a_nonascii.py", ['x = {"ключ-значение-и-ещё-длиннее": int(0)}', 'y = "日本語の長い文字列、日本語の長い文字列", list()', 'z = "😀😀😀😀😀😀😀😀", int(8), tuple()'])
    mk("a_quotes.py", ['x = str("it\'s"), int(0)', "y = int(1), 'say \"hi'", "z = int(2)  # don't"])
    mk("a_prefix.py", ["x = int(4244)", "y = 4242, list()", "z = 4242", "s = 4247", "t = 4249, 4247"])
    mk("a_strings.py", ['v1 = "# noqa", int(8)', "v2 = '# noqa: FURB123 FURB112 ', int(8), list()", 'v3 = int(8), "x  # noqa"', "v4 = int(8), '# noqa: '"])
    mk(
        "a_multiline.py",
        ["def t() -> None:", "    try:", '        print("x")', "    except ValueError:", "        pass", "v = (", "    int(1)", "    + int(2)", ")", "print(", '    ""', ")", "w = 3 in [", "    1,", "    2,", "]"],
    )
    mk("a_body.py", ["def r(p: str) -> str:", "    with open(p) as fh:", "        data = fh.read()", "    return data", "def e(xs: list[int]) -> None:", "    xs.append(1)", "    xs.append(2)", "x = int(0)"])
    mk("a_existing.py", ["x = int(0)  # noqa: FURB999", "y = int(1)  # type: ignore[misc]  # why", "z = int(2)"])
    return out


COMMENT_GAPS = ["  ", "  ", " ", "\t", ""]
COMMENT_TRAILS = ["", "", "", " ", "\t ", "\xa0"]
FOREIGN = ["FURB999", "FURB100", "XYZ999", "XYZ124", "ABCD123", "FURB12", "FURB1234", "furb123", "123", "E501", "XYZ007", "XYZ042", "XYZ70", "XYZ4", "XYZ"]


def choose_comment(rng, codes_on_line: list[str]) -> tuple[str, Any, str]:
    """-> (text appended to the line, 'bare' | list of codes, label)"""
    kind = rng.choice(["bare", "bare", "match-all", "match-one", "nonmatch", "mixed", "mixed", "partial"])
    gap, trail = rng.choice(COMMENT_GAPS), rng.choice(COMMENT_TRAILS)
    if kind == "bare":
        return f"{gap}# noqa{trail}", "bare", kind
    distinct = sorted(set(codes_on_line)) or ["FURB123"]
    if kind == "match-all":
        lst = list(distinct)
    elif kind == "match-one":
        lst = [rng.choice(distinct)]
    elif kind == "nonmatch":
        lst = rng.sample(FOREIGN, rng.randint(1, 3))
    elif kind == "mixed":
        lst = rng.sample(FOREIGN, rng.randint(1, 2)) + [rng.choice(distinct)]
        rng.shuffle(lst)
    else:
        c = rng.choice(distinct)
        lst = [c[:-1], c + "0", c.lower(), c[4:]]
    sep = rng.choice([",", " ", ", "])
    return f"{gap}# noqa: {sep.join(lst)}{trail}", lst, f"{kind}/{ {',': 'comma', ' ': 'space', ', ': 'comma-space'}[sep] }"


def tok_list(text: str) -> list[tuple[int, str, int]] | None:
    try:
        return [(t.type, t.string, t.start[0]) for t in tokenize.generate_tokens(io.StringIO(text).readline)]
    except (tokenize.TokenError, SyntaxError, IndentationError):
        return None


def universal(raw: str) -> str:
    return raw.replace("\r\n", "\n").replace("\r", "\n").removeprefix("\ufeff")


def comment_allowed(gf: GenFile, line_no: int, comment: str, base_tokens: list[tuple[int, str, int]]) -> bool:
    """Appending `comment` to physical line `line_no` changes nothing for the tokenizer except that one COMMENT
    token appears on that line (or the line's existing trailing comment grows by exactly the appended text)."""
    after = tok_list(universal(gf.raw({line_no: comment})))
    if after is None:
        return False
    body = comment.strip(" \t\xa0")
    new = [k for k, t in enumerate(after) if t[0] == tokenize.COMMENT and t[2] == line_no and t[1].rstrip(" \t\xa0").endswith(body)]
    if len(new) != 1:
        return False
    k = new[0]
    without = after[:k] + after[k + 1 :]
    if without == base_tokens:
        return True
    old = [t for t in base_tokens if t[0] == tokenize.COMMENT and t[2] == line_no]
    if len(old) == 1 and after[k][1].startswith(old[0][1]):
        return after[:k] + [old[0]] + after[k + 1 :] == base_tokens
    return False


def string_twin(gf: GenFile) -> GenFile | None:
    """The same program with `# noqa` spelt `# nqoa` inside single-line string literals (never in comments)."""
    toks = None
    try:
        toks = list(tokenize.generate_tokens(io.StringIO(universal(gf.raw())).readline))
    except (tokenize.TokenError, SyntaxError, IndentationError):
        return None
    lines = list(gf.lines)
    changed = False
    for t in toks:
        if t.type == tokenize.STRING and t.start[0] == t.end[0] and "# noqa" in t.string:
            row = t.start[0] - 1
            if lines[row][t.start[1] : t.end[1]] != t.string:
                return None
            lines[row] = lines[row][: t.start[1]] + t.string.replace("# noqa", "# nqoa") + lines[row][t.end[1] :]
            changed = True
    return GenFile(gf.name, lines, gf.terms, gf.bom, gf.needles, gf.features) if changed else None


def line_roles(gf: GenFile, diag_lines: set[int]) -> dict[int, str]:
    """Role of every non-diagnosed physical line relative to the diagnosed nodes: the last line of a node that
    starts on a diagnosed line, a line inside such a node (body of a statement / middle of an expression), a
    direct neighbour of a diagnosed line, or elsewhere."""
    roles: dict[int, str] = {}
    try:
        tree = ast.parse(universal(gf.raw()))
    except SyntaxError:
        return roles
    rank = {"end-line": 0, "body-line": 1, "middle-line": 1, "neighbour": 2}
    def put(ln: int, role: str) -> None:
        if ln not in diag_lines and 1 <= ln <= len(gf.lines) and rank[role] < rank.get(roles.get(ln, ""), 9):
            roles[ln] = role
    for node in ast.walk(tree):
        lo, hi = getattr(node, "lineno", None), getattr(node, "end_lineno", None)
        if lo in diag_lines and hi is not None and hi > lo:
            put(hi, "end-line")
            for ln in range(lo + 1, hi):
                put(ln, "body-line" if isinstance(node, ast.stmt) and hasattr(node, "body") else "middle-line")
    for ln in diag_lines:
        put(ln - 1, "neighbour")
        put(ln + 1, "neighbour")
    return roles


def run_dir(d: Path, names: list[str]) -> tuple[int, list[dict[str, Any]], list[str], str]:
    write_plugin(d)
    rc, out, err = core.refurb_cli([*names, "--quiet", *LOAD], cwd=d)
    diags, other = core.parse_plain(out)
    return rc, diags, other, err


def canon(diags: list[dict[str, Any]]) -> list[tuple]:
    return [(x["file"], x["line"], x["col"], x["prefix"] + str(x["code"]), x["msg"]) for x in diags]


def oracle(ctx, d: Path) -> None:
    res = ctx.res
    rng = ctx.rng("oracle")
    n_gen = 60 if ctx.quick else 400
    n_var = 10 if ctx.quick else 24
    files = fixed_files() + [gen_file(rng, i) for i in range(n_gen)]

    # ---- the generated files are valid Python and the model's physical lines are CPython's lines
    phys_reqs = []
    for gf in files:
        raw = gf.raw()
        text = universal(raw)
        try:
            tree = ast.parse(text)
        except SyntaxError as e:  # generator bug, not refurb's problem
            raise RuntimeError(f"generated file {gf.name} is not valid Python: {e}; {raw!r}") from e
        by_name = {}
        for node in ast.walk(tree):
            if isinstance(node, ast.Assign) and isinstance(node.targets[0], ast.Name):
                by_name.setdefault(node.targets[0].id, node.lineno)
        for line_no, name in gf.needles:
            if by_name.get(name) != line_no:
                raise RuntimeError(f"generator: {name} expected on line {line_no}, CPython says {by_name.get(name)} in {raw!r}")
        phys_reqs.append({"verb": "splitlines", "s": raw})
    if ctx.driver.available():
        for gf, a in zip(files, ctx.driver.batch(phys_reqs)):
            want = list(gf.lines)
            if gf.bom:
                want[0] = "\ufeff" + want[0]
            res.case(("phys", gf.name, gf.raw()))
            res.bump("corr_phys_vs_cpython")
            if a["phys"] != cps(want):
                res.disagree("physLines vs CPython line numbering", {"raw": gf.raw()}, a["phys"], want)

    # ---- base run
    base_dir = d / "base"
    base_dir.mkdir()
    for gf in files:
        (base_dir / gf.name).write_bytes(gf.raw().encode("utf8"))
    names = [gf.name for gf in files]
    rc, base_diags, other, err = run_dir(base_dir, names)
    if err.strip() or other or rc not in (0, 1):
        res.violate(
            "refurb fails on a valid generated program (before any comment is added)",
            {"kind": "crash", "stage": "base"},
            {"files": {gf.name: gf.raw() for gf in files}, "argv": [*names, "--quiet", *LOAD], "rc": rc, "stderr": err[-800:], "other_lines": other[:5]},
        )
        return
    base = canon(base_diags)
    by_file: dict[str, list[tuple]] = {}
    for t in base:
        by_file.setdefault(t[0], []).append(t)

    # ---- variants
    variants: list[dict[str, Any]] = []
    tokens = {gf.name: tok_list(universal(gf.raw())) for gf in files}
    roles = {gf.name: line_roles(gf, {t[1] for t in by_file.get(gf.name, [])}) for gf in files}
    for v in range(n_var):
        plan: dict[str, dict[int, tuple[str, Any, str]]] = {}
        for gf in files:
            diag_lines = {t[1] for t in by_file.get(gf.name, [])}
            chosen: dict[int, tuple[str, Any, str]] = {}
            p = rng.choice([0.2, 0.5, 0.8, 1.0]) if v else 1.0
            file_codes = [t[3] for t in by_file.get(gf.name, [])]
            if v in (1, 2):
                p = 0.0  # only lines that carry no diagnostic: the report must not change at all
            q_near, q_far = (1.0, 1.0) if v in (1, 2) else (0.0, 0.0) if v == 0 else (rng.choice([0.0, 0.3, 0.7]), 0.1)
            for ln in range(1, len(gf.lines) + 1):
                if ln in diag_lines:
                    if rng.random() >= p:
                        continue
                    codes = [t[3] for t in by_file[gf.name] if t[1] == ln]
                    cm = ("  # noqa", "bare", "bare") if v == 0 else choose_comment(rng, codes)
                else:
                    role = roles[gf.name].get(ln, "elsewhere")
                    if rng.random() >= (q_far if role == "elsewhere" else q_near):
                        continue
                    if v == 1:
                        cm = ("  # noqa", "bare", "bare")
                    elif v == 2:
                        cm = ("  # noqa: " + ", ".join(sorted(set(file_codes)) or ["FURB123"]), sorted(set(file_codes)) or ["FURB123"], "match-all/comma-space")
                    else:
                        cm = choose_comment(rng, file_codes)
                    cm = (cm[0], cm[1], cm[2] + "@" + role)
                if tokens[gf.name] is None or not comment_allowed(gf, ln, cm[0], tokens[gf.name]):
                    res.bump("oracle_line_skipped_comment_not_allowed")
                    continue
                chosen[ln] = cm
            plan[gf.name] = chosen
        variants.append(plan)

    twins = {gf.name: tw for gf in files if (tw := string_twin(gf)) is not None}

    def one(k: int):
        vd = d / f"var{k}"
        vd.mkdir()
        if k == n_var:  # the string-literal twins
            for gf in files:
                (vd / gf.name).write_bytes(twins.get(gf.name, gf).raw().encode("utf8"))
            return run_dir(vd, names)
        for gf in files:
            (vd / gf.name).write_bytes(gf.raw({ln: cm[0] for ln, cm in variants[k][gf.name].items()}).encode("utf8"))
        return run_dir(vd, names)

    with ThreadPoolExecutor(12) as ex:
        outs = list(ex.map(one, range(n_var + 1)))
    twin_out = outs.pop()

    how = (
        "write the file (exact bytes, UTF-8) and the probe plugin (harness/props/c08.py:PLUGIN, two XYZ-prefixed checks) into an empty directory and run "
        "`python -m refurb <argv>` there, once with bytes_before and once with bytes_after; or: bin/check C08 --replay <this file>"
    )
    gfs = {gf.name: gf for gf in files}
    try:  # does the tree's get_source_lines split at anything but \n / \r? (only then can a separator shift the lookup)
        splits_exotic = bool(set(extract_c08.probe()[0]) - {10, 13})
    except Exception:  # noqa: BLE001
        splits_exotic = True
    model_reqs: list[dict[str, Any]] = []
    model_want: list[tuple[str, int, list[tuple]]] = []
    for k, (rc, diags, other, err) in enumerate(outs):
        plan = variants[k]
        if err.strip() or other or rc not in (0, 1):
            res.violate(
                "refurb fails after `# noqa` comments were appended to a valid program",
                {"kind": "crash", "stage": "annotated"},
                {"argv": [*names, "--quiet", *LOAD], "rc": rc, "stderr": err[-800:], "other_lines": other[:5], "how": how, "files": {n: gfs[n].raw({ln: cm[0] for ln, cm in plan[n].items()}) for n in names}},
            )
            continue
        got = canon(diags)
        got_by_file: dict[str, list[tuple]] = {}
        for t in got:
            got_by_file.setdefault(t[0], []).append(t)
        for gf in files:
            chosen = plan[gf.name]
            before = by_file.get(gf.name, [])
            want = [t for t in before if not (t[1] in chosen and predicted_ignore(chosen[t[1]][1], t[3]))]
            have = got_by_file.get(gf.name, [])
            for ln, cm in chosen.items():
                res.case(("oracle", gf.raw(), ln, cm[0]), nontrivial=True)
                res.bump("oracle_comment_" + cm[2].split("@")[0])
                if "@" in cm[2]:
                    res.bump("oracle_nondiag_" + cm[2].split("@")[1])
                else:
                    res.bump("oracle_diag_line_annotated")
            res.bump("oracle_file_variants")
            # the model, given the old report and the annotated file, must predict the new report
            model_reqs.append({"verb": "noqa_report", "by": "filename", "files": [[gf.name, universal(gf.raw({ln: cm[0] for ln, cm in chosen.items()}))]],
                               "items": [{"k": "diag", "file": t[0], "line": t[1], "col": t[2] - 1, "prefix": t[3].rstrip("0123456789"), "code": int(t[3][len(t[3].rstrip("0123456789")):]), "msg": "m"} for t in before]})
            model_want.append((gf.name, k, [(t[1], t[2], t[3]) for t in have]))
            if gf.features.get("sep"):
                res.bump(f"oracle_sep_{gf.features['sep']}_{gf.features['placement']}")
            if have == want:
                continue
            raw_before, raw_after = gf.raw(), gf.raw({ln: cm[0] for ln, cm in chosen.items()})
            missing = [t for t in want if t not in have]  # should have been reported, was suppressed
            extra = [t for t in have if t not in want]  # should have been suppressed (or is new), still reported
            # why: does str.splitlines() see other lines than Python does, at or before an affected line?
            text_after = universal(raw_after) if not gf.bom else "\ufeff" + universal(raw_after)
            sl, ph = text_after.splitlines(), ref_phys_lines(text_after)
            affected = sorted({t[1] for t in missing + extra})
            shifted = splits_exotic and any(ln > len(sl) or ln > len(ph) or sl[ln - 1] != ph[ln - 1] for ln in affected)
            # the recorded finding, narrowly: the line ALREADY ended in a comment that reads as a complete noqa comment from its first
            # `# noqa` on (`# noqa: FURB999`), so that the appended one becomes part of that comment's code list.  `# noqa` text inside a
            # string literal, or an earlier comment that is no valid noqa comment (`# noqa-ish`, `# noqa: isn't`), is NOT that case:
            # the regex search goes on to the appended comment there
            def _shadowed(ln: int) -> bool:
                old_line = gf.lines[ln - 1].rstrip()
                i = old_line.find("# noqa")
                return ln in chosen and i != -1 and re.compile(r"""# noqa(: [^'"]*)?$""").match(old_line, i) is not None

            existing = any(_shadowed(ln) for ln in affected)
            if shifted:
                sig = {"kind": "line-identity", "cause": "splitlines-only-separator"}
                what = "`# noqa` is looked up on a different line than the one Python reports: str.splitlines() splits at a character the tokenizer does not treat as a line end"
            elif existing and extra and not missing:
                sig = {"kind": "appended-comment-shadowed", "cause": "earlier-noqa-on-line"}
                what = "a `# noqa` appended to a line that already carries a `# noqa: OTHER` comment (or the text `# noqa` followed by quote-free text) does not suppress: re.search stops at the first `# noqa`"
            else:
                first = affected[0] if affected else 0
                sig = {
                    "kind": "report-differs",
                    "effect": "order-changed" if sorted(have) == sorted(want) else "not-suppressed" if extra and not missing else "wrongly-suppressed" if missing and not extra else "both",
                    "comment": chosen[first][2].split("@")[0].split("/")[0] + ("@non-diagnosed-line" if "@" in chosen[first][2] else "") if first in chosen else "none-on-that-line",
                }
                what = "report after appending `# noqa` comments is not the old report minus exactly the named diagnostics"
                if first not in chosen:
                    # a diagnostic changed although its own line got no comment: which annotated line is to blame?
                    rel = line_roles(gf, {first})
                    blamed = sorted((ln for ln in chosen if ln in rel), key=lambda ln: {"end-line": 0, "body-line": 1, "middle-line": 1, "neighbour": 2}[rel[ln]])
                    sig["other_line"] = rel[blamed[0]] if blamed else "elsewhere"
                    what = (
                        f"a `# noqa` on a line that carries no diagnostic ({sig['other_line']} of the node diagnosed at line {first}) changes the report: "
                        "the comment is looked up on another line than the one the diagnostic is reported at"
                    )
            res.violate(
                what,
                sig,
                {
                    "file": gf.name, "bytes_before": raw_before, "bytes_after": raw_after, "argv": [gf.name, "--quiet", *LOAD],
                    "appended": {str(ln): cm[0] for ln, cm in chosen.items()}, "report_before": before, "required_after": want, "observed_after": have,
                    "wrongly_suppressed": missing, "not_suppressed": extra, "how": how, "features": gf.features,
                    "_size": len(raw_after),
                },
            )
    if ctx.driver.available() and model_reqs:
        for rq, (name, k, want_m), a in zip(model_reqs, model_want, ctx.driver.batch(model_reqs)):
            res.bump("corr_model_vs_cli_report")
            got_m = [(it["line"], it["col"] + 1, it["prefix"] + str(it["code"])) for it in a.get("items", [])] if isinstance(a, dict) and "items" in a else a
            if got_m != want_m:
                res.disagree("model report vs CLI report after annotation", {"file": name, "variant": k, "text": rq["files"][0][1]}, got_m, want_m)
    # ---- second relation: text inside a string literal is not a comment
    rc, diags, other, err = twin_out
    if err.strip() or other or rc not in (0, 1):
        res.violate("refurb fails on a valid generated program", {"kind": "crash", "stage": "twin"}, {"rc": rc, "stderr": err[-800:], "files": {n: t.raw() for n, t in twins.items()}})
    else:
        got_by_file = {}
        for t in canon(diags):
            got_by_file.setdefault(t[0], []).append(t)
        for name, tw in twins.items():
            res.case(("twin", tw.raw()))
            res.bump("oracle_string_twins")
            before, have = by_file.get(name, []), got_by_file.get(name, [])
            if before != have:
                res.violate(
                    "`# noqa` inside a string literal (closed on the same line) changes which diagnostics are reported: the report differs from that of the same program with the text spelt `# nqoa`",
                    {"kind": "string-literal-treated-as-comment"},
                    {"file": name, "bytes_before": gfs[name].raw(), "bytes_after": tw.raw(), "argv": [name, "--quiet", *LOAD], "report_before": before, "required_after": before, "observed_after": have, "how": how, "_size": len(tw.raw())},
                )
    # smallest replay first for each signature (core.finish keeps the first per signature)
    res.violations.sort(key=lambda v: (v.replay.get("file") != "a_ff.py", v.replay.get("_size", 0)))
    res.sample({"file": files[0].name, "bytes": files[0].raw(), "base_report": by_file.get(files[0].name), "variant0": {str(k): v[0] for k, v in variants[0][files[0].name].items()}})
    g = files[len(fixed_files())]
    res.sample({"file": g.name, "bytes": g.raw(), "features": g.features, "variant1": {str(k): v[0] for k, v in variants[1][g.name].items()}})
    res.bump("oracle_cli_runs", n_var + 1)
    res.bump("oracle_files", len(files))
    res.bump("oracle_base_diagnostics", len(base))


HISTORY_WORKER = """
import json, sys
from refurb.main import run_refurb
from refurb.settings import load_settings
out = []
for text in json.load(open(sys.argv[1])):
    open("h.py", "w").write(text)
    errs = run_refurb(load_settings(["h.py", "--quiet"]))
    out.append(sorted([e.line, e.column, f"{e.prefix}{e.code}"] if not isinstance(e, str) else [0, 0, e] for e in errs))
json.dump(out, open(sys.argv[2], "w"))
"""


def history_oracle(ctx, d: Path) -> None:
    """The comment law across several runs IN ONE PROCESS on the same path, the file edited in between (an editor plugin, a
    watcher): each run must see the comments the file has NOW — whatever a run remembers about lines must not outlive it."""
    import subprocess
    from concurrent.futures import ThreadPoolExecutor

    res = ctx.res
    rng = ctx.rng("c08-history")
    base = ["x = int(0)", "y = list()", "z = str('')", "w = 1", "v = bool(True)"]
    tags = ["", "  # noqa", "  # noqa: FURB123", "  # noqa: FURB112", "  # noqa: FURB999", "  # noqa: FURB123, FURB112"]
    # every line first without, then with, then without a comment, then the comment moving from even to odd lines; then random edits
    versions = ["\n".join(base) + "\n", "\n".join(l + "  # noqa" for l in base) + "\n", "\n".join(base) + "\n",
                "\n".join(l + ("  # noqa: FURB123" if i % 2 == 0 else "") for i, l in enumerate(base)) + "\n",
                "\n".join(l + ("  # noqa: FURB123" if i % 2 == 1 else "") for i, l in enumerate(base)) + "\n"]
    for _ in range(5 if ctx.quick else 60):
        versions.append("\n".join(l + rng.choice(tags) for l in base) + "\n")
    (d / "pyproject.toml").write_text("")
    (d / "_plan.json").write_text(json.dumps(versions))
    (d / "_worker.py").write_text(HISTORY_WORKER)
    p = subprocess.run([core.PY, "_worker.py", "_plan.json", "_out.json"], cwd=d, capture_output=True, text=True, timeout=1200, env=core.py_env())
    if p.returncode != 0:
        res.notes.append(f"history worker failed: {p.stderr[-300:]}")
        return
    got = json.loads((d / "_out.json").read_text())

    def fresh_run(iv):
        i, text = iv
        sub = d / f"fresh{i}"
        sub.mkdir()
        (sub / "pyproject.toml").write_text("")
        (sub / "h.py").write_text(text)
        rc, out, err = core.refurb_cli(["h.py", "--quiet"], cwd=sub)
        return sorted([x["line"], x["col"] - 1, f"{x['prefix']}{x['code']}"] for x in core.parse_plain(out)[0])

    with ThreadPoolExecutor(12) as ex:
        fresh_all = list(ex.map(fresh_run, enumerate(versions)))
    for i, (g, fresh) in enumerate(zip(got, fresh_all)):
        res.case(("history", i), nontrivial=i > 0)
        res.bump("history_runs")
        if g != fresh:
            res.violate(
                f"run {i + 1} of {len(versions)} in one process on the same (edited) file reports {len(g)} diagnostics, a fresh process {len(fresh)}: the comments of an earlier version are still applied",
                {"kind": "history-stale-comments", "step": "later-run" if i else "first-run"},
                {"versions_of_h.py": versions[: i + 1], "in_process_report": g, "fresh_process_report": fresh,
                 "how": "in ONE python process: for each version write h.py, then refurb.main.run_refurb(refurb.settings.load_settings(['h.py', '--quiet'])); compare the last report with `python -m refurb h.py --quiet` on the last version"},
            )
            return


def run(ctx) -> None:
    res = ctx.res
    res.rule = (
        "correspondence: (1) texts over {a b space # é \\x1f \\xa0, \\n \\r \\r\\n, the 8 splitlines-only separators} of length 0-14 plus hand-picked ones, "
        "non-trivial = contains a separator; (2) lines = code head x gap x 39 comment forms (bare, lists with comma/space/both, wrong spacing, quotes after, "
        "second comment, other prefixes, near-miss codes) x 14 trailing texts + free soups around the tag, x 6 error codes, non-trivial = contains `# noqa`; "
        "(3) files of such lines with every terminator + diagnostics at lines incl. 0, negative, out of range (IndexError), non-trivial = has a diagnostic. "
        "oracle: fixed files + generated files (5-11 units from 22 diagnosed-unit kinds and neutral units; separator carried in a comment, a string, a "
        "multi-line string or a bare \\f line placed before/between/after/on the diagnosed lines; LF/CRLF/CR/mixed; BOM; tabs; non-ASCII; multi-line diagnosed "
        "nodes: for/writelines, with-open read/write, try/except/pass, for/append, append twice, if/else, parenthesised expressions, multi-line calls, "
        "displays and comprehensions) x variants (0: every diagnosed line bare; 1: every NON-diagnosed line bare; 2: every non-diagnosed line with a list of "
        "all codes of the file; 3+: random subsets of diagnosed lines and of non-diagnosed lines by role — end line / body line / middle line of a node that "
        "starts on a diagnosed line, neighbour, elsewhere — where tokenize accepts a comment; bare / match-all / match-one / non-matching / mixed / near-miss "
        "lists; comma, space, comma+space; gaps and trailing blanks); one case = (file bytes, line, appended text)"
    )
    try:
        seps, trailing = extract_c08.probe()
        exotic = sorted(set(seps) - {10, 13})
        res.notes.append(
            f"working tree: get_source_lines ends lines at code points {seps}, trailing empty line: {trailing} -> "
            + ("str.splitlines semantics: the unguarded law is refuted (filter_exact_refuted), the guarded one proved (filter_exact_partial)" if exotic else "newline-only semantics: the law is proved for all file contents (current_newlines_only)")
        )
    except Exception as e:  # noqa: BLE001  (already reported as an extraction error by bin/check)
        res.notes.append(f"get_source_lines probe failed: {e}")
    with core.scratch("rv-c08-") as d:
        correspondence(ctx, d)
        oracle(ctx, d)
    with core.scratch("rv-c08h-") as d:
        history_oracle(ctx, d)
    res.assumptions += [
        "appending a comment does not change which diagnostics the checks produce (same tokens, hence same tree): checked end to end by the oracle itself, not proved",
        "the physical line of a diagnostic is the one mypy/CPython report (C07); the model's physLines is compared with ast line numbers on every oracle file",
        "files are UTF-8; a file with another encoding cookie or undecodable bytes makes read_text('utf8') raise (C03's subject, not exercised here)",
        "a comment is 'lexically allowed' iff tokenize shows exactly one new COMMENT token (or the line's trailing comment extended) and no other token change",
    ]
    res.not_proved += [
        "that refurb's checks and mypy are insensitive to appended comments (oracle only)",
        "is_ignored_via_amend is a parameter of the model (C09/C12)",
    ]
    res.trusted_extra += [
        "Model/Noqa.lean is hand-written; tied to refurb.main.{get_source_lines,is_ignored_via_comment,should_ignore_error} by the in-process correspondence of this run",
        "Python's str.isspace()/str.splitlines() character sets are transcribed in the model (compared with the running interpreter on generated texts)",
    ]


def replay(path) -> int:
    data = json.loads(Path(path).read_text())
    rp = data.get("replay", {})
    print(json.dumps({k: data[k] for k in ("property", "what", "signature") if k in data}, indent=1))
    if "bytes_after" not in rp:
        print(json.dumps(rp, indent=1)[:4000])
        return 0
    with core.scratch("rv-c08r-") as d:
        out = {}
        for tag in ("before", "after"):
            sub = d / tag
            sub.mkdir()
            write_plugin(sub)
            (sub / rp["file"]).write_bytes(rp["bytes_" + tag].encode("utf8"))
            rc, so, se = core.refurb_cli(rp["argv"], cwd=sub)
            out[tag] = canon(core.parse_plain(so)[0])
            print(f"--- {tag}: {rp['bytes_' + tag]!r}\n{so}{se}")
        required = [tuple(t) for t in rp["required_after"]]
        print("required after:", required)
        ok = out["after"] == required
        print("reproduced" if not ok else "NOT reproduced (report is as required)")
        return 1 if not ok else 0
