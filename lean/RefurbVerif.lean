-- Root of the `RefurbVerif` library: every property file.
import RefurbVerif.Props.C17
