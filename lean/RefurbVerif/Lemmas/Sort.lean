import RefurbVerif.Model.Sort
/-! Lemmas about stable insertion sort: membership, sortedness, commutation with `filter`,
    permutation. Core Lean only. -/
namespace RefurbVerif

variable {α : Type} (le : α → α → Bool)

theorem mem_ins (a x : α) (l : List α) : x ∈ ins le a l ↔ x = a ∨ x ∈ l := by
  induction l with
  | nil => simp [ins]
  | cons b l ih =>
    by_cases h : le a b
    · simp [ins, h]
    · simp only [ins, h, Bool.false_eq_true, ↓reduceIte, List.mem_cons, ih]
      constructor <;> (intro h'; rcases h' with h' | h' | h' <;> simp [h'])

theorem mem_ssort (x : α) (l : List α) : x ∈ ssort le l ↔ x ∈ l := by
  induction l with
  | nil => simp [ssort]
  | cons a l ih =>
    show x ∈ ins le a (ssort le l) ↔ _
    rw [mem_ins, ih]; simp

theorem ins_perm (a : α) (l : List α) : (ins le a l).Perm (a :: l) := by
  induction l with
  | nil => exact List.Perm.refl _
  | cons b l ih =>
    by_cases h : le a b
    · simp [ins, h]
    · simp only [ins, h, Bool.false_eq_true, ↓reduceIte]
      exact (List.Perm.cons b ih).trans (List.Perm.swap a b l)

theorem ssort_perm (l : List α) : (ssort le l).Perm l := by
  induction l with
  | nil => exact List.Perm.refl _
  | cons a l ih => exact (ins_perm le a _).trans (List.Perm.cons a ih)

theorem length_ssort (l : List α) : (ssort le l).length = l.length := (ssort_perm le l).length_eq

section
variable (total : ∀ a b, le a b = true ∨ le b a = true)
variable (trans : ∀ a b c, le a b = true → le b c = true → le a c = true)

include total trans in
theorem sorted_ins (a : α) (l : List α) (h : Sorted le l) : Sorted le (ins le a l) := by
  induction l with
  | nil => simp [ins, Sorted]
  | cons b l ih =>
    by_cases hab : le a b
    · simp only [ins, hab, ↓reduceIte, Sorted]
      refine ⟨?_, h⟩
      intro x hx
      rcases List.mem_cons.mp hx with rfl | hx
      · exact hab
      · exact trans _ _ _ hab (h.1 x hx)
    · simp only [ins, hab, Bool.false_eq_true, ↓reduceIte, Sorted]
      refine ⟨?_, ih h.2⟩
      intro x hx
      rcases (mem_ins le a x l).mp hx with rfl | hx
      · rcases total x b with h1 | h1
        · simp [h1] at hab
        · exact h1
      · exact h.1 x hx

include total trans in
theorem sorted_ssort (l : List α) : Sorted le (ssort le l) := by
  induction l with
  | nil => trivial
  | cons b l ih => exact sorted_ins le total trans b _ ih

include trans in
theorem filter_ins (p : α → Bool) (a : α) (l : List α) (h : Sorted le l) :
    (ins le a l).filter p = if p a then ins le a (l.filter p) else l.filter p := by
  induction l with
  | nil => by_cases hp : p a <;> simp [ins, hp]
  | cons b l ih =>
    by_cases hab : le a b
    · have front : ∀ l', (∀ x ∈ l', le a x = true) → ins le a l' = a :: l' := by
        intro l' hl'
        cases l' with
        | nil => rfl
        | cons c l'' => simp [ins, hl' c (List.mem_cons_self)]
      have hall : ∀ x ∈ (b :: l).filter p, le a x = true := by
        intro x hx
        have hx' := (List.mem_filter.mp hx).1
        rcases List.mem_cons.mp hx' with rfl | hx'
        · exact hab
        · exact trans _ _ _ hab (h.1 x hx')
      by_cases hp : p a
      · simp only [ins, hab, ↓reduceIte, hp]
        rw [front _ hall]
        simp [List.filter, hp]
      · simp [ins, hab, hp, List.filter]
    · by_cases hb : p b
      · by_cases hp : p a <;> simp [ins, hab, hb, hp, ih h.2]
      · by_cases hp : p a <;> simp [ins, hab, hb, hp, ih h.2]

include total trans in
/-- **filtering commutes with stable sorting** (C08 noqa filter, C10 selection, C13 formats) -/
theorem filter_ssort (p : α → Bool) (l : List α) :
    (ssort le l).filter p = ssort le (l.filter p) := by
  induction l with
  | nil => rfl
  | cons a l ih =>
    have hs : Sorted le (ssort le l) := sorted_ssort le total trans l
    show (ins le a (ssort le l)).filter p = _
    rw [filter_ins le trans p a _ hs, ih]
    by_cases hp : p a <;> simp [ssort, hp]

end

/-- key equivalence: neither sorts before the other -/
def eqv (a b : α) : Bool := le a b && le b a

theorem ins_head (a : α) (l : List α) (h : ∀ b ∈ l, le a b = true) : ins le a l = a :: l := by
  cases l with
  | nil => rfl
  | cons b l => simp [ins, h b (by simp)]

/-- sorting a list whose elements are pairwise key-equivalent changes nothing (stability) -/
theorem ssort_of_all_le (l : List α) (h : ∀ a ∈ l, ∀ b ∈ l, le a b = true) : ssort le l = l := by
  induction l with
  | nil => rfl
  | cons a l ih =>
    show ins le a (ssort le l) = a :: l
    rw [ih (fun x hx y hy => h x (List.mem_cons_of_mem _ hx) y (List.mem_cons_of_mem _ hy))]
    exact ins_head le a l (fun b hb => h a (by simp) b (List.mem_cons_of_mem _ hb))

section
variable (total : ∀ a b, le a b = true ∨ le b a = true)
variable (trans : ∀ a b c, le a b = true → le b c = true → le a c = true)

include total trans in
/-- the members of one key class keep their input order through the sort -/
theorem filter_class_ssort (a : α) (l : List α) :
    (ssort le l).filter (eqv le a) = l.filter (eqv le a) := by
  rw [filter_ssort le total trans]
  apply ssort_of_all_le
  intro x hx y hy
  have hx' := (List.mem_filter.mp hx).2
  have hy' := (List.mem_filter.mp hy).2
  simp only [eqv, Bool.and_eq_true] at hx' hy'
  exact trans x a y hx'.2 hy'.1

include total in
/-- two sorted lists with the same elements and the same order inside every key class are equal -/
theorem sorted_eq_of_classes : ∀ (s₁ s₂ : List α), Sorted le s₁ → Sorted le s₂ → s₁.Perm s₂ →
    (∀ a, s₁.filter (eqv le a) = s₂.filter (eqv le a)) → s₁ = s₂ := by
  intro s₁
  induction s₁ with
  | nil => intro s₂ _ _ hp _; exact List.Perm.nil_eq hp
  | cons h₁ t₁ ih =>
    intro s₂ hs₁ hs₂ hp hc
    cases s₂ with
    | nil => exact absurd hp.symm (by simp)
    | cons h₂ t₂ =>
      have hrefl : ∀ x : α, le x x = true := fun x => (total x x).elim id id
      have h12 : le h₁ h₂ = true := by
        have : h₂ ∈ h₁ :: t₁ := hp.symm.subset (by simp)
        rcases List.mem_cons.mp this with h | h
        · rw [h]; exact hrefl _
        · exact hs₁.1 _ h
      have h21 : le h₂ h₁ = true := by
        have : h₁ ∈ h₂ :: t₂ := hp.subset (by simp)
        rcases List.mem_cons.mp this with h | h
        · rw [h]; exact hrefl _
        · exact hs₂.1 _ h
      have hh := hc h₁
      simp only [List.filter_cons, eqv, hrefl, h12, h21, Bool.and_self, ↓reduceIte] at hh
      have heq : h₁ = h₂ := (List.cons.inj hh).1
      subst heq
      congr 1
      apply ih t₂ hs₁.2 hs₂.2 (List.Perm.cons_inv hp)
      intro a
      have := hc a
      simp only [List.filter_cons] at this
      by_cases ha : eqv le a h₁ = true
      · simp only [ha, ↓reduceIte] at this; exact (List.cons.inj this).2
      · simp only [ha, Bool.false_eq_true, ↓reduceIte] at this; exact this

include total trans in
/-- **Stable sort is a function of the elements and of the order inside each key class.** -/
theorem ssort_congr (l₁ l₂ : List α) (hp : l₁.Perm l₂)
    (hc : ∀ a, l₁.filter (eqv le a) = l₂.filter (eqv le a)) : ssort le l₁ = ssort le l₂ := by
  apply sorted_eq_of_classes le total
  · exact sorted_ssort le total trans l₁
  · exact sorted_ssort le total trans l₂
  · exact (ssort_perm le l₁).trans (hp.trans (ssort_perm le l₂).symm)
  · intro a
    rw [filter_class_ssort le total trans, filter_class_ssort le total trans, hc a]
end

/-- permuting the blocks of a `flatMap` does not matter when, for every two different blocks, one is empty -/
theorem flatMap_perm_sparse {β : Type} (g : β → List α) {l₁ l₂ : List β} (hp : l₁.Perm l₂)
    (h : ∀ x ∈ l₁, ∀ y ∈ l₁, x ≠ y → g x = [] ∨ g y = []) : l₁.flatMap g = l₂.flatMap g := by
  induction hp with
  | nil => rfl
  | cons x _ ih =>
    simp only [List.flatMap_cons]
    rw [ih (fun a ha b hb => h a (List.mem_cons_of_mem _ ha) b (List.mem_cons_of_mem _ hb))]
  | swap x y l =>
    simp only [List.flatMap_cons]
    by_cases hxy : x = y
    · subst hxy; rfl
    · rcases h y (by simp) x (by simp) (fun e => hxy e.symm) with h' | h' <;> simp [h']
  | trans p₁ _ ih₁ ih₂ =>
    rw [ih₁ h, ih₂ (fun a ha b hb => h a (p₁.symm.subset ha) b (p₁.symm.subset hb))]

end RefurbVerif
