/-
Helper lemmas for C19 (`refurb gen`): Python's string order is a total preorder, splitting at a
separator, the tokenizer on concatenations, the tokens of every line of the template, what each line
reads as, `build_imports` grouping invariants.  The property theorems are in Props/C19.lean.
-/
import RefurbVerif.Model.Gen
import RefurbVerif.Lemmas.Sort
namespace RefurbVerif.C19
open RefurbVerif RefurbVerif.Gen

/-! ### Python's string order -/

theorem char_lt_trichotomy (a b : Char) : a < b ∨ a = b ∨ b < a := by
  rcases Nat.lt_trichotomy a.toNat b.toNat with h | h | h
  · exact Or.inl (by simpa [Char.lt_def, UInt32.lt_iff_toNat_lt] using h)
  · exact Or.inr (Or.inl (Char.toNat_inj.mp h))
  · exact Or.inr (Or.inr (by simpa [Char.lt_def, UInt32.lt_iff_toNat_lt] using h))

theorem leChars_total (a b : List Char) : leChars a b = true ∨ leChars b a = true := by
  induction a generalizing b with
  | nil => simp [leChars]
  | cons x xs ih =>
    cases b with
    | nil => simp [leChars]
    | cons y ys =>
      rcases char_lt_trichotomy x y with h | h | h
      · simp [leChars, h]
      · subst h; simpa [leChars, Char.lt_irrefl] using ih ys
      · right; simp [leChars, h]

theorem leChars_trans (a b c : List Char) (h1 : leChars a b = true) (h2 : leChars b c = true) : leChars a c = true := by
  induction a generalizing b c with
  | nil => simp [leChars]
  | cons x xs ih =>
    cases b with
    | nil => simp [leChars] at h1
    | cons y ys =>
      cases c with
      | nil => simp [leChars] at h2
      | cons z zs =>
        simp only [leChars] at h1 h2 ⊢
        rcases char_lt_trichotomy x y with hxy | hxy | hxy
        · rcases char_lt_trichotomy y z with hyz | hyz | hyz
          · simp [Char.lt_trans hxy hyz]
          · subst hyz; simp [hxy]
          · simp [hyz, Char.lt_asymm hyz] at h2
        · subst hxy
          rcases char_lt_trichotomy x z with hyz | hyz | hyz
          · simp [hyz]
          · subst hyz
            simp only [Char.lt_irrefl, if_false] at h1 h2 ⊢
            exact ih _ _ h1 h2
          · simp [hyz, Char.lt_asymm hyz] at h2
        · simp [hxy, Char.lt_asymm hxy] at h1

/-! ### splitting -/
section Split
variable {α : Type} [DecidableEq α]

theorem splitOn_ne_nil (x : α) (l : List α) : splitOn x l ≠ [] := by
  induction l with
  | nil => simp [splitOn]
  | cons a as ih =>
    unfold splitOn
    split
    · simp
    · split <;> simp

theorem splitOn_append_sep (x : α) (l r : List α) (h : x ∉ l) :
    splitOn x (l ++ x :: r) = l :: splitOn x r := by
  induction l with
  | nil =>
    simp only [List.nil_append]
    conv => lhs; unfold splitOn
    split
    · rename_i h'; exact absurd h' (splitOn_ne_nil x r)
    · rename_i p ps h'; simp [h']
  | cons a as ih =>
    have ha : a ≠ x := fun e => h (by simp [e])
    have has : x ∉ as := fun e => h (by simp [e])
    simp only [List.cons_append]
    conv => lhs; unfold splitOn
    rw [ih has]
    simp [ha]

theorem splitOn_not_mem (x : α) (l : List α) (h : x ∉ l) : splitOn x l = [l] := by
  induction l with
  | nil => simp [splitOn]
  | cons a as ih =>
    have ha : a ≠ x := fun e => h (by simp [e])
    have has : x ∉ as := fun e => h (by simp [e])
    unfold splitOn
    rw [ih has]
    simp [ha]
end Split

theorem splitOn_unlines (ls : List Str) (h : ∀ l ∈ ls, '\n' ∉ l) :
    splitOn '\n' (unlines ls) = ls ++ [[]] := by
  induction ls with
  | nil => simp [unlines, splitOn]
  | cons l ls ih =>
    have : unlines (l :: ls) = l ++ '\n' :: unlines ls := by simp [unlines]
    rw [this, splitOn_append_sep _ _ _ (h l (by simp)), ih (fun l' hl' => h l' (by simp [hl']))]
    simp

/-! ### tokens -/

def IsWord (w : Str) : Prop := w ≠ [] ∧ ∀ c ∈ w, isWordChar c = true

instance (w : Str) : Decidable (IsWord w) := by unfold IsWord; infer_instance

theorem tokens_space (r : Str) : tokens (' ' :: r) = tokens r := by
  simp [tokens, isWordChar]

theorem tokens_punct (p : Char) (r : Str) (h1 : isWordChar p = false) (h2 : p ≠ ' ') :
    tokens (p :: r) = .punct p :: tokens r := by
  simp [tokens, h1, h2]

theorem tokens_word (w rest : Str) (hw : IsWord w) (hr : startsWord rest = false) :
    tokens (w ++ rest) = .word w :: tokens rest := by
  obtain ⟨hne, hall⟩ := hw
  induction w with
  | nil => exact absurd rfl hne
  | cons c w ih =>
    have hc : isWordChar c = true := hall c (by simp)
    cases w with
    | nil =>
      simp only [List.cons_append, List.nil_append]
      conv => lhs; unfold tokens
      simp only [hc, if_true]
      split
      · rename_i w' ts h'; simp [hr, h']
      · rfl
    | cons d w' =>
      have ih' := ih (by simp) (fun x hx => hall x (by simp [hx]))
      have hd : isWordChar d = true := hall d (by simp)
      simp only [List.cons_append] at ih' ⊢
      conv => lhs; unfold tokens
      simp only [hc, if_true, ih']
      simp [startsWord, hd]


/-- tokens of `sep.join(n ++ suf for n in ns)` -/
def itemsToks (sufT sepT : List Tok) : List Str → List Tok
  | [] => []
  | [n] => .word n :: sufT
  | n :: ns => .word n :: sufT ++ sepT ++ itemsToks sufT sepT ns

theorem tokens_items (suf sep : Str) (sufT sepT : List Tok) (rest : Str)
    (hsuf : ∀ r, tokens (suf ++ r) = sufT ++ tokens r)
    (hsep : ∀ r, tokens (sep ++ r) = sepT ++ tokens r)
    (hs1 : ∀ r, startsWord (suf ++ sep ++ r) = false)
    (hs2 : startsWord (suf ++ rest) = false)
    (ns : List Str) (h : ∀ n ∈ ns, IsWord n) :
    tokens (joinStr sep (ns.map (· ++ suf)) ++ rest) = itemsToks sufT sepT ns ++ tokens rest := by
  induction ns with
  | nil => simp [joinStr, itemsToks]
  | cons n ns ih =>
    have hn := h n (by simp)
    cases ns with
    | nil =>
      simp only [List.map_cons, List.map_nil, joinStr, itemsToks, List.append_assoc]
      rw [tokens_word n _ hn hs2, hsuf]; simp
    | cons m ms =>
      have ih' := ih (fun x hx => h x (by simp [hx]))
      simp only [List.map_cons, joinStr, itemsToks, List.append_assoc] at ih' ⊢
      rw [tokens_word n _ hn (by simpa using hs1 _), hsuf, hsep, ih']
      simp

abbrev sepToks (p : Char) := itemsToks [] [.punct p]
abbrev patToks := itemsToks [.punct '(', .punct ')'] [.punct '|']

theorem map_append_nil (ns : List Str) : ns.map (· ++ ([] : Str)) = ns := by simp

theorem tokens_commas (ns : List Str) (h : ∀ n ∈ ns, IsWord n) :
    tokens (joinStr ", ".toList ns) = sepToks ',' ns := by
  have := tokens_items [] ", ".toList [] [.punct ','] [] (by simp) (by intro r; rfl) (by intro r; rfl) (by rfl) ns h
  simpa [tokens] using this

theorem tokens_union (ns : List Str) (rest : Str) (hr : startsWord rest = false) (h : ∀ n ∈ ns, IsWord n) :
    tokens (joinStr " | ".toList ns ++ rest) = sepToks '|' ns ++ tokens rest := by
  have := tokens_items [] " | ".toList [] [.punct '|'] rest (by simp) (by intro r; rfl) (by intro r; rfl) (by simpa using hr) ns h
  simpa using this

theorem tokens_pattern (ns : List Str) (rest : Str) (h : ∀ n ∈ ns, IsWord n) :
    tokens (joinStr " | ".toList (ns.map (· ++ "()".toList)) ++ rest) = patToks ns ++ tokens rest :=
  tokens_items "()".toList " | ".toList _ _ rest (by intro r; rfl) (by intro r; rfl) (by intro r; rfl) (by rfl) ns h

theorem parseSep_sepToks (p : Char) (ns : List Str) (hne : ns ≠ []) : parseSep p (sepToks p ns) = some ns := by
  induction ns with
  | nil => exact absurd rfl hne
  | cons n ns ih =>
    cases ns with
    | nil => simp [itemsToks, parseSep]
    | cons m ms =>
      have := ih (by simp)
      simp only [itemsToks, List.nil_append, List.cons_append] at this ⊢
      simp [parseSep, this]

theorem parsePattern_patToks (ns : List Str) (hne : ns ≠ []) : parsePattern (patToks ns) = some ns := by
  induction ns with
  | nil => exact absurd rfl hne
  | cons n ns ih =>
    cases ns with
    | nil => simp [itemsToks, parsePattern]
    | cons m ms =>
      have := ih (by simp)
      simp only [itemsToks, List.nil_append, List.cons_append] at this ⊢
      simp [parsePattern, this]


theorem tokens_kw (kw r : Str) (h : IsWord kw) : tokens (kw ++ ' ' :: r) = .word kw :: tokens r := by
  rw [tokens_word kw _ h (by rfl), tokens_space]

theorem tokens_spaces4 (r : Str) : tokens (' ' :: ' ' :: ' ' :: ' ' :: r) = tokens r := by
  simp [tokens_space]

theorem isWord_natChars (n : Nat) : IsWord (natChars n) := by
  refine ⟨Nat.toDigits_ne_nil, fun c hc => ?_⟩
  have := Nat.isDigit_of_mem_toDigits (b := 10) (by decide) (by decide) hc
  simp only [isWordChar, Char.isAlphanum, Bool.or_eq_true]
  exact Or.inl (Or.inl (Or.inr this))

theorem keyword_importLine (m : Str) (ns : List Str) (hm : IsWord m) (hns : ∀ n ∈ ns, IsWord n) :
    keyword (importLine (m, ns)) = some ("from".toList, .word m :: wd "import" :: sepToks ',' ns) := by
  have e : importLine (m, ns) = "from".toList ++ ' ' :: (m ++ ' ' :: ("import".toList ++ ' ' :: joinStr ", ".toList ns)) := by
    unfold importLine; simp
  rw [keyword, e, tokens_kw _ _ (by decide), tokens_kw _ _ hm, tokens_kw _ _ (by decide), tokens_commas ns hns]
  rfl

theorem keyword_prefixLine (p : Str) (hp : IsWord p) :
    keyword (prefixLine p) = some ("prefix".toList, [.punct '=', .punct '"', .word p, .punct '"']) := by
  have e : prefixLine p = ' ' :: ' ' :: ' ' :: ' ' :: ("prefix".toList ++ ' ' :: '=' :: ' ' :: '"' :: (p ++ ['"'])) := by
    rfl
  rw [keyword, e, tokens_spaces4, tokens_kw _ _ (by decide), tokens_punct _ _ (by decide) (by decide), tokens_space,
    tokens_punct _ _ (by decide) (by decide), tokens_word p _ hp (by rfl)]
  rfl

theorem keyword_codeLine (i : Nat) :
    keyword (codeLine i) = some ("code".toList, [.punct '=', .word (natChars i)]) := by
  have e : codeLine i = ' ' :: ' ' :: ' ' :: ' ' :: ("code".toList ++ ' ' :: '=' :: ' ' :: (natChars i ++ [])) := by
    unfold codeLine; simp
  rw [keyword, e, tokens_spaces4, tokens_kw _ _ (by decide), tokens_punct _ _ (by decide) (by decide), tokens_space,
    tokens_word _ _ (isWord_natChars i) (by rfl)]
  rfl

/-- tokens of `, errors: list[Error]) -> None:` -/
def defTail : List Tok :=
  [.punct ',', wd "errors", .punct ':', wd "list", .punct '[', wd "Error", .punct ']', .punct ')', .punct '-', .punct '>',
   wd "None", .punct ':']

theorem keyword_defLine (sel : List Str) (h : ∀ n ∈ sel, IsWord n) :
    keyword (defLine sel) = some ("def".toList,
      wd "check" :: .punct '(' :: wd "node" :: .punct ':' :: (sepToks '|' sel ++ defTail)) := by
  have e : defLine sel = "def".toList ++ ' ' :: ("check".toList ++ '(' :: ("node".toList ++ ':' :: ' ' ::
      (joinStr " | ".toList sel ++ ", errors: list[Error]) -> None:".toList))) := by
    rfl
  rw [keyword, e, tokens_kw _ _ (by decide), tokens_word _ _ (by decide) (by rfl), tokens_punct _ _ (by decide) (by decide),
    tokens_word _ _ (by decide) (by rfl), tokens_punct _ _ (by decide) (by decide), tokens_space,
    tokens_union sel _ (by rfl) h]
  rfl

theorem keyword_caseLine (sel : List Str) (h : ∀ n ∈ sel, IsWord n) :
    keyword (caseLine sel) = some ("case".toList, patToks sel ++ [.punct ':']) := by
  have e : caseLine sel = ' ' :: ' ' :: ' ' :: ' ' :: ' ' :: ' ' :: ' ' :: ' ' :: ("case".toList ++ ' ' ::
      (joinStr " | ".toList (sel.map (· ++ "()".toList)) ++ [':'])) := by
    rfl
  rw [keyword, e, tokens_spaces4, tokens_spaces4, tokens_kw _ _ (by decide), tokens_pattern sel _ h]
  rfl


/-! ### `build_imports`: grouping -/

/-- the `(module, name)` pairs a list of groups imports, in order -/
def pairsOf (gs : List (Str × List Str)) : List (Str × Str) := gs.flatMap (fun g => g.2.map (fun n => (g.1, n)))

theorem pairsOf_addTo (m n : Str) (acc : List (Str × List Str)) :
    (pairsOf (addTo m n acc)).Perm (pairsOf acc ++ [(m, n)]) := by
  induction acc with
  | nil => simp [addTo, pairsOf]
  | cons g rest ih =>
    obtain ⟨k, ns⟩ := g
    unfold addTo
    split
    · rename_i hk
      subst hk
      simp only [pairsOf, List.flatMap_cons, List.map_append, List.map_cons, List.map_nil, List.append_assoc]
      exact List.Perm.append_left _ List.perm_append_comm
    · simp only [pairsOf, List.flatMap_cons, List.append_assoc] at ih ⊢
      exact List.Perm.append_left _ ih

theorem pairsOf_foldl (modOf : Str → Str) (rest : List Str) (acc : List (Str × List Str)) :
    (pairsOf (rest.foldl (fun acc n => addTo (modOf n) n acc) acc)).Perm
      (pairsOf acc ++ rest.map (fun n => (modOf n, n))) := by
  induction rest generalizing acc with
  | nil => simp
  | cons n rest ih =>
    simp only [List.foldl_cons, List.map_cons]
    refine (ih _).trans ?_
    have := (pairsOf_addTo (modOf n) n acc).append_right (rest.map (fun n => (modOf n, n)))
    simpa using this

theorem pairsOf_groupByModule (modOf : Str → Str) (sel : List Str) :
    (pairsOf (groupByModule modOf sel)).Perm (sel.map (fun n => (modOf n, n))) := by
  simpa [groupByModule, pairsOf] using pairsOf_foldl modOf sel []

theorem pairsOf_sortedGroups (modOf : Str → Str) (sel : List Str) :
    (pairsOf (sortedGroups modOf sel)).Perm (sel.map (fun n => (modOf n, n))) :=
  ((ssort_perm _ _).flatMap_right _).trans (pairsOf_groupByModule modOf sel)

/-- every group is non-empty and holds selected names defined in the group's module -/
def GroupsOk (modOf : Str → Str) (S : List Str) (acc : List (Str × List Str)) : Prop :=
  ∀ g ∈ acc, g.2 ≠ [] ∧ ∀ n ∈ g.2, n ∈ S ∧ modOf n = g.1

theorem groupsOk_addTo (modOf : Str → Str) (S : List Str) (n : Str) (hn : n ∈ S) (acc : List (Str × List Str))
    (h : GroupsOk modOf S acc) : GroupsOk modOf S (addTo (modOf n) n acc) := by
  induction acc with
  | nil =>
    intro g hg
    simp only [addTo, List.mem_singleton] at hg
    subst hg
    simp [hn]
  | cons g rest ih =>
    obtain ⟨k, ns⟩ := g
    have hrest : GroupsOk modOf S rest := fun g hg => h g (List.mem_cons_of_mem _ hg)
    have hhead := h (k, ns) (by simp)
    unfold addTo
    split
    · rename_i hk
      intro g hg
      rcases List.mem_cons.mp hg with rfl | hg
      · refine ⟨by simp, fun x hx => ?_⟩
        rcases List.mem_append.mp hx with hx | hx
        · exact hhead.2 x hx
        · simp only [List.mem_singleton] at hx; subst hx; exact ⟨hn, hk.symm⟩
      · exact hrest g hg
    · intro g hg
      rcases List.mem_cons.mp hg with rfl | hg
      · exact hhead
      · exact ih hrest g hg

theorem groupsOk_foldl (modOf : Str → Str) (S rest : List Str) (hr : ∀ n ∈ rest, n ∈ S) (acc : List (Str × List Str))
    (h : GroupsOk modOf S acc) : GroupsOk modOf S (rest.foldl (fun acc n => addTo (modOf n) n acc) acc) := by
  induction rest generalizing acc with
  | nil => exact h
  | cons n rest ih =>
    exact ih (fun x hx => hr x (by simp [hx])) _ (groupsOk_addTo modOf S n (hr n (by simp)) acc h)

theorem groupsOk_sortedGroups (modOf : Str → Str) (sel : List Str) : GroupsOk modOf sel (sortedGroups modOf sel) := by
  intro g hg
  have hg' : g ∈ groupByModule modOf sel := (mem_ssort _ g _).mp hg
  exact groupsOk_foldl modOf sel sel (fun _ h => h) [] (fun _ h => by simp at h) g hg'

def keys (acc : List (Str × List Str)) : List Str := acc.map (·.1)

theorem keys_addTo (m n : Str) (acc : List (Str × List Str)) :
    keys (addTo m n acc) = if m ∈ keys acc then keys acc else keys acc ++ [m] := by
  induction acc with
  | nil => simp [addTo, keys]
  | cons g rest ih =>
    obtain ⟨k, ns⟩ := g
    unfold addTo
    split
    · rename_i hk; simp [keys, hk]
    · rename_i hk
      simp only [keys, List.map_cons, List.mem_cons] at ih ⊢
      rw [ih]
      have : ¬ m = k := fun e => hk e.symm
      simp only [this, false_or]
      split <;> simp_all

theorem keys_nodup_foldl (modOf : Str → Str) (rest : List Str) (acc : List (Str × List Str)) (h : (keys acc).Nodup) :
    (keys (rest.foldl (fun acc n => addTo (modOf n) n acc) acc)).Nodup := by
  induction rest generalizing acc with
  | nil => exact h
  | cons n rest ih =>
    apply ih
    rw [keys_addTo]
    split
    · exact h
    · rename_i hm
      exact List.nodup_append.mpr ⟨h, by simp, by intro a ha b hb; simp at hb; subst hb; intro e; subst e; exact hm ha⟩

/-- **One import line per module**, modules in ascending order. -/
theorem sortedGroups_keys (modOf : Str → Str) (sel : List Str) :
    (keys (sortedGroups modOf sel)).Nodup ∧ Sorted (fun a b => leChars a.1 b.1) (sortedGroups modOf sel) := by
  refine ⟨?_, sorted_ssort _ (fun a b => leChars_total a.1 b.1) (fun a b c => leChars_trans a.1 b.1 c.1) _⟩
  have h := keys_nodup_foldl modOf sel [] (by simp [keys])
  exact ((ssort_perm _ _).map _).nodup_iff.mpr h


/-! ### Reading a rendered file -/

theorem readLines_append (a b : List Str) : readLines (a ++ b) = (readLines a).append (readLines b) := by
  simp [readLines, Reading.append, List.findSome?_append]

theorem readLines_cons (l : Str) (b : List Str) : readLines (l :: b) = (readLines [l]).append (readLines b) :=
  readLines_append [l] b

theorem empty_append (r : Reading) : Reading.empty.append r = r := by
  cases r; simp [Reading.empty, Reading.append]

theorem readLines_blank : readLines [[]] = Reading.empty := by decide +kernel
theorem readLines_nil : readLines [] = Reading.empty := by decide +kernel

theorem readLines_head : readLines headLines =
    { Reading.empty with imports := [("dataclasses".toList, "dataclass".toList)] } := by decide +kernel

theorem readLines_class : readLines classLines =
    { Reading.empty with imports := [("refurb.error".toList, "Error".toList)],
                         classes := [("ErrorInfo".toList, "Error".toList)] } := by decide +kernel

theorem readLines_msg : readLines msgLines = Reading.empty := by decide +kernel
theorem readLines_tail : readLines [appendLine, []] = Reading.empty := by decide +kernel
theorem readLines_match : readLines [matchLine] = Reading.empty := by decide +kernel

theorem importsOfToks_line (m : Str) (ns : List Str) :
    importsOfToks (.word m :: wd "import" :: sepToks ',' ns) = ns.map (fun n => (m, n)) := by
  cases ns with
  | nil => simp [importsOfToks, wd, itemsToks, parseSep]
  | cons n ns => simp [importsOfToks, wd, parseSep_sepToks ',' (n :: ns) (by simp)]

theorem readLines_importLine (m : Str) (ns : List Str) (hm : IsWord m) (hns : ∀ n ∈ ns, IsWord n) :
    readLines [importLine (m, ns)] = { Reading.empty with imports := ns.map (fun n => (m, n)) } := by
  have hk := keyword_importLine m ns hm hns
  simp [readLines, importsOfLine, classOfLine, prefixOfLine, codeOfLine, paramsOfLine, patternOfLine, hk,
    importsOfToks_line, Reading.empty]


theorem readLines_prefixLine (p : Str) (hp : IsWord p) :
    readLines [prefixLine p] = { Reading.empty with pfx := some p } := by
  simp [readLines, importsOfLine, classOfLine, prefixOfLine, codeOfLine, paramsOfLine, patternOfLine,
    keyword_prefixLine p hp, prefixOfToks, Reading.empty]

theorem readLines_codeLine (i : Nat) :
    readLines [codeLine i] = { Reading.empty with code := some (natChars i) } := by
  simp [readLines, importsOfLine, classOfLine, prefixOfLine, codeOfLine, paramsOfLine, patternOfLine,
    keyword_codeLine i, codeOfToks, Reading.empty]

theorem mem_itemsToks_sep (p : Char) (ns : List Str) : ∀ t ∈ sepToks p ns, t = .punct p ∨ ∃ n, t = .word n := by
  induction ns with
  | nil => simp [itemsToks]
  | cons n ns ih =>
    cases ns with
    | nil => simp [itemsToks]
    | cons m ms =>
      intro t ht
      simp only [itemsToks, List.nil_append, List.cons_append, List.mem_cons] at ht ih
      rcases ht with rfl | rfl | ht
      · exact Or.inr ⟨n, rfl⟩
      · exact Or.inl rfl
      · exact ih t ht

/-- the parameters read off `def check(node: A | B, errors: list[Error]) -> None:` -/
theorem paramsOfToks_def (sel : List Str) :
    paramsOfToks (wd "check" :: .punct '(' :: wd "node" :: .punct ':' :: (sepToks '|' sel ++ defTail))
      = some [("node".toList, sepToks '|' sel), ("errors".toList, errorAnn)] := by
  have hnot : ∀ t ∈ sepToks '|' sel, t ≠ .punct ')' ∧ t ≠ .punct ',' := by
    intro t ht
    rcases mem_itemsToks_sep '|' sel t ht with rfl | ⟨n, rfl⟩
    · exact ⟨by decide, by decide⟩
    · exact ⟨by simp, by simp⟩
  have htw : (wd "node" :: Tok.punct ':' :: (sepToks '|' sel ++ defTail)).takeWhile (fun t => decide (t ≠ Tok.punct ')'))
      = (wd "node" :: Tok.punct ':' :: sepToks '|' sel) ++ [.punct ',', wd "errors", .punct ':', wd "list", .punct '[', wd "Error", .punct ']'] := by
    have h1 : ∀ t ∈ (wd "node" :: Tok.punct ':' :: sepToks '|' sel), (fun t => decide (t ≠ Tok.punct ')')) t = true := by
      intro t ht
      simp only [List.mem_cons] at ht
      rcases ht with rfl | rfl | ht
      · decide
      · decide
      · simpa using (hnot t ht).1
    have : (wd "node" :: Tok.punct ':' :: (sepToks '|' sel ++ defTail))
        = (wd "node" :: Tok.punct ':' :: sepToks '|' sel) ++ defTail := by simp
    rw [this, List.takeWhile_append_of_pos h1]
    congr 1
  have hsplit : splitOn (Tok.punct ',') ((wd "node" :: Tok.punct ':' :: sepToks '|' sel) ++
        [.punct ',', wd "errors", .punct ':', wd "list", .punct '[', wd "Error", .punct ']'])
      = [wd "node" :: Tok.punct ':' :: sepToks '|' sel, [wd "errors", .punct ':', wd "list", .punct '[', wd "Error", .punct ']']] := by
    rw [splitOn_append_sep]
    · rw [splitOn_not_mem]; decide
    · intro hm
      simp only [List.mem_cons] at hm
      rcases hm with h | h | h
      · revert h; decide
      · revert h; decide
      · exact (hnot _ h).2 rfl
  simp only [paramsOfToks, wd] at htw hsplit ⊢
  simp only [if_true, htw, hsplit]
  simp [paramOf, errorAnn, wd]

theorem readLines_defLine (sel : List Str) (h : ∀ n ∈ sel, IsWord n) :
    readLines [defLine sel] =
      { Reading.empty with params := some [("node".toList, sepToks '|' sel), ("errors".toList, errorAnn)] } := by
  have hp := paramsOfToks_def sel
  simp [readLines, importsOfLine, classOfLine, prefixOfLine, codeOfLine, paramsOfLine, patternOfLine,
    keyword_defLine sel h, hp, Reading.empty]

theorem patternOfToks_case (sel : List Str) (hne : sel ≠ []) :
    patternOfToks (patToks sel ++ [.punct ':']) = some sel := by
  simp [patternOfToks, parsePattern_patToks sel hne]

theorem readLines_caseLine (sel : List Str) (h : ∀ n ∈ sel, IsWord n) (hne : sel ≠ []) :
    readLines [caseLine sel] = { Reading.empty with pattern := some sel } := by
  have hp := patternOfToks_case sel hne
  simp [readLines, importsOfLine, classOfLine, prefixOfLine, codeOfLine, paramsOfLine, patternOfLine,
    keyword_caseLine sel h, hp, Reading.empty]

theorem readLines_groups (gs : List (Str × List Str)) (h : ∀ g ∈ gs, IsWord g.1 ∧ ∀ n ∈ g.2, IsWord n) :
    readLines (gs.map importLine) = { Reading.empty with imports := pairsOf gs } := by
  induction gs with
  | nil => simp [readLines_nil, pairsOf, Reading.empty]
  | cons g gs ih =>
    obtain ⟨m, ns⟩ := g
    have hg := h (m, ns) (by simp)
    rw [List.map_cons, readLines_cons, readLines_importLine m ns hg.1 hg.2, ih (fun g hg => h g (by simp [hg]))]
    simp [Reading.append, Reading.empty, pairsOf]

theorem readLines_importLines (modOf : Str → Str) (sel : List Str)
    (hn : ∀ n ∈ sel, IsWord n) (hm : ∀ n ∈ sel, IsWord (modOf n)) :
    readLines (importLines modOf sel) = { Reading.empty with imports := pairsOf (sortedGroups modOf sel) } := by
  have hok := groupsOk_sortedGroups modOf sel
  have hw : ∀ g ∈ sortedGroups modOf sel, IsWord g.1 ∧ ∀ n ∈ g.2, IsWord n := by
    intro g hg
    obtain ⟨hne, hall⟩ := hok g hg
    refine ⟨?_, fun n hn' => hn n (hall n hn').1⟩
    obtain ⟨n, ns, e⟩ := List.exists_cons_of_ne_nil hne
    have := hall n (by simp [e])
    rw [← this.2]; exact hm n this.1
  unfold importLines
  split
  · rename_i e; simp [e, readLines_blank, pairsOf, Reading.empty]
  · exact readLines_groups _ hw


/-! ### No line of the file contains a newline -/

theorem isWord_no_nl (w : Str) (h : IsWord w) : '\n' ∉ w := by
  intro hm; have := h.2 _ hm; revert this; decide

theorem mem_joinStr (c : Char) (sep : Str) (ps : List Str) (h : c ∈ joinStr sep ps) : c ∈ sep ∨ ∃ p ∈ ps, c ∈ p := by
  induction ps with
  | nil => simp [joinStr] at h
  | cons p ps ih =>
    cases ps with
    | nil => exact Or.inr ⟨p, by simp, by simpa [joinStr] using h⟩
    | cons q qs =>
      simp only [joinStr, List.append_assoc, List.mem_append] at h
      rcases h with h | h | h
      · exact Or.inr ⟨p, by simp, h⟩
      · exact Or.inl h
      · rcases ih h with h | ⟨x, hx, hc⟩
        · exact Or.inl h
        · exact Or.inr ⟨x, by simp [hx], hc⟩

theorem joinStr_no_nl (sep : Str) (ps : List Str) (hs : '\n' ∉ sep) (hp : ∀ p ∈ ps, '\n' ∉ p) : '\n' ∉ joinStr sep ps := by
  intro h
  rcases mem_joinStr _ _ _ h with h | ⟨p, hp', hc⟩
  · exact hs h
  · exact hp p hp' hc

theorem nl2 (a b : Str) (ha : '\n' ∉ a) (hb : '\n' ∉ b) : '\n' ∉ a ++ b := by
  simp [ha, hb]
theorem nl3 (a b c : Str) (ha : '\n' ∉ a) (hb : '\n' ∉ b) (hc : '\n' ∉ c) : '\n' ∉ a ++ b ++ c := by
  simp [ha, hb, hc]

theorem fileLines_no_nl (modOf : Str → Str) (sel : List Str) (pfx : Str) (id : Nat)
    (hn : ∀ n ∈ sel, IsWord n) (hm : ∀ n ∈ sel, IsWord (modOf n)) (hp : IsWord pfx) :
    ∀ l ∈ fileLines modOf sel pfx id, '\n' ∉ l := by
  have hsel : ∀ n ∈ sel, '\n' ∉ n := fun n h => isWord_no_nl n (hn n h)
  intro l hl
  simp only [fileLines, List.mem_append, List.mem_cons, List.mem_nil_iff, or_false] at hl
  rcases hl with ((((hl | hl) | hl) | hl) | hl) | hl
  · revert l; decide
  · -- import lines
    have hok := groupsOk_sortedGroups modOf sel
    unfold importLines at hl
    split at hl
    · simp at hl; subst hl; simp
    · obtain ⟨g, hg, rfl⟩ := List.mem_map.mp hl
      obtain ⟨hne, hall⟩ := hok g hg
      obtain ⟨n, ns, e⟩ := List.exists_cons_of_ne_nil hne
      have hgm : '\n' ∉ g.1 := by
        have := hall n (by simp [e]); rw [← this.2]; exact isWord_no_nl _ (hm n this.1)
      have hj : '\n' ∉ joinStr ", ".toList g.2 :=
        joinStr_no_nl _ _ (by decide) (fun p hp' => hsel p (hall p hp').1)
      simp only [importLine, List.mem_append, not_or]
      exact ⟨⟨⟨by decide, hgm⟩, by decide⟩, hj⟩
  · revert l; decide
  · rcases hl with rfl | rfl
    · exact nl3 _ _ _ (by decide) (isWord_no_nl _ hp) (by decide)
    · exact nl2 _ _ (by decide) (isWord_no_nl _ (isWord_natChars id))
  · revert l; decide
  · rcases hl with rfl | rfl | rfl | rfl
    · exact nl3 _ _ _ (by decide) (joinStr_no_nl _ _ (by decide) hsel) (by decide)
    · decide
    · refine nl3 _ _ _ (by decide) (joinStr_no_nl _ _ (by decide) ?_) (by decide)
      intro p hp'
      obtain ⟨n, hn', rfl⟩ := List.mem_map.mp hp'
      simp only [List.mem_append, not_or]
      exact ⟨hsel n hn', by decide⟩
    · decide

end RefurbVerif.C19
