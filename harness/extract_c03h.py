"""Translator for C03: what main()/run_refurb() do with an exception, by fault injection.

One table, `cells`: for every step of main()/run_refurb() (Model/Pipeline.lean, `Main.Step`) and every exception
kind, REAL runs of `refurb.main.main()` over a three-file project (each file: a diagnosable line, a marker
statement, a second diagnosable line) with that step made to raise that exception — for the per-file steps at the
MIDDLE file, for `visit` in the middle of its traversal — and what was observed: did the exception leave main(),
what was printed (the message, error lines, nothing), the exit status, and which of the diagnostics found before
and after the fault are still printed, per file.  The older, coarser table (`handlers`) is derived from the same
observations.

The worker below is also what harness/props/c03.py uses to drive multi-fault runs (the same patch points).
"""

from __future__ import annotations

import json
import re
import subprocess
import textwrap
from concurrent.futures import ThreadPoolExecutor
from pathlib import Path
from typing import Any

from . import core, extract
from .extract import HEADER

# the stages of the older automaton (Model/Pipeline.lean, `Stage`): a subset of the steps
STAGES = ["loadSettings", "processOptions", "build", "loadChecks", "visit", "readSource", "timing", "format"]
STEPS = ["loadSettings", "early", "explain", "processOptions", "build", "loadChecks", "visit", "timing", "readSource", "format", "print"]
PER_FILE = ("visit", "readSource")
EXCS = [
    "valueError", "typeError", "systemExit", "compileError", "recursionError", "notImplementedError", "unicodeDecodeError",
    "importError", "osError", "keyError", "attributeError", "assertionError", "unicodeEncodeError",
]

# what mypy "wrote" before an injected SystemExit / the messages of an injected CompileError
POPTS_ERR = ["usage: BOOM", "mypy: error: BOOM"]
POPTS_OUT = ["zz.py:1: error: BOOM-stdout"]
COMPILE_MSGS = ["mypy: can't read file 'BOOM'", "zz.py:1: error: BOOM-compile"]

MARK = "FAULT_MARK_%d"


def probe_file(i: int) -> str:
    """one diagnostic before the marker statement, one after (FURB123, FURB112: both enabled by default)"""
    return f"x{i} = int(0)\n{MARK % i} = 0\ny{i} = list()\n"


# ---------------------------------------------------------------------------------------------------------------
# the worker: one real run of refurb.main.main() under a fault plan

WORKER = textwrap.dedent(
    r'''
    import contextlib, io, json, os, sys, tempfile

    plan = json.load(open(sys.argv[1]))
    os.makedirs("tmp", exist_ok=True)
    tempfile.tempdir = os.path.abspath("tmp")

    import refurb.main as m

    raised = []          # str(e) of every exception raised by a patch, in order


    def mk(kind, tag):
        msg = "BOOM-%s-%s" % (kind, tag)
        if kind == "valueError":
            e = ValueError("refurb: " + msg)      # refurb's own ValueErrors all carry a `refurb: ` message
        elif kind == "typeError":
            e = TypeError(msg)
        elif kind == "systemExit":
            e = SystemExit(2)
        elif kind == "compileError":
            from mypy.errors import CompileError
            e = CompileError(list(plan.get("compile", [])))
        elif kind == "recursionError":
            e = RecursionError(msg)
        elif kind == "notImplementedError":
            e = NotImplementedError(msg)
        elif kind == "unicodeDecodeError":
            e = UnicodeDecodeError("utf-8", b"\xe9", 0, 1, msg)
        elif kind == "unicodeEncodeError":
            e = UnicodeEncodeError("utf-8", "\ud800", 0, 1, msg)
        elif kind == "importError":
            e = ModuleNotFoundError(msg)
        elif kind == "osError":
            e = PermissionError(msg)
        elif kind == "keyError":
            e = KeyError(msg)
        elif kind == "attributeError":
            e = AttributeError(msg)
        elif kind == "assertionError":
            e = AssertionError(msg)
        else:
            raise RuntimeError("unknown exception kind " + kind)
        raised.append(str(e))
        return e


    def boom(step):
        kind = plan["faults"][step]

        def f(*a, **k):
            if step == "processOptions":
                p = plan.get("popts", {})
                if k.get("stderr") is not None:
                    k["stderr"].write("".join(l + "\n" for l in p.get("err", [])))
                if k.get("stdout") is not None:
                    k["stdout"].write("".join(l + "\n" for l in p.get("out", [])))
            raise mk(kind, step)

        return f


    KINDS = {
        "ValueError": "valueError", "TypeError": "typeError", "SystemExit": "systemExit", "CompileError": "compileError",
        "RecursionError": "recursionError", "NotImplementedError": "notImplementedError", "UnicodeDecodeError": "unicodeDecodeError",
        "ImportError": "importError", "ModuleNotFoundError": "importError", "OSError": "osError", "PermissionError": "osError",
        "FileNotFoundError": "osError", "IsADirectoryError": "osError", "KeyError": "keyError", "AttributeError": "attributeError",
        "AssertionError": "assertionError", "UnicodeEncodeError": "unicodeEncodeError",
    }
    natural = {}         # step -> what the REAL step function raised on its own (observed at the boundary, then re-raised)


    def watch(step, fn):
        def f(*a, **k):
            try:
                return fn(*a, **k)
            except BaseException as e:
                rec = {"kind": KINDS.get(type(e).__name__, "other:" + type(e).__name__), "msg": str(e)}
                if step == "processOptions" and isinstance(e, SystemExit):
                    rec["err"] = k["stderr"].getvalue().splitlines()
                    rec["out"] = k["stdout"].getvalue().splitlines()
                if step == "build" and type(e).__name__ == "CompileError":
                    rec["msgs"] = list(e.messages)
                natural[step] = rec
                raised.append(str(e))
                raise

        return f


    m.load_settings = watch("loadSettings", m.load_settings)
    m.explain = watch("explain", m.explain)
    m.process_options = watch("processOptions", m.process_options)
    m.build = watch("build", m.build)
    m.load_checks = watch("loadChecks", m.load_checks)
    m.output_timing_stats = watch("timing", m.output_timing_stats)
    m.format_errors = watch("format", m.format_errors)

    faults = plan.get("faults", {})
    visit = {("FAULT_MARK_%s" % i): k for i, k in plan.get("visit", {}).items()}
    read = {plan["files"][int(i)]: k for i, k in plan.get("read", {}).items()}

    if "loadSettings" in faults:
        m.load_settings = boom("loadSettings")
    if "early" in faults:
        m.usage = m.version = m.generate = boom("early")
    elif plan.get("gen_stub"):
        m.generate = lambda: print("generated (stub of the interactive dialogue)")
    if "explain" in faults:
        m.explain = boom("explain")
    if "processOptions" in faults:
        m.process_options = boom("processOptions")
    if "build" in faults:
        m.build = boom("build")
    if "loadChecks" in faults:
        m.load_checks = boom("loadChecks")
    elif visit:
        # a check that raises when the traversal reaches the marker statement of a planned file
        from mypy.nodes import AssignmentStmt, NameExpr
        from refurb.error import Error

        orig_load_checks = m.load_checks

        def fault_check(node: AssignmentStmt, errors: list[Error]) -> None:
            lv = node.lvalues[0] if node.lvalues else None
            if isinstance(lv, NameExpr) and lv.name in visit:
                raise mk(visit[lv.name], "visit-" + lv.name)

        def load_checks(settings):
            checks = orig_load_checks(settings)
            checks[AssignmentStmt].append(fault_check)
            return checks

        m.load_checks = load_checks
    if "timing" in faults:
        m.output_timing_stats = boom("timing")
    if read:
        orig_gsl = m.get_source_lines

        def get_source_lines(path):
            if path in read:
                raise mk(read[path], "read-" + path)
            return orig_gsl(path)

        get_source_lines.cache_clear = orig_gsl.cache_clear
        m.get_source_lines = get_source_lines
    if "format" in faults:
        m.format_errors = boom("format")
    if "print" in faults and not plan.get("early"):
        import builtins

        fired = []

        def fake_print(*a, **k):
            # the handlers print the exception OBJECT; only `print(formatted_errors)` prints a str here
            if not fired and a and isinstance(a[0], str):
                fired.append(1)
                raise mk(faults["print"], "print")
            return builtins.print(*a, **k)

        m.print = fake_print

    out = io.StringIO()
    try:
        with contextlib.redirect_stdout(out):
            rc = m.main(list(plan["argv"]))
        res = {"r": "returned", "rc": rc}
    except BaseException as e:
        res = {"r": "raised", "type": type(e).__name__, "msg": str(e)[:300]}
    res["stdout"] = out.getvalue()
    res["raised"] = raised
    res["natural"] = natural
    res["tmp_left"] = sorted(os.listdir("tmp"))
    json.dump(res, open("_out.json", "w"))
    '''
)


def run_plan(worker: Path, d: Path, plan: dict[str, Any], timeout: int = 300) -> dict[str, Any]:
    """one real run in a fresh process, cwd = `d` (which already holds the project files)"""
    (d / "_plan.json").write_text(json.dumps(plan))
    p = subprocess.run([core.PY, str(worker), "_plan.json"], cwd=d, capture_output=True, text=True, timeout=timeout, env=core.py_env())
    if p.returncode != 0 or not (d / "_out.json").exists():
        return {"r": "worker-died", "stderr": p.stderr[-800:], "stdout": "", "raised": [], "tmp_left": []}
    res = json.loads((d / "_out.json").read_text())
    res["stderr"] = p.stderr[-800:] if p.stderr.strip() else ""
    return res


MYPY_LINE = re.compile(r"^.*: (error|note): .*$")


def classify(stdout: str, files: list[str], raised: list[str], texts: dict[str, str] | None = None, early: bool = False) -> list[str]:
    """stdout -> the sequence of line KINDS of the model: `diag:i`, `refurb`, `mypy`, `bare`, `dump:i`, `hint`, `info`
    (a maximal run of lines of no other kind is ONE `info` — with `early`, the text of an early exit, whatever it looks like;
    a diagnostic naming a path outside `files` is `diag:?path`)"""
    texts = texts or {}
    lines = stdout.split("\n")
    if lines and lines[-1] == "":
        lines.pop()
    kinds: list[str] = []
    i = 0
    idx = {f: k for k, f in enumerate(files)}
    blocks = sorted((m.split("\n") for m in raised if m), key=len, reverse=True)
    while i < len(lines):
        line = lines[i]
        m = core.DIAG_RE.match(line)
        block = next((b for b in blocks if lines[i : i + len(b)] == b), None)
        if line in texts:
            kinds.append(texts[line])
        elif block:
            # the message of a raised exception, printed as it is (it may span several lines: ONE message)
            kinds.append("refurb" if line.startswith("refurb: ") else "bare")
            i += len(block) - 1
        elif early:
            if not (kinds and kinds[-1] == "info"):
                kinds.append("info")
        elif m:
            kinds.append("diag:%s" % idx.get(m.group("file"), "?" + m.group("file")))
        elif line == "" and i + 1 < len(lines) and lines[i + 1] == core.HINT:
            kinds.append("hint")
            i += 1
        elif line.startswith("MypyFile:") and line.endswith("("):
            # mypy's StrConv: one node per line, nesting shown by parentheses; the dump ends where they balance
            path = lines[i + 1].strip() if i + 1 < len(lines) else ""
            depth = line.count("(") - line.count(")")
            while depth > 0 and i + 1 < len(lines):
                i += 1
                depth += lines[i].count("(") - lines[i].count(")")
            kinds.append("dump:%s" % idx.get(path, "?" + path))
        elif line.startswith("refurb: "):
            kinds.append("refurb")
        elif MYPY_LINE.match(line):
            kinds.append("mypy")
        elif kinds and kinds[-1] == "info":
            pass
        else:
            kinds.append("info")
        i += 1
    return kinds


def observed_outcome(res: dict[str, Any], files: list[str], texts: dict[str, str] | None = None, early: bool = False) -> dict[str, Any]:
    """the real run, in the vocabulary of `Main.Outcome`"""
    temp = bool(res.get("tmp_left"))
    if res["r"] != "returned":
        return {"r": "traceback", "temp": temp}
    return {"r": "clean", "exit": res["rc"], "out": classify(res["stdout"], files, res.get("raised", []), texts, early), "temp": temp}


# ---------------------------------------------------------------------------------------------------------------
# the table

_cache: dict[str, Any] = {}


def observe_all() -> list[dict[str, Any]]:
    if "cells" not in _cache:
        # every Python file of refurb can influence what main() does with an exception
        _cache["cells"] = core.cached_json("c03cells-v3", ["refurb/**/*.py"], _observe_all)
    return _cache["cells"]


def single_fault_plan(step: str, exc: str) -> dict[str, Any]:
    files = ["a.py", "b.py", "c.py"]
    plan: dict[str, Any] = {"files": files, "argv": list(files), "faults": {}, "visit": {}, "read": {}, "popts": {"err": POPTS_ERR, "out": POPTS_OUT}, "compile": COMPILE_MSGS}
    if step == "visit":
        plan["visit"] = {"1": exc}
    elif step == "readSource":
        plan["read"] = {"1": exc}
    else:
        plan["faults"] = {step: exc}
    if step == "early":
        plan["argv"] = ["--help"]
        plan["early"] = "help"
    elif step == "explain":
        plan["argv"] = ["--explain", "FURB123"]
        plan["early"] = "explain"
    return plan


def _observe_all() -> list[dict[str, Any]]:
    with core.scratch("rv-c03h-") as root:
        worker = root / "_worker.py"
        worker.write_text(WORKER)

        def one(job: tuple[int, tuple[str, str]]) -> dict[str, Any]:
            i, (step, exc) = job
            d = root / f"j{i}"
            d.mkdir()
            (d / "pyproject.toml").write_text("")
            for k, f in enumerate(["a.py", "b.py", "c.py"]):
                (d / f).write_text(probe_file(k))
            plan = single_fault_plan(step, exc)
            res = run_plan(worker, d, plan)
            cell, why = cell_of(step, exc, res, plan["files"])
            return {"step": step, "exc": exc, "cell": cell, "why": why, "obs": {k: (v[:600] if isinstance(v, str) else v) for k, v in res.items()}}

        jobs = list(enumerate((s, e) for s in STEPS for e in EXCS))
        with ThreadPoolExecutor(16) as ex:
            return list(ex.map(one, jobs))


def cell_of(step: str, exc: str, res: dict[str, Any], files: list[str]) -> tuple[dict[str, Any] | None, str]:
    """read one observation as a `Main.Cell`; (None, why) when main() did something the model has no word for"""
    if res["r"] == "worker-died":
        return None, "the worker died: " + res.get("stderr", "")[-300:]
    if res["r"] == "raised":
        return {"k": "uncaught"}, res.get("type", "")
    rc = res["rc"]
    kinds = classify(res["stdout"], files, res.get("raised", []), early=step in ("early", "explain"))
    diags = [k for k in kinds if k.startswith("diag:")]
    rest = [k for k in kinds if not k.startswith("diag:") and k != "hint"]
    counts = [diags.count(f"diag:{i}") for i in range(len(files))]
    if len(diags) != sum(counts):
        return None, f"a diagnostic names an unknown file: {kinds}"
    if exc == "systemExit" and kinds == ["refurb"] * len(POPTS_ERR) + ["mypy"] * len(POPTS_OUT) and rc == 1:
        return {"k": "lines"}, "stderr lines as `refurb:` lines, then the stdout lines"
    if exc == "compileError" and kinds == ["refurb", "mypy"] and rc == 1:
        return {"k": "lines"}, "messages with `mypy: ` rewritten to `refurb: `"
    msg_kind = "refurb" if exc == "valueError" else "bare"
    if step in ("early", "explain"):
        if kinds == ["info"] and rc == 0:
            return {"k": "resume", "keep": True, "cont": True}, "swallowed"
        if kinds in ([msg_kind], []):
            return {"k": "exits", "msg": bool(kinds), "code": rc, "keeps": False}, "handler ends the run"
        return None, f"unreadable: rc={rc} kinds={kinds}"
    if not diags:
        if rest in ([msg_kind], []):
            return {"k": "exits", "msg": bool(rest), "code": rc, "keeps": False}, "handler ends the run, diagnostics discarded"
        return None, f"unreadable: rc={rc} kinds={kinds}"
    if rest == [msg_kind] and kinds[len(diags)] == msg_kind:
        return {"k": "exits", "msg": True, "code": rc, "keeps": True}, "handler ends the run after printing the diagnostics collected so far"
    if rest or rc != 1:
        return None, f"unreadable: rc={rc} kinds={kinds}"
    full = 2
    if step == "visit":
        if counts[0] == full and counts[1] in (0, 1) and counts[2] in (0, full):
            return {"k": "resume", "keep": counts[1] == 1, "cont": counts[2] == full}, f"swallowed; diagnostics per file {counts}"
        return None, f"unreadable: diagnostics per file {counts}"
    if counts == [full] * 3:
        return {"k": "resume", "keep": True, "cont": True}, "swallowed"
    return None, f"unreadable: diagnostics per file {counts}"


def cells() -> dict[tuple[str, str], dict[str, Any]]:
    out = {}
    bad = []
    for r in observe_all():
        if r["cell"] is None:
            bad.append(f"({r['step']}, {r['exc']}): {r['why']}")
        else:
            out[(r["step"], r["exc"])] = r["cell"]
    if bad:
        raise RuntimeError("main() handles an injected exception in a way the model cannot express: " + "; ".join(bad[:6]))
    return out


def lean_cell(c: dict[str, Any]) -> str:
    if c["k"] == "uncaught":
        return ".uncaught"
    if c["k"] == "lines":
        return ".lines"
    if c["k"] == "exits":
        return "(.exits %s %d %s)" % (extract.lbool(c["msg"]), c["code"], extract.lbool(c["keeps"]))
    return "(.resume %s %s)" % (extract.lbool(c["keep"]), extract.lbool(c["cont"]))


def coarse(c: dict[str, Any]) -> str:
    """the older three-valued reading of a cell"""
    return {"uncaught": "uncaught", "lines": "errorLine", "exits": "errorLine", "resume": "suppressed"}[c["k"]]


def inject_all() -> list[tuple[str, str, str, dict]]:
    """(stage, exception kind, coarse handling, observation) for the stages of the older automaton"""
    rows = []
    for r in observe_all():
        if r["step"] in STAGES:
            rows.append((r["step"], r["exc"], coarse(r["cell"]) if r["cell"] else "uncaught", r["obs"]))
    order = {s: i for i, s in enumerate(STAGES)}
    rows.sort(key=lambda t: order[t[0]])
    return rows


@extract.register("Handlers")
def gen_handlers() -> str:
    cs = cells()
    old = ["(.%s, .%s, .%s)" % (s, e, coarse(cs[(s, e)])) for s in STAGES for e in EXCS]
    new = ["(.%s, .%s, %s)" % (s, e, lean_cell(cs[(s, e)])) for s in STEPS for e in EXCS]
    return (
        HEADER
        + "import RefurbVerif.Model.Pipeline\nnamespace RefurbVerif.Generated\n\n"
        + "/-- (stage, exception kind, what main() did) — observed by making the stage raise that exception -/\n"
        + "def handlerRows : List (Stage × Exc × Handling) := [\n  " + ",\n  ".join(old) + "\n]\n\n"
        + "def handlers : HandlerTable := lookupHandling handlerRows\n\n"
        + "/-- (step, exception kind, what main() did, in full) — real runs over a three-file project; per-file steps raise at the\n"
        + "    middle file, `visit` between its two diagnostics -/\n"
        + "def cellRows : List (Main.Step × Exc × Main.Cell) := [\n  " + ",\n  ".join(new) + "\n]\n\n"
        + "def cells : Main.Table := Main.lookupCell cellRows\n"
        + "\nend RefurbVerif.Generated\n"
    )
