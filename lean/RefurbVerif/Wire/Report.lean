import RefurbVerif.Wire.Basic
import RefurbVerif.Model.Report
open Lean

namespace RefurbVerif.Wire

def chars (j : Json) (k : String) : Str := (str j k).toList

def toItem (j : Json) : Item :=
  if str j "k" == "text" then .text (chars j "s")
  else .diag { file := chars j "file", line := int j "line", col := int j "col", pfx := chars j "prefix",
               code := nat j "code", msg := chars j "msg" }

def itemJ : Item → Json
  | .text s => Json.mkObj [("k", "text"), ("s", String.ofList s)]
  | .diag d => Json.mkObj [("k", "diag"), ("file", String.ofList d.file), ("line", d.line), ("col", d.col),
      ("prefix", String.ofList d.pfx), ("code", d.code), ("msg", String.ofList d.msg)]

def toFormat (s : String) : Format :=
  match s with
  | "github" => .github
  | "color" => .color
  | _ => .plain

def relMap (j : Json) : Str → Str := fun f =>
  match (arr j "rel").find? (fun kv => match kv with | .arr #[.str k, _] => k.toList == f | _ => false) with
  | some (.arr #[_, .str v]) => v.toList
  | _ => f

def handleReport (verb : String) (j : Json) : Option Json :=
  match verb with
  | "format" =>
    let items := (arr j "items").map toItem
    some (Json.mkObj [
      ("out", String.ofList (formatErrors (toFormat (str j "format")) (relMap j) (bool j "quiet") items)),
      ("exit", exitStatus items)])
  | "sort" =>
    let items := (arr j "items").map toItem
    let by_ := if str j "by" == "error" then SortBy.error else SortBy.filename
    some (Json.arr ((ssort (leItem by_) items).map itemJ).toArray)
  | _ => none

end RefurbVerif.Wire
