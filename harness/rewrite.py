"""Applying refurb's suggested rewrites to real source and running both versions (C01's oracle; also used by C02).

A diagnostic "Replace `OLD` with `NEW`" reported with a span is turned into an edit of the file:
OLD is unified with the source text at the span (placeholders x, y, z, f, … and `...` in schematic
messages are wildcards, bound consistently), NEW is instantiated with the bindings and spliced in.
"""

from __future__ import annotations

import ast
import copy
import io
import json
import math
import re
import subprocess
import textwrap
from contextlib import redirect_stdout
from pathlib import Path
from typing import Any

from . import core

LINT_WORKER = textwrap.dedent(
    """
    import json, sys
    from refurb.main import run_refurb
    from refurb.settings import load_settings
    from refurb.error import Error
    out = []
    for e in run_refurb(load_settings(sys.argv[2:])):
        if isinstance(e, Error):
            out.append({"file": e.filename, "prefix": e.prefix, "code": e.code, "line": e.line, "col": e.column,
                        "line_end": e.line_end, "col_end": e.column_end, "msg": e.msg})
        else:
            out.append({"text": e})
    json.dump(out, open(sys.argv[1], "w"))
    """
)


def lint_with_spans(cwd: Path, argv: list[str], tag: str = "0") -> list[dict[str, Any]]:
    """refurb's Error objects (incl. end positions) for a run, from a fresh process"""
    (cwd / "_lint_worker.py").write_text(LINT_WORKER)
    out = cwd / f"_lint_{tag}.json"
    p = subprocess.run([core.PY, "_lint_worker.py", out.name, *argv], cwd=cwd, capture_output=True, text=True, timeout=900, env=core.py_env())
    if p.returncode != 0:
        raise RuntimeError("lint worker failed: " + p.stderr[-2000:])
    return json.loads(out.read_text())


REPLACE_RE = re.compile(r"^Replace `(?P<old>.*)` with `(?P<new>.*)`$", re.S)
PLACEHOLDERS = {"x", "y", "z", "f", "w", "v", "k"}


def split_message(msg: str) -> tuple[str, str] | None:
    m = REPLACE_RE.match(msg)
    if not m:
        return None
    old, new = m.group("old"), m.group("new")
    if "` with `" in old or "` with `" in new:
        # ambiguous split (a back-quote inside the quoted code): try the other split points
        parts = msg[len("Replace `") : -1].split("` with `")
        for i in range(1, len(parts)):
            o, n = "` with `".join(parts[:i]), "` with `".join(parts[i:])
            if _parses(o) and _parses(n):
                return o, n
        return None
    return old, new


def _parses(src: str) -> bool:
    try:
        ast.parse(src.replace("...", "__ellipsis__"))
        return True
    except SyntaxError:
        return False


class NoMatch(Exception):
    pass


def _unify(pat: Any, node: Any, env: dict[str, Any], lenient: bool = False) -> None:
    """pattern tree (with placeholder Names) vs concrete tree; raises NoMatch.  `lenient`: a placeholder that occurs twice may
    stand for two DIFFERENT source expressions (the first binding is kept) — what a check's message claims when the check
    took two different operands for the same one; the rewrite is then built as a reader of the message would build it."""
    if isinstance(pat, ast.Name) and (pat.id in PLACEHOLDERS or pat.id == "__ellipsis__"):
        if not isinstance(node, ast.AST):
            raise NoMatch
        key = pat.id
        if key == "__ellipsis__":
            return  # matches anything, binds nothing
        if key in env:
            if ast.dump(env[key]) != ast.dump(node) and not lenient:
                raise NoMatch
        else:
            env[key] = node
        return
    if lenient and isinstance(pat, ast.cmpop) and isinstance(node, ast.cmpop):
        return  # the message names another comparison operator than the source has: the reader follows the message
    if type(pat) is not type(node):
        raise NoMatch
    if isinstance(pat, ast.AST):
        for field in pat._fields:
            if field in ("ctx", "type_comment", "kind"):
                continue
            _unify(getattr(pat, field, None), getattr(node, field, None), env, lenient)
    elif isinstance(pat, list):
        # an `...` element (Expr(Name __ellipsis__) or Name __ellipsis__) absorbs any number of elements
        def is_dots(p: Any) -> bool:
            if isinstance(p, ast.Expr):
                p = p.value
            if isinstance(p, ast.Starred):
                p = p.value
            return isinstance(p, ast.Name) and p.id == "__ellipsis__"

        if any(is_dots(p) for p in pat):
            i = next(i for i, p in enumerate(pat) if is_dots(p))
            head, tail = pat[:i], pat[i + 1 :]
            if len(node) < len(head) + len(tail):
                raise NoMatch
            for p, n in zip(head, node[: len(head)]):
                _unify(p, n, env, lenient)
            for p, n in zip(tail, node[len(node) - len(tail) :] if tail else []):
                _unify(p, n, env, lenient)
            mid = node[len(head) : len(node) - len(tail)]
            if "__ellipsis__" in env and [ast.dump(m) for m in env["__ellipsis__"]] != [ast.dump(m) for m in mid]:
                raise NoMatch
            env["__ellipsis__"] = mid
            return
        if len(pat) != len(node):
            raise NoMatch
        for p, n in zip(pat, node):
            _unify(p, n, env, lenient)
    else:
        if pat != node:
            raise NoMatch


def _parse_fragment(src: str) -> tuple[str, Any]:
    """('expr', node) or ('stmts', [nodes])"""
    s = src.replace("...", "__ellipsis__")
    try:
        return "expr", ast.parse(s, mode="eval").body
    except SyntaxError:
        pass
    return "stmts", ast.parse(s).body


class _Subst(ast.NodeTransformer):
    def __init__(self, env: dict[str, Any]) -> None:
        self.env = env

    def visit_Name(self, node: ast.Name) -> Any:
        if node.id in self.env and node.id != "__ellipsis__":
            return copy.deepcopy(self.env[node.id])
        return node

    def generic_visit(self, node: ast.AST) -> Any:
        # `...` in a list position expands to the sequence it was bound to
        for field, value in ast.iter_fields(node):
            if isinstance(value, list):
                out: list[Any] = []
                for item in value:
                    inner = item.value if isinstance(item, (ast.Expr, ast.Starred)) and not isinstance(item, ast.Starred) else item
                    if isinstance(inner, ast.Name) and inner.id == "__ellipsis__" and isinstance(self.env.get("__ellipsis__"), list):
                        out.extend(copy.deepcopy(self.env["__ellipsis__"]))
                    elif isinstance(item, ast.AST):
                        r = self.visit(item)
                        if r is not None:
                            out.append(r)
                    else:
                        out.append(item)
                setattr(node, field, out)
            elif isinstance(value, ast.AST):
                setattr(node, field, self.visit(value))
        return node


def instantiate(old: str, new: str, segment: str, lenient: bool = False) -> tuple[str, str] | None:
    """-> (kind, concrete replacement source) or None when OLD does not describe the segment"""
    try:
        kind_o, pat = _parse_fragment(old)
        kind_s, seg = _parse_fragment(textwrap.dedent(segment))
    except SyntaxError:
        return None
    if kind_o != kind_s:
        return None
    env: dict[str, Any] = {}

    def schematic_display(n: Any) -> bool:
        return isinstance(n, (ast.List, ast.Tuple, ast.Set)) and n.elts and all(isinstance(e, ast.Name) and e.id in PLACEHOLDERS for e in n.elts)

    if kind_o == "expr" and schematic_display(pat) and type(seg) is type(pat):
        # `[x, y, z]` in a message stands for a display of any length (FURB109)
        try:
            kind_n, newt = _parse_fragment(new)
        except SyntaxError:
            return None
        if kind_n == "expr" and schematic_display(newt):
            out_node = type(newt)(elts=list(seg.elts), ctx=ast.Load())
            return "expr", ast.unparse(ast.fix_missing_locations(out_node))
    try:
        _unify(pat, seg, env, lenient)
    except NoMatch:
        return None
    try:
        kind_n, newt = _parse_fragment(new)
    except SyntaxError:
        return ("invalid", new)
    sub = _Subst(env)
    try:
        if kind_n == "expr":
            out = ast.unparse(ast.fix_missing_locations(sub.visit(newt)))
        else:
            out = "\n".join(ast.unparse(ast.fix_missing_locations(sub.visit(s))) for s in newt)
    except Exception:  # noqa: BLE001
        return None
    if "__ellipsis__" in out:
        return None  # the replacement is schematic itself: nothing concrete to run
    return kind_n, out


def offset(lines: list[str], line: int, col: int) -> int:
    """byte-column position -> character offset in the joined text"""
    pre = sum(len(l) + 1 for l in lines[: line - 1])
    text = lines[line - 1]
    return pre + len(text.encode("utf8")[:col].decode("utf8", "ignore"))


def _candidates(source: str, line: int, col: int) -> list[tuple[int, int, Any]]:
    """character spans of the ast nodes (expressions and statements) that contain the position, innermost first"""
    lines = source.split("\n")
    try:
        tree = ast.parse(source)
    except SyntaxError:
        return []
    out = []
    for n in ast.walk(tree):
        if not isinstance(n, (ast.expr, ast.stmt)) or getattr(n, "end_lineno", None) is None:
            continue
        if (n.lineno, n.col_offset) <= (line, col) <= (n.end_lineno, n.end_col_offset):
            a, b = offset(lines, n.lineno, n.col_offset), offset(lines, n.end_lineno, n.end_col_offset)
            out.append((a, b, n))
    out.sort(key=lambda t: t[1] - t[0])
    return out


def apply_rewrite(source: str, d: dict[str, Any]) -> tuple[str, str] | tuple[None, str]:
    """-> (new source, replacement text) or (None, reason).

    The diagnostic's position may be that of a sub-expression of the code its message quotes (FURB108 reports at the
    common operand), so the quoted OLD code is looked for among the syntax nodes that contain the reported position,
    innermost first."""
    sm = split_message(d["msg"])
    if sm is None:
        return None, "message is not of the form Replace `A` with `B`"
    old, new = sm
    cands = _candidates(source, d["line"], d["col"])
    if not cands:
        return None, "no syntax node at the reported position"

    def splice(a: int, b: int, kind: str, text: str) -> tuple[str, str]:
        if kind == "expr":
            return source[:a] + "(" + text + ")" + source[b:], text
        indent = " " * (a - (source.rfind("\n", 0, a) + 1))
        return source[:a] + text.replace("\n", "\n" + indent) + source[b:], text

    for a, b, node in cands:
        inst = instantiate(old, new, source[a:b])
        if inst is None:
            continue
        kind, text = inst
        if kind == "invalid":
            return None, "replacement is not valid Python: " + text
        return splice(a, b, kind, text)
    # the message names ONE placeholder for two different source expressions (the check took them for the same operand): build
    # the rewrite the way a reader of the message would — whether it preserves behaviour is for the caller to find out
    for a, b, node in cands:
        inst = instantiate(old, new, source[a:b], lenient=True)
        if inst is not None and inst[0] != "invalid":
            return splice(a, b, inst[0], inst[1])
    # operator fragments: `in [x, y]` -> `in (x, y)`, `in d.keys()` -> `in d`
    for op in ("not in ", "in ", "is not ", "is "):
        if old.startswith(op) and new.startswith(op):
            for a, b, node in cands:
                inst = instantiate(old[len(op) :], new[len(op) :], source[a:b])
                if inst and inst[0] == "expr":
                    return splice(a, b, "expr", inst[1])
    # a string literal quoted by its content: `0123456789` -> `string.digits`
    lines = source.split("\n")
    for a, b, node in cands:
        hits = [n for n in ast.walk(node) if isinstance(n, ast.Constant) and isinstance(n.value, str) and n.value == old and getattr(n, "end_lineno", None)]
        if len(hits) == 1:
            n = hits[0]
            return splice(offset(lines, n.lineno, n.col_offset), offset(lines, n.end_lineno, n.end_col_offset), "expr", new)
    # textual fragments (f-string fields `{bin(n)}` -> `{n:#b}`): exactly one occurrence in the innermost node holding it
    for a, b, node in cands:
        seg = source[a:b]
        if seg.count(old) == 1:
            text = seg.replace(old, new)
            return source[:a] + text + source[b:], text
    return None, "the quoted code does not unify with the source at the reported position"


# ------------------------------------------------------------------------------------------
# running a function on a value sweep


def canon(v: Any, depth: int = 0) -> Any:
    """a comparable, type-faithful rendering of a Python value"""
    if depth > 6:
        return "<deep>"
    if v is None or isinstance(v, (bool, int, str, bytes)):
        return [type(v).__name__, repr(v)]
    if isinstance(v, float):
        return ["float", "nan" if math.isnan(v) else repr(v)]
    if isinstance(v, complex):
        return ["complex", repr(v)]
    if isinstance(v, (list, tuple)):
        return [type(v).__name__, [canon(x, depth + 1) for x in v]]
    if isinstance(v, (set, frozenset)):
        return [type(v).__name__, sorted((canon(x, depth + 1) for x in v), key=repr)]
    if isinstance(v, dict):
        return ["dict", [[canon(k, depth + 1), canon(x, depth + 1)] for k, x in v.items()]]
    if isinstance(v, (bytearray,)):
        return ["bytearray", repr(bytes(v))]
    if hasattr(v, "__next__"):
        try:
            return ["iterator:" + type(v).__name__, [canon(x, depth + 1) for x in list(v)[:50]]]
        except Exception as e:  # noqa: BLE001
            return ["iterator-raised", type(e).__name__]
    if callable(v):
        return ["callable", getattr(v, "__qualname__", type(v).__name__)]
    return ["object:" + type(v).__name__, repr(v)[:80]]


def run_case(module_src: str, func: str, args_list: list[tuple[Any, ...]], alias: list[tuple[int, int]] | None = None) -> list[Any]:
    """exec the module, call func on (deep copies of) every argument tuple; observe result, exception, arguments, stdout"""
    ns: dict[str, Any] = {"__name__": "case_module"}
    try:
        import warnings

        warnings.simplefilter("ignore", SyntaxWarning)
        exec(compile(module_src, "<case>", "exec"), ns)  # noqa: S102
    except BaseException as e:  # noqa: BLE001
        return [["module-raised", type(e).__name__]] * len(args_list)
    fn = ns[func]
    out = []
    for args in args_list:
        argv = list(copy.deepcopy(args))
        for i, j in alias or []:
            argv[j] = argv[i]  # the same object under two names
        buf = io.StringIO()
        try:
            with redirect_stdout(buf):
                r = fn(*argv)
            res = ["ok", canon(r)]
        except BaseException as e:  # noqa: BLE001
            res = ["raised"]
        out.append([res, [canon(a) for a in argv], buf.getvalue()])
    return out
