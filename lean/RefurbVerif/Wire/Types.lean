import RefurbVerif.Wire.Basic
import RefurbVerif.Model.Types
import RefurbVerif.Generated.SimpleTypes
open Lean

namespace RefurbVerif.Wire.TypesW
open RefurbVerif.Types

/-- the rendering of harness/astjson.py `describe_type` (kinds the model does not distinguish become `other`) -/
partial def toTy (j : Json) : Ty :=
  match str j "t" with
  | "inst" => .inst (str j "name") ((arr j "args").map toTy)
  | "any" => .any
  | "none" => .none
  | "union" => .union ((arr j "items").map toTy)
  | "tuple" => .tuple ((arr j "items").map toTy) (str j "fallback")
  | "callable" => .callable (toTy (obj j "ret"))
  | "typevar" => .typeVar
  | "alias" =>
    (match obj j "target" with
      | .null => .aliasUnresolved
      | t => .alias (toTy t))
  | "literal" => .literal (toTy (obj j "base"))
  | "uninhabited" => .uninhabited
  | _ => .other

def optTy (j : Json) (k : String) : Option Ty :=
  match obj j k with
  | .null => none
  | t => some (toTy t)

partial def tyJ : Ty → Json
  | .inst c args => Json.mkObj [("t", "inst"), ("name", c), ("args", Json.arr (args.map tyJ).toArray)]
  | .any => Json.mkObj [("t", "any")]
  | .none => Json.mkObj [("t", "none")]
  | .union items => Json.mkObj [("t", "union"), ("items", Json.arr (items.map tyJ).toArray)]
  | .tuple items fb => Json.mkObj [("t", "tuple"), ("items", Json.arr (items.map tyJ).toArray), ("fallback", fb)]
  | .callable r => Json.mkObj [("t", "callable"), ("ret", tyJ r)]
  | .typeVar => Json.mkObj [("t", "typevar")]
  | .alias t => Json.mkObj [("t", "alias"), ("target", tyJ t)]
  | .aliasUnresolved => Json.mkObj [("t", "alias"), ("target", Json.null)]
  | .literal b => Json.mkObj [("t", "literal"), ("base", tyJ b)]
  | .uninhabited => Json.mkObj [("t", "uninhabited")]
  | .other => Json.mkObj [("t", "other")]

def tyValJ : Option Val → Json
  | none => Json.null
  | some (.ty t) => tyJ t
  | some (.info c) => Json.mkObj [("t", "typeinfo"), ("name", c)]
  | some (.aliasNode t) => Json.mkObj [("t", "typealias"), ("target", tyJ t)]
  | some (.file m) => Json.mkObj [("t", "module"), ("name", m)]

def toVal (j : Json) : Option Val :=
  match j with
  | .null => none
  | _ =>
    match str j "t" with
    | "typeinfo" => some (.info (str j "name"))
    | "typealias" => some (.aliasNode (toTy (obj j "target")))
    | "module" => some (.file (str j "name"))
    | _ => some (.ty (toTy j))

def toSym (j : Json) : Sym :=
  match str j "s" with
  | "var" => .var (optTy j "ty")
  | "func" => .func (optTy j "ty")
  | "overloaded" => .overloaded
  | "decorator" => .decorator
  | "info" => .typeInfo (str j "name")
  | "alias" => .typeAlias (toTy (obj j "target"))
  | "module" => .module (str j "name")
  | _ => .otherSym

def optSym (j : Json) (k : String) : Option Sym :=
  match obj j k with
  | .null => none
  | s => some (toSym s)

def toNames (j : Json) (k : String) : List (String × Sym) :=
  (arr j k).filterMap (fun kv =>
    match kv with
    | .arr #[.str n, s] => some (n, toSym s)
    | _ => none)

def toClass (j : Json) : ClassInfo :=
  { fullname := str j "name", mro := strs j "mro", names := toNames j "names", isEnum := bool j "is_enum", enumMembers := strs j "enum_members",
    specialCtor := bool j "special_ctor" }

def toCtx (j : Json) : Ctx :=
  { classes := (arr j "classes").map toClass,
    modules := (arr j "modules").map (fun m => (str m "name", toNames m "names")),
    builtins := toNames j "builtins" }

partial def toExpr (j : Json) : Expr :=
  match str j "k" with
  | "str" => .strLit
  | "bytes" => .bytesLit
  | "int" => .intLit
  | "float" => .floatLit
  | "complex" => .complexLit
  | "name" => .name (str j "fullname") (optSym j "node") (optTy j "narrowed")
  | "dict" => .dictE
  | "list" => .listE
  | "tuple" => .tupleE
  | "set" => .setE
  | "member" => .member (toExpr (obj j "e")) (str j "name") (optTy j "narrowed")
  | "cast" => .castCall (toTy (obj j "ty"))
  | "call" => .call (toExpr (obj j "callee"))
  | "unary" => .unary (str j "op") (optTy j "mt")
  | "op" => .op (str j "op") (optTy j "mt")
  | "index" => .index (toExpr (obj j "base")) (optTy j "mt") (bool j "base_union")
  | "await" => .await (toExpr (obj j "e"))
  | "lambda" => .lambda (toExpr (obj j "body"))
  | "lambda_other" => .lambdaOther
  | "walrus" => .walrus (toExpr (obj j "target")) (toExpr (obj j "value"))
  | _ => .other

def toExpected (j : Json) : Expected :=
  match str j "e" with
  | "none" => .pyNone
  | "any" => .pyAny
  | "type" => .pyType (str j "name")
  | _ => .named (str j "name")

def expectedJ : Expected → Json
  | .pyNone => Json.mkObj [("e", "none")]
  | .pyAny => Json.mkObj [("e", "any")]
  | .pyType n => Json.mkObj [("e", "type"), ("name", n)]
  | .named s => Json.mkObj [("e", "named"), ("name", s)]

def optExpectedJ : Option Expected → Json
  | none => Json.null
  | some e => expectedJ e

/-- verbs:
    `types_batch` — one environment (classes, modules, builtins), many expressions; per expression the resolver's
       answer, the reference's answer, plainness, the `is_same_type` verdict for each listed expectation,
       `is_mapping_type`, `is_sized_type`, `mypy_type_to_python_type`, and FURB123's verdict per listed callee;
    `same_batch` — one environment, many (value, question) items;
    `is_same` — `is_same_type` / `is_subclass` on a given value -/
def handleTypes (verb : String) (j : Json) : Option Json :=
  let tbl := Generated.simpleTypes
  match verb with
  | "types_batch" =>
    let Γ := toCtx j
    let exps := (arr j "expected").map toExpected
    let callees := strs j "callees"
    some (Json.mkObj [("r", Json.arr ((arr j "exprs").map (fun ej =>
      let e := toExpr ej
      let v := getMypyType Γ e
      Json.mkObj [
        ("ty", tyValJ v),
        ("ref", tyValJ (inferRef Γ e)),
        ("plain", plainB Γ e),
        ("same", Json.arr (exps.map (fun x => Json.bool (isSameType tbl v [x]))).toArray),
        ("mapping", isMappingType tbl Γ v),
        ("sized", isSizedType tbl Γ v),
        ("pytype", optExpectedJ (mypyTypeToPythonType tbl v)),
        ("furb123", Json.arr (callees.map (fun c => Json.bool (furb123 tbl Generated.funcNameMapping Γ c e))).toArray)])).toArray)])
  | "same_batch" =>
    -- one environment, many (value, question) items: "exact" = is_same_type, "subclass" = is_subclass,
    -- "furb123" = FURB123's decision for the given callee
    let Γ := toCtx j
    some (Json.mkObj [("r", Json.arr ((arr j "items").map (fun it =>
      let v := toVal (obj it "v")
      let exps := (arr it "expected").map toExpected
      match str it "mode" with
      | "exact" => Json.bool (isSameType tbl v exps)
      | "subclass" => Json.bool (isSubclass tbl Γ v exps)
      | "furb123" => Json.bool (furb123V tbl Generated.funcNameMapping (str it "callee") v)
      | _ => Json.null)).toArray)])
  | "is_same" =>
    let Γ := toCtx j
    let v := toVal (obj j "v")
    let exps := (arr j "expected").map toExpected
    some (Json.mkObj [
      ("same", isSameType tbl v exps),
      ("each", Json.arr (exps.map (fun x => Json.bool (isSameType tbl v [x]))).toArray),
      ("subclass", isSubclass tbl Γ v exps),
      ("pytype", optExpectedJ (mypyTypeToPythonType tbl v))])
  | _ => none

end RefurbVerif.Wire.TypesW

/-- exported under the name the driver dispatches on (the helpers stay in their own namespace: `toVal`, `valJ`
    exist for the C01 wire too) -/
def RefurbVerif.Wire.handleTypes := RefurbVerif.Wire.TypesW.handleTypes
