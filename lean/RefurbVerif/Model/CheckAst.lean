/-
The pattern-matching code of refurb's expression-level checks (C01: which code do the proved rewrite rules apply to?).

* `Expr` mirrors the mypy expression nodes these checks inspect (`NameExpr` with its fullname, `MemberExpr`, `CallExpr` with
  the parallel `args` / `arg_kinds` / `arg_names` lists exactly as mypy keeps them, `OpExpr`, `ComparisonExpr`, `UnaryExpr`,
  `ConditionalExpr`, `IndexExpr` / `SliceExpr`, the literals, the displays, lambdas and comprehensions as far as the checks
  look into them, `other` for every other class).  `absent` stands for Python's `None` where mypy has `Expression | None`.
* every node carries `Ann`: its position, what refurb's `_stringify` prints for it (`none`: it raises, `stringify` prints `x`),
  mypy's `str(node)` (read only by the `is_equivalent` oracle), and `TyAnn` — the VERDICTS of refurb's type helpers on what
  `get_mypy_type(node)` returned (`is_same_type`, `mypy_type_to_python_type`, `is_sized_type`, `is_mapping_type`).  Those
  helpers are modelled in Model/Types.lean (C05) and `is_equivalent` in Model/Equiv.lean (C06): here their verdicts are
  INPUTS (annotations, and the `Oracle.eqv` parameter), computed by Wire/Checks.lean from the serialised tree with those models.
* one matcher per check, transcribed branch by branch from refurb/checks/**: `match108 … match192 : … → Expr → List Hit`
  (a list because FURB124 / FURB136 can report the same node twice).  A `Hit` is the diagnostic (code, position, message)
  plus a `Verdict`: the row of Model/Rules.lean the flagged node instantiates with the operand sub-expressions, or `outside`
  with the reason when refurb fires on something no row describes.  The matchers are NOT restricted to the proved rows.
* `den` reads a node as an expression of the value semantics (Model/PyVal.lean): builtins by fullname, operators, literals;
  everything else is an opaque operand, a variable named by `nm`.  `instantiate` substitutes operands into a rule's pattern.
* `walk` is the traversal: which matcher sees which node (FURB115 only below a condition, FURB145 not in assignment targets /
  lambdas / `del x[…]`, FURB183 not inside another f-string).

No proofs here (Lemmas/C01Checks.lean, Props/C01.lean).
-/
import RefurbVerif.Model.PyVal
import RefurbVerif.Model.Rules

namespace RefurbVerif.CheckAst
open RefurbVerif.Py

/-- verdicts of refurb's type helpers on `ty = get_mypy_type(node)` -/
structure TyAnn where
  /-- `ty is None` (the resolver had no answer) -/
  isNone : Bool := true
  /-- the builtin class `X` (Python name: `int`, `list`, `bytearray`, …) for which `is_same_type(ty, X)` holds; "" when for none -/
  same : String := ""
  /-- the class fullname `is_same_type(ty, "<fullname>")` compares with (an `Instance`, after alias expansion); "" otherwise -/
  named : String := ""
  /-- `mypy_type_to_python_type(ty)` as a Python class name; "" when it is `None` -/
  pyType : String := ""
  /-- `is_sized_type(ty)` -/
  sized : Bool := false
  /-- `is_mapping_type(ty)` -/
  mapping : Bool := false
  deriving Repr, Inhabited, DecidableEq

structure Ann where
  line : Int := 0
  col : Int := 0
  /-- `end_line` / `end_column` (only reported back, so that the harness can cut the flagged text out of the source) -/
  eline : Int := 0
  ecol : Int := 0
  ty : TyAnn := {}
  /-- `_stringify(node)`; `none` when it raises `ValueError` -/
  str : Option String := none
  /-- mypy's `str(node)` -/
  sc : String := ""
  deriving Repr, Inhabited

inductive ArgKind where
  | pos | opt | star | named | star2 | namedOpt
  deriving DecidableEq, Repr, Inhabited

inductive Expr where
  | absent
  | name (a : Ann) (name fullname : String)
  | member (a : Ann) (e : Expr) (name fullname : String)
  | call (a : Ann) (callee : Expr) (args : List Expr) (kinds : List ArgKind) (names : List (Option String))
  | op (a : Ann) (op : String) (l r : Expr)
  | compare (a : Ann) (ops : List String) (operands : List Expr)
  | unary (a : Ann) (op : String) (e : Expr)
  | cond (a : Ann) (ifE c elseE : Expr)
  | index (a : Ann) (base idx : Expr)
  | slice (a : Ann) (b e s : Expr)
  | int (a : Ann) (v : Int)
  | str (a : Ann) (v : String)
  | bytes (a : Ann) (v : String)
  /-- `FloatExpr`: Python's `repr` of the value -/
  | float (a : Ann) (repr : String)
  | list (a : Ann) (items : List Expr)
  | tuple (a : Ann) (items : List Expr)
  | set (a : Ann) (items : List Expr)
  /-- `DictExpr`: parallel key / value lists, the key of a `**mapping` item is `absent` -/
  | dict (a : Ann) (keys vals : List Expr)
  /-- `LambdaExpr`: the returned expression when the body is a single `return`, else `absent` -/
  | lambda (a : Ann) (body : Expr)
  /-- `GeneratorExpr` (`elts` = [left_expr]) / `DictionaryComprehension` (`elts` = [key, value]); `conds` = all conditions -/
  | comp (a : Ann) (kind : String) (elts indices seqs conds : List Expr)
  | other (a : Ann) (kind : String) (children : List Expr)
  deriving Repr, Inhabited

def Expr.ann : Expr → Ann
  | .absent => {}
  | .name a .. | .member a .. | .call a .. | .op a .. | .compare a .. | .unary a .. | .cond a .. | .index a .. | .slice a ..
  | .int a .. | .str a .. | .bytes a .. | .float a .. | .list a .. | .tuple a .. | .set a .. | .dict a .. | .lambda a ..
  | .comp a .. | .other a .. => a

/-- `stringify(node)`: `_stringify`, or `x` when that raises -/
def sfy (e : Expr) : String := e.ann.str.getD "x"

/-- what the checks take from outside: `is_equivalent` and the version gates (`settings.get_python_version()`) -/
structure Oracle where
  eqv : Expr → Expr → Bool
  py39 : Bool := true
  py310 : Bool := true

/-! ### substitution of operands into a rule's pattern -/

def instantiate (σ : String → PyExpr) : PyExpr → PyExpr
  | .var n => σ n
  | .lit v => .lit v
  | .eq a b => .eq (instantiate σ a) (instantiate σ b)
  | .ne a b => .ne (instantiate σ a) (instantiate σ b)
  | .lt a b => .lt (instantiate σ a) (instantiate σ b)
  | .le a b => .le (instantiate σ a) (instantiate σ b)
  | .gt a b => .gt (instantiate σ a) (instantiate σ b)
  | .ge a b => .ge (instantiate σ a) (instantiate σ b)
  | .is_ a b => .is_ (instantiate σ a) (instantiate σ b)
  | .isNot a b => .isNot (instantiate σ a) (instantiate σ b)
  | .in_ a b => .in_ (instantiate σ a) (instantiate σ b)
  | .notIn a b => .notIn (instantiate σ a) (instantiate σ b)
  | .and_ a b => .and_ (instantiate σ a) (instantiate σ b)
  | .or_ a b => .or_ (instantiate σ a) (instantiate σ b)
  | .not_ a => .not_ (instantiate σ a)
  | .ifExp a b c => .ifExp (instantiate σ a) (instantiate σ b) (instantiate σ c)
  | .chainEq a b c => .chainEq (instantiate σ a) (instantiate σ b) (instantiate σ c)
  | .tup1 a => .tup1 (instantiate σ a)
  | .tup2 a b => .tup2 (instantiate σ a) (instantiate σ b)
  | .list1 a => .list1 (instantiate σ a)
  | .list2 a b => .list2 (instantiate σ a) (instantiate σ b)
  | .len a => .len (instantiate σ a)
  | .boolOf a => .boolOf (instantiate σ a)
  | .intOf a => .intOf (instantiate σ a)
  | .strOf a => .strOf (instantiate σ a)
  | .listOf a => .listOf (instantiate σ a)
  | .tupleOf a => .tupleOf (instantiate σ a)
  | .copy a => .copy (instantiate σ a)
  | .min2 a b => .min2 (instantiate σ a) (instantiate σ b)
  | .max2 a b => .max2 (instantiate σ a) (instantiate σ b)
  | .minL a => .minL (instantiate σ a)
  | .maxL a => .maxL (instantiate σ a)
  | .sorted a => .sorted (instantiate σ a)
  | .index0 a => .index0 (instantiate σ a)
  | .indexLast a => .indexLast (instantiate σ a)
  | .sliceAll a => .sliceAll (instantiate σ a)
  | .isinstance a b => .isinstance (instantiate σ a) b
  | .typeIsNone a => .typeIsNone (instantiate σ a)
  | .typeEqNone a => .typeEqNone (instantiate σ a)
  | .typeNeNone a => .typeNeNone (instantiate σ a)
  | .typeIsNotNone a => .typeIsNotNone (instantiate σ a)
  | .isinstance2 a b c => .isinstance2 (instantiate σ a) b c
  | .call0 a => .call0 a
  | .tup3 a b c => .tup3 (instantiate σ a) (instantiate σ b) (instantiate σ c)
  | .list3 a b c => .list3 (instantiate σ a) (instantiate σ b) (instantiate σ c)
  | .sliceFrom a b => .sliceFrom (instantiate σ a) (instantiate σ b)
  | .sliceTo a b => .sliceTo (instantiate σ a) (instantiate σ b)
  | .sliceRev a => .sliceRev (instantiate σ a)
  | .neg a => .neg (instantiate σ a)
  | .startswith a b => .startswith (instantiate σ a) (instantiate σ b)
  | .endswith a b => .endswith (instantiate σ a) (instantiate σ b)
  | .removeprefix a b => .removeprefix (instantiate σ a) (instantiate σ b)
  | .removesuffix a b => .removesuffix (instantiate σ a) (instantiate σ b)
  | .sortedRev a => .sortedRev (instantiate σ a)
  | .listReversed a => .listReversed (instantiate σ a)
  | .radixOf a b => .radixOf a (instantiate σ b)
  | .fmtRadix a b c => .fmtRadix a b (instantiate σ c)
  | .fstr a => .fstr (instantiate σ a)
  | .count a b => .count (instantiate σ a) (instantiate σ b)
  | .bitCount a => .bitCount (instantiate σ a)

def fv : PyExpr → List String
  | .var n => [n]
  | .lit _ => []
  | .eq a b => fv a ++ fv b
  | .ne a b => fv a ++ fv b
  | .lt a b => fv a ++ fv b
  | .le a b => fv a ++ fv b
  | .gt a b => fv a ++ fv b
  | .ge a b => fv a ++ fv b
  | .is_ a b => fv a ++ fv b
  | .isNot a b => fv a ++ fv b
  | .in_ a b => fv a ++ fv b
  | .notIn a b => fv a ++ fv b
  | .and_ a b => fv a ++ fv b
  | .or_ a b => fv a ++ fv b
  | .not_ a => fv a
  | .ifExp a b c => fv a ++ fv b ++ fv c
  | .chainEq a b c => fv a ++ fv b ++ fv c
  | .tup1 a => fv a
  | .tup2 a b => fv a ++ fv b
  | .list1 a => fv a
  | .list2 a b => fv a ++ fv b
  | .len a => fv a
  | .boolOf a => fv a
  | .intOf a => fv a
  | .strOf a => fv a
  | .listOf a => fv a
  | .tupleOf a => fv a
  | .copy a => fv a
  | .min2 a b => fv a ++ fv b
  | .max2 a b => fv a ++ fv b
  | .minL a => fv a
  | .maxL a => fv a
  | .sorted a => fv a
  | .index0 a => fv a
  | .indexLast a => fv a
  | .sliceAll a => fv a
  | .isinstance a _ => fv a
  | .typeIsNone a => fv a
  | .typeEqNone a => fv a
  | .typeNeNone a => fv a
  | .typeIsNotNone a => fv a
  | .isinstance2 a _ _ => fv a
  | .call0 _ => []
  | .tup3 a b c => fv a ++ fv b ++ fv c
  | .list3 a b c => fv a ++ fv b ++ fv c
  | .sliceFrom a b => fv a ++ fv b
  | .sliceTo a b => fv a ++ fv b
  | .sliceRev a => fv a
  | .neg a => fv a
  | .startswith a b => fv a ++ fv b
  | .endswith a b => fv a ++ fv b
  | .removeprefix a b => fv a ++ fv b
  | .removesuffix a b => fv a ++ fv b
  | .sortedRev a => fv a
  | .listReversed a => fv a
  | .radixOf _ b => fv b
  | .fmtRadix _ _ c => fv c
  | .fstr a => fv a
  | .count a b => fv a ++ fv b
  | .bitCount a => fv a

deriving instance DecidableEq for PyExpr

/-! ### reading a node as an expression of the value semantics -/

def classOfName : String → Option TypeName
  | "builtins.bool" => some .bool | "builtins.int" => some .int | "builtins.float" => some .float | "builtins.str" => some .str
  | "builtins.list" => some .list | "builtins.tuple" => some .tuple | _ => none

/-- the runtime class an `is_same_type` verdict stands for -/
def classOfSame : String → Option TypeName
  | "bool" => some .bool | "int" => some .int | "float" => some .float | "str" => some .str
  | "list" => some .list | "tuple" => some .tuple | _ => none

def radixOfName : String → Option Radix
  | "builtins.bin" => some .bin | "builtins.oct" => some .oct | "builtins.hex" => some .hex | _ => none

/-- `type(None)` written as a plain call -/
def isTypeNonePos : Expr → Bool
  | .call _ (.name _ _ fn) [.name _ _ an] [.pos] _ => fn == "builtins.type" && an == "builtins.None"
  | _ => false

/-- a call of a builtin with one positional argument -/
def denCall1 (fn : String) (a : PyExpr) (dflt : PyExpr) : PyExpr :=
  if fn == "builtins.len" then .len a
  else if fn == "builtins.bool" then .boolOf a
  else if fn == "builtins.int" then .intOf a
  else if fn == "builtins.str" then .strOf a
  else if fn == "builtins.list" then .listOf a
  else if fn == "builtins.tuple" then .tupleOf a
  else if fn == "builtins.sorted" then .sorted a
  else match radixOfName fn with
    | some r => .radixOf r a
    | none => dflt

def denCmp (o : String) (l r : PyExpr) (dflt : PyExpr) : PyExpr :=
  if o == "==" then .eq l r else if o == "!=" then .ne l r
  else if o == "<" then .lt l r else if o == "<=" then .le l r
  else if o == ">" then .gt l r else if o == ">=" then .ge l r
  else if o == "is" then .is_ l r else if o == "is not" then .isNot l r
  else if o == "in" then .in_ l r else if o == "not in" then .notIn l r
  else dflt

def denName (fn : String) (dflt : PyExpr) : PyExpr :=
  if fn == "builtins.True" then lTrue else if fn == "builtins.False" then lFalse
  else if fn == "builtins.None" then lNone else dflt

/-- a list / tuple display with up to three items -/
def denDisplay (isTuple : Bool) (items : List PyExpr) (dflt : PyExpr) : PyExpr :=
  match items with
  | [] => if isTuple then lTupleEmpty else lListEmpty
  | [a] => if isTuple then .tup1 a else .list1 a
  | [a, b] => if isTuple then .tup2 a b else .list2 a b
  | [a, b, c] => if isTuple then .tup3 a b c else .list3 a b c
  | _ => dflt

def denUnary (o : String) (x : PyExpr) (dflt : PyExpr) : PyExpr :=
  if o == "not" then .not_ x else if o == "-" then .neg x else dflt

def denOp (o : String) (l r : PyExpr) (dflt : PyExpr) : PyExpr :=
  if o == "or" then .or_ l r else if o == "and" then .and_ l r else dflt

def denCompare (ops : List String) (operands : List PyExpr) (dflt : PyExpr) : PyExpr :=
  match ops, operands with
  | [o], [l, r] => denCmp o l r dflt
  | _, _ => dflt

/-- `b[idx]`: the index forms of the value semantics (`lo` / `hi`: the readings of the slice bounds) -/
def denIndex (b : PyExpr) (idx : Expr) (lo hi : PyExpr) (dflt : PyExpr) : PyExpr :=
  match idx with
  | .slice _ .absent .absent .absent => .sliceAll b
  | .slice _ _ .absent .absent => .sliceFrom b lo
  | .slice _ .absent _ .absent => .sliceTo b hi
  | .int _ v => if v == 0 then .index0 b else dflt
  | .unary _ o (.int _ v) => if o == "-" && v == 1 then .indexLast b else dflt
  | _ => dflt

/-- a call: `recv` is the reading of the receiver when the callee is an attribute, `dargs` the readings of the arguments -/
def denCall (callee : Expr) (recv : PyExpr) (args : List Expr) (dargs : List PyExpr) (kinds : List ArgKind)
    (names : List (Option String)) (dflt : PyExpr) : PyExpr :=
  match callee, args, dargs, kinds, names with
  | .name _ _ fn, [_], [a], [.pos], [none] => denCall1 fn a dflt
  | .name _ _ fn, [_, t], [a, _], [.pos, .pos], [none, none] =>
    if fn == "builtins.isinstance" then
      if isTypeNonePos t then .isinstance a .noneType
      else match t with
        | .name _ _ tn => (match classOfName tn with | some c => .isinstance a c | none => dflt)
        | _ => dflt
    else dflt
  | .name _ _ fn, [_, .name _ _ tv], [a, _], [.pos, .named], [none, some kw] =>
    if fn == "builtins.sorted" && kw == "reverse" && tv == "builtins.True" then .sortedRev a else dflt
  | .member _ (.str _ fmt) m _, [_, .str _ spec], [a, _], [.pos, .pos], [none, none] =>
    if fmt == "{:{}}" && m == "format" && spec == "" then .fstr a else dflt
  | .member _ _ m _, [_], [b], [.pos], [none] =>
    if m == "count" then .count recv b
    else if m == "startswith" then .startswith recv b
    else if m == "endswith" then .endswith recv b
    else dflt
  | _, _, _, _, _ => dflt

mutual
/-- the reading of a node: `nm` names the sub-expressions the value semantics has no construct for (the operands) -/
def den (nm : Expr → String) : Expr → PyExpr
  | e@(.name _ _ fn) => denName fn (.var (nm e))
  | .int _ v => .lit (vInt v)
  | .str _ v => .lit (.sc (.str v.toList))
  | e@(.float _ r) => if r == "0.0" then lFloatZero else .var (nm e)
  | e@(.list _ items) => denDisplay false (denL nm items) (.var (nm e))
  | e@(.tuple _ items) => denDisplay true (denL nm items) (.var (nm e))
  | e@(.unary _ o x) => denUnary o (den nm x) (.var (nm e))
  | e@(.op _ o l r) => denOp o (den nm l) (den nm r) (.var (nm e))
  | e@(.compare _ ops operands) => denCompare ops (denL nm operands) (.var (nm e))
  | .cond _ t c f => .ifExp (den nm t) (den nm c) (den nm f)
  | e@(.index _ b idx) =>
    match idx with
    | .slice _ lo hi _ => denIndex (den nm b) idx (den nm lo) (den nm hi) (.var (nm e))
    | _ => denIndex (den nm b) idx (.var "") (.var "") (.var (nm e))
  | e@(.call _ callee args kinds names) =>
    match callee with
    | .member _ recv _ _ => denCall callee (den nm recv) args (denL nm args) kinds names (.var (nm e))
    | _ => denCall callee (.var "") args (denL nm args) kinds names (.var (nm e))
  | e => .var (nm e)
def denL (nm : Expr → String) : List Expr → List PyExpr
  | [] => []
  | x :: xs => den nm x :: denL nm xs
end

/-- `type(a)` written as a plain call: its operand -/
def typeOperand : Expr → Option Expr
  | .call _ (.name _ _ fn) [a] [.pos] _ => if fn == "builtins.type" then some a else none
  | _ => none

def denTypeCmp (o : String) (a : PyExpr) (dflt : PyExpr) : PyExpr :=
  if o == "is" then .typeIsNone a else if o == "==" then .typeEqNone a
  else if o == "!=" then .typeNeNone a else if o == "is not" then .typeIsNotNone a else dflt

/-- the reading of a FLAGGED node: as `den`, except that `type(a) OP type(None)` is one construct of the value semantics -/
def denRoot (nm : Expr → String) (e : Expr) : PyExpr :=
  match e with
  | .compare _ [o] [l, r] =>
    if isTypeNonePos r then
      match typeOperand l with
      | some a => denTypeCmp o (den nm a) (den nm e)
      | none => den nm e
    else den nm e
  | _ => den nm e

/-- the operand assignment of a hit, read as a substitution of the rule's variables -/
def opSubst (nm : Expr → String) (σ : List (String × Expr)) (v : String) : PyExpr :=
  match σ.lookup v with
  | some e => den nm e
  | none => .var v

/-! ### hits -/

inductive Verdict where
  /-- the flagged node is `instantiate r.old σ` for the row `r` of Model/Rules.lean (proved, guarded or refuted) -/
  | row (r : Rule) (σ : List (String × Expr))
  /-- refurb fires, but no row of the table describes this firing -/
  | outside (why : String)
  deriving Repr

structure Hit where
  code : Nat
  /-- where the diagnostic is reported (`ErrorInfo.from_node(at, …)`) -/
  line : Int
  col : Int
  msg : String
  verdict : Verdict
  /-- the span of the flagged node (the expression the verdict speaks about) -/
  nline : Int := 0
  ncol : Int := 0
  neline : Int := 0
  necol : Int := 0
  deriving Repr

/-- a diagnostic about `node`, reported at the position of `at_` -/
def hit (code : Nat) (node at_ : Expr) (msg : String) (v : Verdict) : Hit :=
  { code, line := at_.ann.line, col := at_.ann.col, msg, verdict := v,
    nline := node.ann.line, ncol := node.ann.col, neline := node.ann.eline, necol := node.ann.ecol }

/-- `is_same_type(ty, expected)` for `expected = mypy_type_to_python_type(…)` given by name ("" = `None`) -/
def sameType (t : TyAnn) (expected : String) : Bool := if expected == "" then t.isNone else t.same == expected

/-- `is_same_type(ty, e)` for an entry of FURB123's table: a Python class (by name) or a class fullname given as a `str` -/
def sameTypeE (t : TyAnn) (e : String) : Bool := t.same == e || t.named == e

def allPos (ks : List ArgKind) : Bool := ks.all (· == .pos)

/-! #### common.py: `extract_binary_oper`, `get_common_expr_positions`, `get_common_expr_in_comparison_chain` -/

/-- `extract_binary_oper(oper, node)`; the flag says that the pair is the whole node (`a or b`), not the first two operands of a
    longer chain (`a or b or c` is `a or (b or c)` in mypy: the function then answers `(a, b)`) -/
def extractBinaryOper (oper : String) : Expr → Option (Expr × Expr × Bool)
  | .op _ o lhs rhs =>
    if o == oper then
      match rhs with
      | .op _ o2 rl _ => if o2 == oper then some (lhs, rl, false) else none
      | _ => some (lhs, rhs, true)
    else none
  | _ => none

/-- `get_common_expr_positions(a, b, c, d)`: the first pair (operand of the first comparison, operand of the second) that
    `is_equivalent` accepts, in the order of `itertools.product` -/
def commonPositions (o : Oracle) (a b c d : Expr) : Option (Nat × Nat) :=
  if o.eqv a c then some (0, 2) else if o.eqv a d then some (0, 3)
  else if o.eqv b c then some (1, 2) else if o.eqv b d then some (1, 3) else none

/-- `get_common_expr_in_comparison_chain(node, oper, cmp_oper)` -/
def commonChain (o : Oracle) (oper cmp : String) (node : Expr) : Option (Expr × Expr × Expr × Expr × Nat × Nat × Bool) :=
  match extractBinaryOper oper node with
  | some (.compare _ [lo] [a, b], .compare _ [ro] [c, d], whole) =>
    if lo == ro && ro == cmp then
      match commonPositions o a b c d with
      | some (i, j) => some (a, b, c, d, i, j, whole)
      | none => none
    else none
  | _ => none

def notWhole : Verdict := .outside "the first two operands of a longer and/or chain (not a node of its own)"

/-! #### FURB108 (logical/use_in.py) -/

def msg108 (i j : Nat) : String :=
  let names := ["x", "y", "z"]
  let common := names.getD i ""
  let names4 := names.insertIdx j common
  let old := s!"{names4.getD 0 ""} == {names4.getD 1 ""} or {names4.getD 2 ""} == {names4.getD 3 ""}"
  let rest := names4.filter (· != common)
  s!"Replace `{old}` with `{common} in ({", ".intercalate rest})`"

def match108 (o : Oracle) (node : Expr) : List Hit :=
  match commonChain o "or" "==" node with
  | some (a, b, _, d, i, j, whole) =>
    [hit 108 node a (msg108 i j)
      (if !whole then notWhole
       else if i == 0 && j == 2 then .row r108_eq_or_eq [("x", a), ("y", b), ("z", d)]
       else .outside "the shared operand is not the first one of both comparisons: no row")]
  | none => []

/-! #### FURB124 (logical/use_equal_chain.py) -/

def msg124 (i j : Nat) (oper : String) : String :=
  let names := ["x", "y", "z"]
  let names4 := names.insertIdx j (names.getD i "")
  let expr := s!"{names4.getD 0 ""} {oper} {names4.getD 1 ""} and {names4.getD 2 ""} {oper} {names4.getD 3 ""}"
  s!"Replace `{expr}` with `x {oper} y {oper} z`"

def match124for (o : Oracle) (cmp : String) (node : Expr) : List Hit :=
  match commonChain o "and" cmp node with
  | some (a, b, c, d, i, j, whole) =>
    [hit 124 node a (msg124 i j cmp)
      (if !whole then notWhole
       else if cmp != "==" then .outside "an `is` chain: not in the value semantics"
       else if i == 0 && j == 2 then .row r124_eq_and_eq [("x", a), ("y", b), ("z", d)]
       else if i == 0 && j == 3 then .row r124_eq_and_eq_rev [("x", a), ("y", b), ("z", c)]
       else if i == 1 && j == 2 then .row r124_eq_and_eq_mid [("x", a), ("y", b), ("z", d)]
       else .outside "both comparisons have the shared operand on the right: no row")]
  | none => []

def match124 (o : Oracle) (node : Expr) : List Hit := match124for o "==" node ++ match124for o "is" node

/-! #### FURB109 (iterable/in_tuple.py), expression forms -/

def msg109 (oper : String) : String := s!"Replace `{oper} [x, y, z]` with `{oper} (x, y, z)`"

def isListExpr : Expr → Bool
  | .list .. => true
  | _ => false

def match109 : Expr → List Hit
  | node@(.compare _ [oper] [lhs, l@(.list _ items)]) =>
    if oper == "in" || oper == "not in" then
      [hit 109 node l (msg109 oper)
        (if oper != "in" then .outside "`not in`: no row"
         else match items with
          | [y] => .row r109_in_list1 [("x", lhs), ("y", y)]
          | [y, z] => .row r109_in_list [("x", lhs), ("y", y), ("z", z)]
          | [y, z, w] => .row r109_in_list3 [("x", lhs), ("y", y), ("z", z), ("w", w)]
          | _ => .outside "a list display of another length: no row")]
    else []
  | .comp _ kind _ _ seqs _ =>
    if kind == "GeneratorExpr" then
      (seqs.filter isListExpr).map (fun s => hit 109 s s (msg109 "in") (.outside "a comprehension iterating over a list display (statement rule s109)"))
    else []
  | _ => []

/-! #### FURB110 (logical/use_or.py) -/

def match110 (o : Oracle) : Expr → List Hit
  | node@(.cond _ t c e) =>
    if o.eqv t c then
      [hit 110 node node s!"Replace `{sfy t} if {sfy t} else {sfy e}` with `{sfy t} or {sfy e}`" (.row r110_if_else_or [("x", t), ("y", e)])]
    else []
  | _ => []

/-! #### FURB114 (readability/no_double_not.py) -/

def match114 : Expr → List Hit
  | node@(.unary _ o (.unary _ o2 x)) =>
    if o == "not" && o2 == "not" then [hit 114 node node "Replace `not not x` with `bool(x)`" (.row r114_not_not [("x", x)])] else []
  | _ => []

/-! #### FURB115 (readability/no_len_cmp.py): a visitor of its own below every condition -/

def isLenCall : Expr → Bool
  | .call _ (.name _ _ fn) [arg] _ _ => fn == "builtins.len" && arg.ann.ty.sized
  | _ => false

/-- IS_INT_COMPARISON_TRUTHY (sorted as Generated/C01Tables.lean has it) -/
def table115 : List (String × Int × Bool) := [("!=", 0, true), ("<=", 0, false), ("==", 0, false), (">", 0, true), (">=", 1, true)]

def lookup115 (oper : String) (num : Int) : Option Bool :=
  (table115.find? (fun e => e.1 == oper && e.2.1 == num)).map (·.2.2)

def simplifyLenCall : Expr → Expr
  | e@(.call _ (.name _ _ fn) [arg] _ _) => if fn == "builtins.list" then simplifyLenCall arg else e
  | e@(.call _ (.member _ arg m _) [] _ _) => if (m == "keys" || m == "values") && arg.ann.ty.mapping then simplifyLenCall arg else e
  | e => e

/-- does `simplify_len_call` leave the argument alone? -/
def isSimple115 : Expr → Bool
  | .call _ (.name _ _ fn) [_] _ _ => fn != "builtins.list"
  | .call _ (.member _ arg m _) [] _ _ => !((m == "keys" || m == "values") && arg.ann.ty.mapping)
  | _ => true

def row115 (oper : String) (num : Int) (cls : String) : Option Rule :=
  if oper == "==" && num == 0 then
    (if cls == "str" then some r115_len_eq_0_str else if cls == "list" then some r115_len_eq_0_list
     else if cls == "tuple" then some r115_len_eq_0_tuple else none)
  else if oper == ">=" && num == 1 then (if cls == "list" then some r115_len_ge_1_list else none)
  else if oper == ">" && num == 0 then
    (if cls == "tuple" then some r115_len_gt_0_tuple else if cls == "str" then some r115_len_gt_0_str else none)
  else if oper == "!=" && num == 0 then
    (if cls == "str" then some r115_len_ne_0_str else if cls == "list" then some r115_len_ne_0_list else none)
  else none

def isEmptyDisplay115 : Expr → Bool
  | .list _ [] => true
  | .dict _ [] [] => true
  | .tuple _ [] => true
  | .call _ (.name _ _ fn) [] _ _ => fn == "builtins.set" || fn == "builtins.frozenset"
  | _ => false

def cmp115 : Expr → List Hit
  | node@(.compare _ [oper] [call@(.call _ (.name _ _ _) [arg] kinds names), .int _ num]) =>
    if isLenCall call then
      match lookup115 oper num with
      | none => []
      | some truthy =>
        let arg' := simplifyLenCall arg
        let new := if truthy then sfy arg' else s!"not {sfy arg'}"
        [hit 115 node node s!"Replace `{sfy node}` with `{new}`"
          (if kinds == [.pos] && names == [none] && isSimple115 arg then
            match row115 oper num arg.ann.ty.same with
            | some r => .row r [("x", arg)]
            | none => .outside "operand class / comparison without a row"
           else .outside "`len` of a simplified or starred argument: no row")]
    else []
  | node@(.compare _ [oper] [lhs, rhs]) =>
    if (oper == "==" || oper == "!=") && isEmptyDisplay115 rhs && sameType lhs.ann.ty rhs.ann.ty.pyType then
      let new := if oper == "==" then s!"not {sfy lhs}" else sfy lhs
      [hit 115 node node s!"Replace `{sfy node}` with `{new}`" (.outside "comparison with an empty display: no row")]
    else []
  | _ => []

/-- `LenComparisonVisitor`: descends through `and` / `or` and unary operators only -/
def walk115 : Expr → List Hit
  | .op _ o l r => if o == "and" || o == "or" then walk115 l ++ walk115 r else []
  | .unary _ _ e => walk115 e
  | n@(.compare ..) => cmp115 n
  | n@(.call _ _ args _ _) =>
    if isLenCall n then
      [hit 115 n n s!"Replace `{sfy n}` with `{sfy (args.headD .absent)}`" (.outside "a bare `len(x)` used as a condition: no row")]
    else []
  | _ => []

/-! #### FURB121 (builtin/use_isinstance_tuple.py) -/

def fullnameOf : Expr → Option String
  | .name _ _ fn => some fn
  | _ => none

def row121 (t u : String) (xcls : String) : Option Rule :=
  if t == "builtins.int" && u == "builtins.str" then some r121_int_str
  else if t == "builtins.bool" && u == "builtins.float" then some r121_bool_float
  else if t == "builtins.list" && u == "builtins.tuple" && xcls == "list" then some r121_list_tuple
  else none

def match121 (o : Oracle) (node : Expr) : List Hit :=
  match extractBinaryOper "or" node with
  | some (.call _ (.name _ ln lfn) [l0, l1] lk lnm, .call _ (.name _ _ rfn) [r0, r1] rk rnm, whole) =>
    if lfn == rfn && (lfn == "builtins.isinstance" || lfn == "builtins.issubclass") && o.eqv l0 r0 then
      let typeArgs := if o.py310 then "y | z" else "(y, z)"
      [hit 121 node l1 s!"Replace `{ln}(x, y) or {ln}(x, z)` with `{ln}(x, {typeArgs})`"
        (if !whole then notWhole
         else if lfn == "builtins.isinstance" && o.py310 && lk == [.pos, .pos] && rk == [.pos, .pos]
              && lnm == [none, none] && rnm == [none, none] then
          match fullnameOf l1, fullnameOf r1 with
          | some t, some u =>
            (match row121 t u l0.ann.ty.same with
             | some r => .row r [("x", l0)]
             | none => .outside "a pair of classes without a row (sound_121_any covers every pair of builtin classes)")
          | _, _ => .outside "class arguments that are not plain names: no row"
         else .outside "issubclass / the tuple form below 3.10 / keyword arguments: no row")]
    else []
  | _ => []

/-! #### FURB123 (readability/no_unnecessary_cast.py) -/

/-- FUNC_NAME_MAPPING as Generated/C01Tables.lean renders it: constructor ↦ (suffix, expected classes) -/
def table123 : List (String × String × List String) := [
  ("builtins.bool", "", ["bool"]), ("builtins.bytes", "", ["bytes"]), ("builtins.complex", "", ["complex"]),
  ("builtins.dict", ".copy()", ["dict", "os._Environ"]), ("builtins.float", "", ["float"]), ("builtins.int", "", ["int"]),
  ("builtins.list", ".copy()", ["list"]), ("builtins.set", ".copy()", ["set"]), ("builtins.str", "", ["str"]),
  ("builtins.tuple", "", ["tuple"])]

def row123 (fn : String) : Option Rule :=
  if fn == "builtins.int" then some r123_int else if fn == "builtins.str" then some r123_str
  else if fn == "builtins.bool" then some r123_bool else if fn == "builtins.list" then some r123_list
  else if fn == "builtins.tuple" then some r123_tuple else none

def match123 : Expr → List Hit
  | node@(.call _ (.name _ n fn) [arg] [.pos] names) =>
    match table123.lookup fn with
    | some (suffix, expected) =>
      if expected.any (sameTypeE arg.ann.ty) then
        [hit 123 node node s!"Replace `{n}({sfy arg})` with `{sfy arg}{suffix}`"
          (match row123 fn with
           | some r => if names == [none] && classOfSame arg.ann.ty.same == (r.vars.headD ("", none)).2 then .row r [("x", arg)]
                       else .outside "keyword argument: no row"
           | none => .outside "a class outside the value universe (bytes, complex, dict, float, set): no row")]
      else []
    | none => []
  | _ => []

/-! #### FURB136 (builtin/use_max.py) -/

/-- FUNC_TABLE (sorted) -/
def table136 : List (String × String) := [("<", "min"), ("<=", "min"), (">", "max"), (">=", "max")]

def flip136 (oper : String) : String :=
  if oper == "<" then ">" else if oper == "<=" then ">=" else if oper == ">" then "<" else if oper == ">=" then "<=" else oper

/-- rows of the form `x if x OP y else y` -/
def row136 (oper lc rc : String) : Option Rule :=
  if lc == "int" && rc == "int" then
    (if oper == ">" then some r136_max_int else if oper == "<" then some r136_min_int
     else if oper == ">=" then some r136_max_ge_int else if oper == "<=" then some r136_min_le_int else none)
  else if lc == "str" && rc == "str" then
    (if oper == ">" then some r136_max_str else if oper == "<" then some r136_min_str else none)
  else if lc == "bool" && rc == "int" && oper == ">" then some x136_max_bool_int
  else none

/-- rows of the form `y if x OP y else x` -/
def row136swapped (oper lc rc : String) : Option Rule :=
  if lc == "int" && rc == "int" then
    (if oper == ">" then some r136_min_swapped_int else if oper == "<" then some r136_max_swapped_int else none)
  else none

def match136 (o : Oracle) : Expr → List Hit
  | node@(.cond _ ifE (.compare _ [oper] [lhs, rhs]) elseE) =>
    (if o.eqv ifE lhs && o.eqv rhs elseE then
      match table136.lookup oper with
      | some func =>
        [hit 136 node node s!"Replace `x if x {oper} y else y` with `{func}(x, y)`"
          (match row136 oper lhs.ann.ty.same rhs.ann.ty.same with
           | some r => .row r [("x", lhs), ("y", rhs)]
           | none => .outside "operand classes / comparison without a row")]
      | none => []
     else []) ++
    (if o.eqv ifE rhs && o.eqv lhs elseE then
      match table136.lookup (flip136 oper) with
      | some func =>
        [hit 136 node node s!"Replace `x if y {oper} x else y` with `{func}(y, x)`"
          (match row136swapped oper lhs.ann.ty.same rhs.ann.ty.same with
           | some r => .row r [("x", lhs), ("y", rhs)]
           | none => .outside "operand classes / comparison without a row")]
      | none => []
     else [])
  | _ => []

/-! #### FURB143 (readability/no_or_default.py) -/

def isDefault143 : Expr → Bool
  | .call _ (.name _ _ fn) [] _ _ => fn == "builtins.set" || fn == "builtins.frozenset"
  | .list _ [] => true
  | .dict _ [] [] => true
  | .tuple _ [] => true
  | .str _ v => v == ""
  | .bytes _ v => v == ""
  | .int _ v => v == 0
  | .float _ r => r == "0.0"
  | .name _ _ fn => fn == "builtins.False"
  | _ => false

def row143 (rhs : Expr) (cls : String) : Option Rule :=
  match rhs with
  | .str _ _ => if cls == "str" then some r143_or_empty_str else none
  | .int _ _ => if cls == "int" then some r143_or_zero_int else none
  | .list _ _ => if cls == "list" then some r143_or_empty_list else none
  | .name _ _ _ => if cls == "bool" then some r143_or_false_bool else none
  | .tuple _ _ => if cls == "tuple" then some r143_or_empty_tuple else none
  | .float _ _ => if cls == "float" then some x143_or_zero_float else none
  | _ => none

def match143 (node : Expr) : List Hit :=
  match extractBinaryOper "or" node with
  | some (lhs, rhs, whole) =>
    if isDefault143 rhs && rhs.ann.ty.pyType != "" && sameType lhs.ann.ty rhs.ann.ty.pyType then
      [hit 143 node node s!"Replace `{sfy lhs} or {sfy rhs}` with `{sfy lhs}`"
        (if !whole then notWhole
         else match row143 rhs lhs.ann.ty.same with
          | some r => .row r [("x", lhs)]
          | none => .outside "a class outside the value universe (bytes, dict, set, frozenset): no row")]
    else []
  | none => []

/-! #### FURB145 (builtin/no_slice_copy.py): `SliceExprVisitor.visit_index_expr` (the traversal is in `walk`) -/

def match145 : Expr → List Hit
  | node@(.index _ base (.slice _ .absent .absent .absent)) =>
    let c := base.ann.ty.same
    if c == "bytearray" || c == "list" || c == "tuple" then
      [hit 145 node node s!"Replace `{sfy base}[:]` with `{sfy base}.copy()`"
        (if c == "list" then .row r145_slice_copy_list [("x", base)]
         else if c == "tuple" then .row x145_slice_copy_tuple [("x", base)]
         else .outside "bytearray: outside the value universe")]
    else []
  | _ => []

/-! #### FURB149 (readability/no_is_bool_compare.py) -/

def boolLitName : Expr → Option String
  | .name _ n fn => if fn == "builtins.True" || fn == "builtins.False" then some n else none
  | _ => none

def isTruthy149 (oper name : String) : Bool :=
  let value := name == "True"
  if oper == "is not" || oper == "!=" then !value else value

def row149 (oper lit : String) : Option Rule :=
  if lit == "builtins.True" then
    (if oper == "==" then some r149_eq_true else if oper == "is" then some r149_is_true
     else if oper == "!=" then some r149_ne_true else if oper == "is not" then some r149_is_not_true else none)
  else if lit == "builtins.False" then
    (if oper == "==" then some r149_eq_false else if oper == "is" then some r149_is_false
     else if oper == "!=" then some r149_ne_false else if oper == "is not" then some r149_is_not_false else none)
  else none

def match149 : Expr → List Hit
  | node@(.compare _ [oper] [lhs, rhs]) =>
    if oper == "is" || oper == "is not" || oper == "==" || oper == "!=" then
      match boolLitName lhs, boolLitName rhs with
      | some ln, rn =>
        if rhs.ann.ty.same == "bool" then
          let expr := sfy rhs
          let new := if isTruthy149 oper ln then expr else s!"not {expr}"
          [hit 149 node node s!"Replace `{ln} {oper} {expr}` with `{new}`" (.outside "the literal is on the left: no row")]
        else match rn with
          | some rn' =>
            if lhs.ann.ty.same == "bool" then
              let expr := sfy lhs
              let new := if isTruthy149 oper rn' then expr else s!"not {expr}"
              [hit 149 node node s!"Replace `{expr} {oper} {rn'}` with `{new}`" (.outside "both sides are literals: no row")]
            else []
          | none => []
      | none, some rn =>
        if lhs.ann.ty.same == "bool" then
          let expr := sfy lhs
          let new := if isTruthy149 oper rn then expr else s!"not {expr}"
          [hit 149 node node s!"Replace `{expr} {oper} {rn}` with `{new}`"
            (match (fullnameOf rhs).bind (row149 oper) with
             | some r => .row r [("x", lhs)]
             | none => .outside "no row")]
        else []
      | none, none => []
    else []
  | _ => []

/-! #### FURB161 (builtin/use_bit_count.py) -/

def isIndexExpr : Expr → Bool
  | .index .. => true
  | _ => false

/-- `isinstance(arg, IntExpr | RefExpr | CallExpr | IndexExpr)` -/
def needsNoParens161 : Expr → Bool
  | .int .. | .name .. | .member .. | .call .. | .index .. => true
  | _ => false

/-- the pattern `IndexExpr(base=bin_func, index=SliceExpr(IntExpr(2), None, None)) | bin_func` applied to the receiver of `.count` -/
def binFunc161 : Expr → Expr
  | e@(.index _ base (.slice _ (.int _ two) .absent .absent)) => if two == 2 then base else e
  | e => e

def match161 (o : Oracle) : Expr → List Hit
  | node@(.call _ (.member _ recv m _) [.str _ one] kinds names) =>
    if !o.py310 then []
    else if m == "count" && one == "1" then
      match binFunc161 recv with
      | .call _ (.name _ _ fn) [arg] bk bn =>
        if fn == "builtins.bin" then
          let old := if isIndexExpr recv then "bin(x)[2:]" else "bin(x)"
          let x := if needsNoParens161 arg then "x" else "(x)"
          [hit 161 node node ("Replace `" ++ old ++ ".count(\"1\")` with `" ++ x ++ ".bit_count()`")
            (if kinds == [.pos] && names == [none] && bk == [.pos] && bn == [none] && arg.ann.ty.same == "int" then
              (if isIndexExpr recv then .row r161_bit_count_sliced [("x", arg)] else .row r161_bit_count [("x", arg)])
             else .outside "operand not annotated `int` / starred or keyword arguments: no row")]
        else []
      | _ => []
    else []
  | _ => []

/-! #### FURB168 (builtin/no_isinstance_type_none.py) -/

/-- `is_type_none_call` (common.py): the argument kinds are not looked at -/
def isTypeNoneCall : Expr → Bool
  | .call _ (.name _ _ fn) [.name _ _ an] _ _ => fn == "builtins.type" && an == "builtins.None"
  | _ => false

/-- `get_type_none_index`; `none` is its `-1` -/
def typeNoneIndex : Expr → Nat → Option Nat
  | e@(.op _ o l r), idx =>
    if isTypeNoneCall e then some idx
    else if o == "|" then
      match typeNoneIndex l idx with
      | some k => some k
      | none => typeNoneIndex r (idx + 1)
    else none
  | e, idx => if isTypeNoneCall e then some idx else none

def msg168 (types : String) : String := s!"Replace `isinstance(x, {types})` with `x is None or isinstance(x, ...)`"

def isOp (e : Expr) (oper : String) : Bool :=
  match e with
  | .op _ o _ _ => o == oper
  | _ => false

def match168 : Expr → List Hit
  | node@(.call _ (.name _ _ fn) [x, ty] kinds names) =>
    if fn == "builtins.isinstance" then
      if isTypeNoneCall ty then
        [hit 168 node node "Replace `isinstance(x, type(None))` with `x is None`"
          (if kinds == [.pos, .pos] && names == [none, none] && isTypeNonePos ty then .row r168_isinstance_none [("x", x)]
           else .outside "starred or keyword arguments: no row")]
      else if isOp ty "|" then
        match typeNoneIndex ty 0 with
        | none => []
        | some k => [hit 168 node node (msg168 (if k == 0 then "type(None) | ..." else "... | type(None)")) (.outside "a union of classes: schematic advice, no row")]
      else match ty with
        | .tuple _ items =>
          (match items.findIdx? isTypeNoneCall with
           | none => []
           | some i => [hit 168 node node (msg168 (if i == 0 then "(type(None), ...)" else "(..., type(None))")) (.outside "a tuple of classes: schematic advice, no row")])
        | _ => []
    else []
  | _ => []

/-! #### FURB169 (builtin/no_is_type_none.py) -/

def row169 (oper : String) : Option Rule :=
  if oper == "is" then some r169_type_is_none else if oper == "==" then some r169_type_eq_none
  else if oper == "!=" then some r169_type_ne_none else if oper == "is not" then some r169_type_is_not_none else none

def match169 : Expr → List Hit
  | node@(.compare _ [oper] [.call _ (.name _ _ fn) [arg] kinds _, rhs]) =>
    if (oper == "is" || oper == "is not" || oper == "==" || oper == "!=") && fn == "builtins.type" && isTypeNoneCall rhs then
      let new := if oper == "is" || oper == "==" then "is" else "is not"
      [hit 169 node node s!"Replace `type({sfy arg}) {oper} type(None)` with `{sfy arg} {new} None`"
        (if kinds == [.pos] && isTypeNonePos rhs then
          match row169 oper with
          | some r => .row r [("x", arg)]
          | none => .outside "no row"
         else .outside "starred arguments: no row")]
    else []
  | _ => []

/-! #### FURB171 (iterable/no_single_item_in.py) -/

def match171 : Expr → List Hit
  | node@(.compare _ [oper] [lhs, c]) =>
    if oper == "in" || oper == "not in" then
      let newOper := if oper == "in" then "==" else "!="
      match c with
      | .tuple _ [item] =>
        [hit 171 node node s!"Replace `{sfy node}` with `{sfy lhs} {newOper} {sfy item}`"
          (if oper == "in" then .row r171_in_single [("x", lhs), ("y", item)] else .row r171_not_in_single [("x", lhs), ("y", item)])]
      | .list _ [item] =>
        [hit 171 node node s!"Replace `{sfy node}` with `{sfy lhs} {newOper} {sfy item}`"
          (if oper == "in" then .row r171_in_single_list [("x", lhs), ("y", item)] else .outside "`not in [y]`: no row")]
      | .set _ [item] =>
        [hit 171 node node s!"Replace `{sfy node}` with `{sfy lhs} {newOper} {sfy item}`" (.outside "a set display: not in the value universe")]
      | _ => []
    else []
  | _ => []

/-! #### FURB183 (readability/use_str_func.py): the `ignore` set is the `ign183` flag of `walk` -/

/-- CONVERSIONS of FURB119 (string/use_fstring_fmt.py): the functions FURB183 leaves to FURB119 -/
def funcs119 : List String := ["builtins.ascii", "builtins.bin", "builtins.chr", "builtins.format", "builtins.hex", "builtins.oct", "builtins.repr", "builtins.str"]

/-- `case CallExpr(callee=NameExpr(fullname=fn)) if fn in FURB_119_FUNCS: return` -/
def leftTo119 : Expr → Bool
  | .call _ (.name _ _ fn) _ _ _ => funcs119.contains fn
  | _ => false

def match183 : Expr → List Hit
  | node@(.call _ (.member _ (.str _ fmt) m _) [arg, .str _ spec] kinds names) =>
    if fmt == "{:{}}" && m == "format" && spec == "" then
      if leftTo119 arg then []
      else [hit 183 node node ("Replace `f\"{" ++ sfy arg ++ "}\"` with `str(" ++ sfy arg ++ ")`")
        (if kinds == [.pos, .pos] && names == [none, none] then .row r183_fstring [("x", arg)] else .outside "keyword arguments: no row")]
    else []
  | _ => []

/-- the first case of FURB183's `match`: `"".join([…])`, the f-string with several parts -/
def isJoinList : Expr → Bool
  | .call _ (.member _ (.str _ s) m _) [.list ..] _ _ => s == "" && m == "join"
  | _ => false

/-- the third case: `"{:{}}".format(_, spec)` with a `spec` that is not the literal `""` -/
def isFormatWithSpec : Expr → Bool
  | .call _ (.member _ (.str _ fmt) m _) [_, spec] _ _ =>
    fmt == "{:{}}" && m == "format" && !(match spec with | .str _ s => s == "" | _ => false)
  | _ => false

/-! #### FURB188 (string/remove_prefix_or_suffix.py), the conditional-expression form -/

/-- `RefExpr(fullname="builtins.len")` -/
def isLenRef : Expr → Bool
  | .name _ _ fn => fn == "builtins.len"
  | .member _ _ _ fn => fn == "builtins.len"
  | _ => false

/-- `does_expr_match_slice_amount(str_func, lhs, rhs)` -/
def sliceAmountOK (o : Oracle) (func : String) (arg : Expr) : Expr → Bool
  | .slice _ b e _ =>
    if func == "startswith" then
      (match arg, b, e with
        | .str _ v, .int _ n, .absent => (v.length : Int) == n
        | _, _, _ => false) ||
      (match b, e with
        | .call _ callee [lenArg] _ _, .absent => isLenRef callee && o.eqv arg lenArg
        | _, _ => false)
    else if func == "endswith" then
      (match arg, b, e with
        | .str _ v, .absent, .unary _ m (.int _ n) => m == "-" && (v.length : Int) == n
        | _, _, _ => false) ||
      (match b, e with
        | .absent, .unary _ m (.call _ callee [lenArg] _ _) => m == "-" && isLenRef callee && o.eqv arg lenArg
        | _, _ => false)
    else false
  | _ => false

/-- STR_FUNC_TO_REMOVE_FUNC (sorted) -/
def table188 : List (String × String) := [("endswith", "removesuffix"), ("startswith", "removeprefix")]

def verdict188 (fname : String) (x y sl : Expr) (fk : List ArgKind) (fnm : List (Option String)) : Verdict :=
  if fk == [.pos] && fnm == [none] then
    match sl with
    | .slice _ (.call _ (.name _ _ lf) [_] [.pos] [none]) .absent .absent =>
      if fname == "startswith" && lf == "builtins.len" then
        (if x.ann.ty.same == "str" && y.ann.ty.same == "str" then .row r188_removeprefix [("x", x), ("y", y)]
         else .row r188_removeprefix_any [("x", x), ("y", y)])
      else .outside "no row"
    | .slice _ .absent (.unary _ m (.call _ (.name _ _ lf) [_] [.pos] [none])) .absent =>
      if fname == "endswith" && m == "-" && lf == "builtins.len" then
        (if x.ann.ty.same == "str" && y.ann.ty.same == "str" then .row g188_removesuffix [("x", x), ("y", y)]
         else .outside "removesuffix on operands not annotated `str`: no row")
      else .outside "no row"
    | _ => .outside "a literal affix with a literal slice bound: no row"
  else .outside "starred or keyword arguments: no row"

def match188 (o : Oracle) : Expr → List Hit
  | node@(.cond _ (.index _ sliceLhs sl@(.slice _ _ _ .absent)) (.call _ (.member _ funcLhs fname _) [funcArg] fk fnm) ifFalse) =>
    if !o.py39 then []
    else if (fname == "endswith" || fname == "startswith") && o.eqv sliceLhs funcLhs && o.eqv funcLhs ifFalse
        && sliceAmountOK o fname funcArg sl then
      [hit 188 node node s!"Replace `{sfy node}` with `{sfy sliceLhs}.{(table188.lookup fname).getD ""}({sfy funcArg})`"
        (verdict188 fname sliceLhs funcArg sl fk fnm)]
    else []
  | _ => []

/-! #### FURB192 (builtin/no_sorted_min_max.py) -/

def isTrueLiteral : Expr → Bool
  | .name _ _ fn => fn == "builtins.True"
  | _ => false

/-- the loop over the keyword arguments: `(is_reversed, key)`, `none` when the check returns -/
def scan192 : List (Option String) → List Expr → Bool → String → Option (Bool × String)
  | n :: ns, a :: as, rev, key =>
    if n == some "reverse" then (if isTrueLiteral a then scan192 ns as true key else none)
    else if n == some "key" then scan192 ns as rev s!", key={sfy a}"
    else none
  | _, _, rev, key => some (rev, key)

/-- `index=IntExpr(value=0) | UnaryExpr(op="-", expr=IntExpr(value=1))`: is it the zero index? -/
def zeroIndex192 : Expr → Option Bool
  | .int _ v => if v == 0 then some true else none
  | .unary _ m (.int _ v) => if m == "-" && v == 1 then some false else none
  | _ => none

def verdict192 (arg1 : Expr) (args : List Expr) (kinds : List ArgKind) (n0 : Option String) (argNames : List (Option String))
    (isZero : Bool) : Verdict :=
  if arg1.ann.ty.same != "list" then .outside "operand not annotated `list`: no row"
  else if args.isEmpty && kinds == [.pos] && n0 == none && argNames.isEmpty then
    (if isZero then .row r192_sorted_0_ints [("x", arg1)] else .row g192_sorted_last [("x", arg1)])
  else if kinds == [.pos, .named] && n0 == none && argNames == [some "reverse"] && args.length == 1 then
    (if isZero then .row r192_sorted_rev_0_ints [("x", arg1)] else .row g192_sorted_rev_last [("x", arg1)])
  else .outside "a `key=` argument: outside the value semantics"

def match192 : Expr → List Hit
  | node@(.index _ (.call _ (.name _ _ fn) (arg1 :: args) kinds (n0 :: argNames)) idx) =>
    match zeroIndex192 idx with
    | some isZero =>
      if fn == "builtins.sorted" then
        match scan192 argNames args false "" with
        | some (isReversed, key) =>
          let func := if isZero == isReversed then "max" else "min"
          [hit 192 node node s!"Replace `{sfy node}` with `{func}({sfy arg1}{key})`" (verdict192 arg1 args kinds n0 argNames isZero)]
        | none => []
      else []
    | none => []
  | _ => []

/-! ### the traversal: which matcher sees which node -/

structure Ctx where
  /-- `SliceExprVisitor` (FURB145) does not get here: inside a lambda, an assignment target, a `del x[…]` -/
  no145 : Bool := false
  /-- FURB183's `ignore` set: inside the parts of another f-string -/
  ign183 : Bool := false

/-- FURB115 is registered for the nodes that HAVE a condition -/
def cond115 : Expr → List Hit
  | .cond _ _ c _ => walk115 c
  | .comp _ kind _ _ _ conds =>
    if kind == "GeneratorExpr" || kind == "DictionaryComprehension" then conds.flatMap walk115 else []
  | _ => []

/-- every check on one node -/
def here (o : Oracle) (c : Ctx) (e : Expr) : List Hit :=
  match108 o e ++ match109 e ++ match110 o e ++ match114 e ++ cond115 e ++ match121 o e ++ match123 e ++ match124 o e
    ++ match136 o e ++ match143 e ++ (if c.no145 then [] else match145 e) ++ match149 e ++ match161 o e ++ match168 e
    ++ match169 e ++ match171 e ++ (if c.ign183 then [] else match183 e) ++ match188 o e ++ match192 e

mutual
def walk (o : Oracle) (c : Ctx) : Expr → List Hit
  | .absent => []
  | e@(.member _ x _ _) => here o c e ++ walk o c x
  | e@(.call _ callee args _ _) =>
    let mark : Nat → Bool := fun i =>
      !c.ign183 && ((isJoinList e && i == 0) || (isFormatWithSpec e && i == 1))
    here o c e ++ walkArgs o c mark 0 args ++ walk o c callee
  | e@(.op _ _ l r) => here o c e ++ walk o c l ++ walk o c r
  | e@(.compare _ _ operands) => here o c e ++ walkList o c operands
  | e@(.unary _ _ x) => here o c e ++ walk o c x
  | e@(.cond _ t cnd f) => here o c e ++ walk o c cnd ++ walk o c t ++ walk o c f
  | e@(.index _ b i) => here o c e ++ walk o c b ++ walk o c i
  | e@(.slice _ b en s) => here o c e ++ walk o c b ++ walk o c en ++ walk o c s
  | e@(.list _ items) => here o c e ++ walkList o c items
  | e@(.tuple _ items) => here o c e ++ walkList o c items
  | e@(.set _ items) => here o c e ++ walkList o c items
  | e@(.dict _ ks vs) => here o c e ++ walkList o c ks ++ walkList o c vs
  | e@(.lambda _ body) => here o c e ++ walk o { c with no145 := true } body
  | e@(.comp _ _ elts idxs seqs conds) => here o c e ++ walkList o c seqs ++ walkList o c idxs ++ walkList o c conds ++ walkList o c elts
  | e@(.other _ _ ch) => here o c e ++ walkList o c ch
  | e => here o c e
def walkList (o : Oracle) (c : Ctx) : List Expr → List Hit
  | [] => []
  | x :: xs => walk o c x ++ walkList o c xs
def walkArgs (o : Oracle) (c : Ctx) (mark : Nat → Bool) : Nat → List Expr → List Hit
  | _, [] => []
  | i, x :: xs => walk o (if mark i then { c with ign183 := true } else c) x ++ walkArgs o c mark (i + 1) xs
end

/-- an expression hanging off a statement, with the role the statement gives it -/
def walkRoot (o : Oracle) (role : String) (e : Expr) : List Hit :=
  if role == "cond" then walk115 e ++ walk o {} e
  else if role == "lvalue" then walk o { no145 := true } e
  else if role == "del" then walk o { no145 := isIndexExpr e } e
  else if role == "for-iter" then
    (if isListExpr e then [hit 109 e e (msg109 "in") (.outside "a `for` statement over a list display (statement rule s109)")] else [])
      ++ walk o {} e
  else walk o {} e

end RefurbVerif.CheckAst
