"""C05 — type-conditioned diagnostics agree with the types mypy infers.

Lean: Props/C05.lean over Model/Types.lean (`_is_same_type`, `get_mypy_type`, `is_subclass`, FURB123) and
Generated/SimpleTypes.lean (`SIMPLE_TYPES`, `FUNC_NAME_MAPPING`, runtime values).

Probe programs: one prelude (the type universe) + one async generic function per operand expression E, whose body holds
  section A: E as a statement of its own (under its narrowing guard, if any), and
  section B: the twelve builtin constructors `T(E)` (FURB123) and 30 instantiations of 15 other type-conditioned checks
             (131, 145, 149, 143, 115, 185, 113, 132, 142, 102, 159, 130, 146, 155, 186, 187), one per line.
  thorough: every (E, instantiation) pair; quick: a first pass over the bare operands finds how refurb and mypy type
  each E, then the pairs whose required class is one of those (or that refurb's own is_same_type accepts) + a 6% sample.
Each file is linted by a fresh `python -m refurb FILE --enable-all` and, in a second fresh process, analysed by
`python -m harness.props.c05` (the worker below: refurb's own pipeline via harness/astjson.build_trees, mypy's
`result.types` kept), which serialises every expression node of section A (model expression + environment facts +
refurb's `get_mypy_type` answer + mypy's own type) and the operand of every statement of section B.

Correspondence (model = Lean driver, verbs `types_batch`, `same_batch`):
  1. model `getMypyType` on the serialised node == refurb's `get_mypy_type`, for every expression node of section A;
     model `isSameType`/`isMappingType`/`isSizedType`/`mypyTypeToPythonType` == the real helpers on that answer;
     for every section B statement: diagnostic present == model `furb123V` / `isSameType` / `isSubclass` on what
     `get_mypy_type` answered for its operand (only "emitted => qualifies" for the checks that also need is_equivalent).
  2. refurb's answer vs mypy's own type (`result.types`): on every node the model calls plain they must name the same
     class (resolver_sound_partial); on every node the model's reference `inferRef` must name mypy's class (Res vs mypy).
Oracle (the property, on the real implementation only, refurb's tables not consulted): for every diagnostic of a
type-conditioned check on a probe, mypy's own type of the operand must be exactly one of the classes that check is
about (after alias expansion an Instance of that class, a literal type of it; for tuple a tuple type whose fallback is
builtins.tuple; for the `is_subclass` checks an instance whose MRO contains the required class).  Each kind of
violation (check x cause) is replayed on a minimal file before it is reported.
"""

from __future__ import annotations

import json
import subprocess
import sys
from concurrent.futures import ThreadPoolExecutor
from pathlib import Path
from typing import Any

from .. import core

GENERATED = ["SimpleTypes"]

BUILTIN_NAMES = ["str", "bytes", "int", "float", "complex", "bool", "dict", "list", "tuple", "set", "function"]

# ------------------------------------------------------------------------------------------------------------
# the type universe

PRELUDE = '''\
import asyncio
import collections
import enum
import functools
import math
import os
import pathlib
import sys
from typing import (Any, Awaitable, Callable, Final, Generic, Literal, NamedTuple, NewType, Optional, TypedDict,
                    TypeVar, cast, overload)

T = TypeVar("T")


class MyInt(int):
    pass


class MyStr(str):
    pass


class MyList(list[int]):
    pass


class MyDict(dict[str, int]):
    pass


class MySet(set[int]):
    pass


class NT(NamedTuple):
    a: int
    b: str


class TD(TypedDict):
    k: int


class Color(enum.Enum):
    RED = 1
    GREEN = 2


class SE(enum.StrEnum):
    A = "a"


class IE(enum.IntEnum):
    ONE = 1


class User:
    attr: int = 0
    flag: bool = False
    name: str = ""
    ratio: float = 0.0
    items: list[int] = []
    table: dict[str, int] = {}
    tags: set[str] = set()
    pair: tuple[int, str] = (0, "")
    blob: bytes = b""
    myint: MyInt = MyInt()
    nt: NT = NT(0, "")
    ie: IE = IE.ONE
    opt: Optional[int] = None
    anyv: Any = None
    me: "User"

    def __init__(self) -> None:
        self.inst_attr = 1
        self.inst_list: list[str] = []

    def meth(self) -> str: ...
    def get_me(self) -> "User": ...
    def get_items(self) -> list[int]: ...
    def get_nt(self) -> NT: ...
    async def ameth(self) -> int: ...

    @property
    def prop(self) -> int: ...

    @staticmethod
    def smeth() -> int: ...

    @classmethod
    def cmeth(cls) -> int: ...

    def untyped(self):
        return 1

    def __add__(self, o: int) -> list[int]: ...
    def __radd__(self, o: int) -> set[int]: ...
    def __getitem__(self, i: int) -> bytes: ...
    def __neg__(self) -> float: ...
    def __invert__(self) -> "User": ...
    def __call__(self) -> complex: ...


class Box(Generic[T]):
    item: T

    def __init__(self, item: T) -> None:
        self.item = item

    def get(self) -> T: ...
    def as_list(self) -> list[T]: ...


class Mask:
    pass


class Vec:
    """element-wise comparisons (numpy / sqlalchemy style): the comparison methods do NOT return bool"""

    def __eq__(self, o: object) -> Mask: ...  # type: ignore[override]
    def __ne__(self, o: object) -> "int | str": ...  # type: ignore[override]
    def __lt__(self, o: "Vec") -> Mask: ...
    def __le__(self, o: "Vec") -> Any: ...
    def __gt__(self, o: "Vec") -> list[int]: ...
    def __ge__(self, o: "Vec") -> int: ...
    def __contains__(self, o: object) -> bool: ...
    def __pos__(self) -> bool: ...
    def __and__(self, o: "Vec") -> bool: ...
    def __matmul__(self, o: "Vec") -> str: ...


Alias = list[int]
Alias2 = Alias
AliasInt = int
AliasU = int | str
NI = NewType("NI", int)

v_bool: bool = True
v_int: int = 1
v_float: float = 1.0
v_complex: complex = 1j
v_str: str = ""
v_bytes: bytes = b""
v_bytearray: bytearray = bytearray()
v_list: list[int] = []
v_dict: dict[str, int] = {}
v_set: set[int] = set()
v_frozenset: frozenset[int] = frozenset()
v_tuple: tuple[int, str] = (1, "")
v_tuplev: tuple[int, ...] = (1,)
v_path: pathlib.Path = pathlib.Path()
v_user: User = User()
v_myint: MyInt = MyInt(1)
v_mystr: MyStr = MyStr("")
v_mylist: MyList = MyList()
v_mydict: MyDict = MyDict()
v_myset: MySet = MySet()
v_nt: NT = NT(1, "")
v_td: TD = {"k": 1}
v_any: Any = 1
v_opt: Optional[int] = None
v_union: int | str = 1
v_alias: Alias = []
v_alias2: Alias2 = []
v_aliasint: AliasInt = 1
v_aliasu: AliasU = 1
v_odict: collections.OrderedDict[str, int] = collections.OrderedDict()
v_ddict: collections.defaultdict[str, int] = collections.defaultdict(int)
v_counter: collections.Counter[str] = collections.Counter()
v_deque: collections.deque[int] = collections.deque()
v_ulist: list[int] | list[str] = []
v_udict: dict[str, int] | dict[str, str] = {}
v_unum: int | float = 1
v_ustrb: str | bytes = ""
v_ni: NI = NI(1)
v_lit: Literal[1] = 1
v_fin: Final = 1
v_finb: Final = True
v_fins: Final[str] = ""
v_color: Color = Color.RED
v_se: SE = SE.A
v_ie: IE = IE.ONE
v_obj: object = object()
v_box: Box[int] = Box(1)
v_type_int: type[int] = int
v_callable: Callable[[], int] = int
v_none: None = None
v_vec: Vec = Vec()
i_int = 3
i_str = "s"
i_float = 1.5
i_bool = True
i_list = [1, 2]
i_dict = {"a": 1}
i_set = {1}
i_tuple = (1, "a")
i_nt = NT(1, "")
i_user = User()
i_myint = MyInt(1)
i_color = Color.RED


def f_bool() -> bool: ...
def f_int() -> int: ...
def f_float() -> float: ...
def f_str() -> str: ...
def f_bytes() -> bytes: ...
def f_list() -> list[int]: ...
def f_dict() -> dict[str, int]: ...
def f_set() -> set[int]: ...
def f_tuple() -> tuple[int, str]: ...
def f_tuplev() -> tuple[int, ...]: ...
def f_nt() -> NT: ...
def f_user() -> User: ...
def f_myint() -> MyInt: ...
def f_mylist() -> MyList: ...
def f_any() -> Any: ...
def f_opt() -> Optional[int]: ...
def f_union() -> int | str: ...
def f_alias() -> Alias: ...
def f_none() -> None: ...
def f_path() -> pathlib.Path: ...
def f_lit() -> Literal[1]: ...
def f_ni() -> NI: ...
def f_ie() -> IE: ...
def f_t(x: T) -> T: ...
def f_apply(x: T, f: Callable[[T], Any]) -> None: ...
def f_listt(x: T) -> list[T]: ...


def u_f():
    return 1


def partial_f(x: int):
    return x


@functools.cache
def d_f() -> int: ...


def deco_to_str(fn: Callable[[], int]) -> Callable[[], str]: ...
def deco_untyped(fn): return fn
def deco_same(fn: Callable[[], T]) -> Callable[[], T]: ...


@deco_to_str
def d_str() -> int: ...


@deco_untyped
def d_any() -> int: ...


@deco_same
def d_same() -> int: ...


@deco_to_str
@functools.cache
def d_str2() -> int: ...


class Deco:
    @deco_to_str
    @staticmethod
    def sm() -> int: ...

    @functools.cached_property
    def cp(self) -> int: ...

    @deco_untyped
    def um(self) -> int: ...


v_deco: Deco = Deco()


class Req(Awaitable[bytes], Generic[T]):
    def __await__(self) -> Any: ...


class Fut2(Awaitable[T]):
    def __await__(self) -> Any: ...


class AwInt(Awaitable[int]):
    def __await__(self) -> Any: ...


v_req: Req[int] = Req()
v_req_s: Req[str] = Req()
v_fut2: Fut2[int] = Fut2()
v_awint: AwInt = AwInt()


@overload
def o_f(x: int) -> int: ...
@overload
def o_f(x: str) -> str: ...
def o_f(x: Any) -> Any: ...


async def co_int() -> int: ...
async def co_list() -> list[int]: ...
async def co_nt() -> NT: ...
async def co_user() -> User: ...
async def co_myint() -> MyInt: ...
async def co_t(x: T) -> T: ...
async def co_listt(x: T) -> list[T]: ...


if sys.version_info < (3, 0):
    dead_int: int = 1


'''

FUNC_HEADER = '''\
async def probes_@N@(t: T, p_int: int, p_str: str, p_obj: object, p_opt: Optional[int], p_union: int | str, p_list: list[int],
                 p_user: User, p_any: Any, p_mylist: MyList, p_set: set[int], p_float: float, p_bool: bool,
                 p_tuple: tuple[int, ...], p_dict: dict[str, int], p_box: Box[int], p_color: Color,
                 p_tupo: tuple[object, ...], q_list: list[int], q_mylist: MyList, q_tuple: tuple[int, ...], q_alias: Alias, q_any: Any) -> None:
    w_int: int = 0
    w_str: str = ""
    w_list: list[int] = []
    w_obj: object = None
    w_opt: Optional[int] = None
    task_int = asyncio.create_task(co_int())
    task_nt = asyncio.create_task(co_nt())
    aw_int: Awaitable[int] = co_int()
'''

# ------------------------------------------------------------------------------------------------------------
# the operand grammar.  An entry is (category, source, guard or None, is-lvalue).  `@W0@`, `@W1@` are fresh
# walrus targets (renamed per instantiation).

CONSTRUCTORS = ["bool", "int", "float", "complex", "str", "bytes", "bytearray", "list", "dict", "set", "frozenset", "tuple"]


def fixed_operands() -> list[tuple[str, str, str | None, bool]]:
    E: list[tuple[str, str, str | None, bool]] = []

    def add(cat: str, srcs: list[str], guard: str | None = None, lvalue: bool = False) -> None:
        for s in srcs:
            E.append((cat, s, guard, lvalue))

    add("literal", ["1", "1.5", "1j", '"s"', 'b"b"', "True", "False", "None", "...", "[1]", "[]", "{1: 2}", "{}", "{1}", "(1, 2)", "()",
                    '"a" "b"', "-1", "[*v_list]", "{**v_dict}", "(*v_tuplev,)"])
    add("fstring", ['f"{v_int}"', 'f"a{v_str}b"', 'f"{v_int!r:>5}"', 'f"{v_float:.2f}{v_int}"'])
    add("name-declared", ["v_bool", "v_int", "v_float", "v_complex", "v_str", "v_bytes", "v_bytearray", "v_list", "v_dict", "v_set",
                          "v_frozenset", "v_tuple", "v_tuplev", "v_path", "v_user", "v_myint", "v_mystr", "v_mylist", "v_mydict", "v_myset",
                          "v_nt", "v_td", "v_any", "v_opt", "v_union", "v_ulist", "v_udict", "v_unum", "v_ustrb", "v_odict", "v_ddict", "v_counter", "v_deque", "v_alias", "v_alias2", "v_aliasint", "v_aliasu", "v_ni", "v_lit",
                          "v_fin", "v_finb", "v_fins", "v_color", "v_se", "v_ie", "v_obj", "v_box", "v_type_int", "v_callable", "v_none",
                          "task_int", "aw_int"])
    add("name-inferred", ["i_int", "i_str", "i_float", "i_bool", "i_list", "i_dict", "i_set", "i_tuple", "i_nt", "i_user", "i_myint", "i_color"])
    add("name-param", ["t", "p_int", "p_str", "p_obj", "p_opt", "p_union", "p_any", "p_mylist", "p_float", "p_bool", "p_tuple", "p_box", "p_color"])
    add("name-param", ["p_list", "p_set", "p_dict"])
    add("name-param-assigned", ["q_list", "q_mylist", "q_tuple", "q_alias", "q_any"], lvalue=True)
    add("name-unresolved", ["undefined_name", "dead_int", "undefined_name.attr", "undefined_name()"])
    add("name-class-or-module", ["int", "str", "bool", "float", "list", "dict", "tuple", "bytes", "User", "MyInt", "NT", "Alias", "AliasInt", "os", "os.path", "pathlib.Path",
                                 "Color", "NI", "T", "f_int", "co_int", "len"])
    add("attr-module", ["os.sep", "os.environ", "os.name", "sys.maxsize", "sys.argv", "sys.platform", "math.pi", "os.path.sep", "sys.version_info", "os.curdir"])
    add("attr-class", ["User.attr", "User.items", "User.flag", "User.name", "User.pair", "User.nt", "User.myint", "User.ie", "User.meth", "MyInt.real",
                       "int.real", "str.upper"])
    add("attr-enum-member", ["Color.RED", "SE.A", "IE.ONE", "Color.RED.value", "Color.RED.name", "v_color.value", "v_ie.value", "v_se.value", "v_color.name"])
    add("attr-instance", ["v_user.attr", "v_user.flag", "v_user.name", "v_user.ratio", "v_user.tags", "v_user.pair", "v_user.blob", "v_user.myint",
                          "v_user.nt", "v_user.ie", "v_user.opt", "v_user.anyv", "v_user.me", "v_user.inst_attr", "v_user.prop", "v_user.meth",
                          "v_user.nope", "v_path.name", "v_path.parts", "v_path.parent", "v_nt.a", "v_nt.b", "v_int.real", "v_complex.imag", "v_box.item",
                          "v_any.x", "v_opt.real", "v_union.real", "v_myint.real", "i_user.attr", "v_user.me.attr", "v_user.me.me.items", "v_td.keys"])
    add("attr-instance", ["v_user.items", "v_user.table", "v_user.inst_list", "p_user.items", "p_user.me.items", "p_user.tags", "p_user.table"], lvalue=True)
    add("call-function", ["f_bool()", "f_int()", "f_float()", "f_str()", "f_bytes()", "f_list()", "f_dict()", "f_set()", "f_tuple()", "f_tuplev()", "f_nt()",
                          "f_user()", "f_myint()", "f_mylist()", "f_any()", "f_opt()", "f_union()", "f_alias()", "f_none()", "f_path()", "f_lit()", "f_ni()", "f_ie()",
                          "f_t(1)", "f_t(v_myint)", "f_listt(1)", "u_f()", "partial_f(1)", "d_f()", "d_str()", "d_any()", "d_same()", "d_str2()", "Deco.sm()", "v_deco.sm()", "v_deco.cp", "v_deco.um()", "d_str", "d_any", "o_f(1)", 'o_f("")', "co_int()", "v_callable()", "v_type_int()",
                          "len(v_list)", "sorted(v_list)", "abs(v_int)", "repr(v_int)", "ord('a')", "chr(1)", "isinstance(v_int, int)", "hash(1)", "id(1)",
                          "os.getcwd()", "os.fspath(v_path)", "math.floor(1.5)", "math.sqrt(2)", "max(1, 2)", "min(v_list)", "sum(v_list)", "round(1.5)", "divmod(1, 2)",
                          "reversed(v_list)", "enumerate(v_list)", "zip(v_list, v_list)", "range(3)", "iter(v_list)", "next(iter(v_list))", "input()", "v_user()"])
    add("call-class", ['int("1")', "int()", "str(1)", "str()", "list()", "list(v_tuplev)", "dict()", "dict(a=1)", "set()", "set(v_list)", "tuple()", "tuple(v_list)", "frozenset()",
                       "bytes()", "bytes(2)", "bytearray()", "bool(1)", "float(1)", "complex(1)", "User()", "MyInt(1)", 'MyStr("")', "MyList()", 'NT(1, "")', "NI(1)", "Color(1)",
                       "pathlib.Path()", 'pathlib.Path("x")', "Alias()", "AliasInt()", "Box(1)", "object()", "TD(k=1)", "IE(1)", "type(v_int)", "type(v_int)()"])
    add("call-method", ["v_user.meth()", "v_user.get_me()", "v_user.get_items()", "v_user.get_nt()", "v_user.smeth()", "v_user.cmeth()", "User.smeth()", "User.cmeth()", "v_user.untyped()",
                        "v_str.upper()", "v_str.split()", "v_str.encode()", "v_bytes.decode()", "v_list.copy()", "v_list.pop()", "v_list.index(1)", "v_dict.copy()", "v_dict.keys()",
                        "v_dict.get('a')", "v_dict.items()", "v_set.copy()", "v_set.union(v_set)", "v_int.bit_length()", "v_myint.bit_length()", "v_myint.conjugate()", '"".join([])',
                        '"a".upper()', "v_mystr.upper()", "v_mylist.copy()", "v_tuplev.count(1)", "v_box.get()", "v_box.as_list()", "v_path.exists()", "v_path.read_text()",
                        "v_path.with_suffix('.x')", "v_float.is_integer()", "v_float.hex()", "v_int.to_bytes(1, 'big')", "v_nt._asdict()", "v_nt._replace(a=1)", "v_alias.copy()",
                        "v_frozenset.copy()", "v_bytearray.copy()", "v_ulist.copy()", "v_udict.copy()", "v_ustrb.upper()", "v_user.me.get_me().meth()", "f_user().meth()", "f_list().copy()", "f_user().get_items()"])
    add("not", ["not v_int", "not v_user", "not v_any", "not undefined_name", "not (v_int and v_str)"])
    add("operator", ["v_int + v_int", "v_int + v_float", "v_float + v_int", "v_int / v_int", "v_int // v_int", "v_int % v_int", "v_str + v_str", "v_str * 2", "2 * v_str", "v_list + v_list",
                     "v_list * 2", "v_tuple + v_tuple", "v_tuplev + v_tuplev", "v_tuplev * 2", "(1, 2) * 2", "(1,) + (2,)", "[1] + [2]", "v_set | v_set", "v_set & v_set", "v_set - v_set",
                     "v_dict | v_dict", "v_frozenset | v_set", "v_set | v_frozenset", "v_myint + 1", "1 + v_myint", "v_myint + v_myint", "v_bool + v_bool", "v_bool & v_bool", "v_bool | v_bool",
                     "v_bool & v_int", "v_user + 1", "1 + v_user", "v_str % v_int", '"%d" % 1', "v_bytes + v_bytes", "v_bytes % v_int", "v_int ** 2", "v_int ** -1", "v_int ** v_int", "v_float ** 2",
                     "v_any + 1", "1 + v_any", "v_union + 1", "v_int + v_union", "v_opt + 1", "v_int << 1", "v_int ^ v_int", "v_mystr + v_str", "v_str + v_mystr", "v_mylist + v_list",
                     "v_list + v_mylist", "v_complex * 2", "v_int * v_complex", "v_path / 'x'", "'x' / v_path", "v_ie + 1", "v_se + 'x'", "v_alias + v_alias", "v_int @ v_int", "v_ulist + v_ulist", "v_ulist * 2", "v_unum + 1", "1 + v_unum", "v_ustrb * 2", "v_udict | v_udict"])
    add("bool-operator", ["v_int or v_str", "v_int and v_int", "v_int or v_int", "v_list or []", "v_opt or 0", "v_myint or v_int", "v_int and v_myint", "v_str and v_str", "v_any or 1"])
    add("comparison", ["v_int < v_int", "v_int == v_int", "v_int in v_list", "v_int is None", "v_int < v_int < v_int", "v_user == v_user", "v_str not in v_str",
                       # comparison methods that do not return bool: the type of the comparison is what the method returns
                       "v_vec == v_vec", "v_vec != v_vec", "v_vec < v_vec", "v_vec <= v_vec", "v_vec > v_vec", "v_vec >= v_vec", "v_vec == 1", "1 in v_vec",
                       "v_vec is v_vec", "v_vec < v_vec < v_vec", "+v_vec", "v_vec & v_vec", "v_vec @ v_vec", "not v_vec", "(v_vec == v_vec) is True"])
    add("unary", ["-v_int", "+v_int", "~v_int", "-v_float", "-v_bool", "~v_bool", "+v_bool", "-v_user", "~v_user", "-v_myint", "-v_any", "-v_complex", "-v_opt", "-v_union", "-i_int", "- -v_int", "-v_unum", "~v_aliasu"])
    add("index", ["v_list[0]", "v_list[0:1]", "v_list[:]", "v_str[0]", "v_str[0:1]", "v_bytes[0]", "v_bytes[0:1]", "v_dict['a']", "v_tuple[0]", "v_tuple[1]", "v_tuple[0:1]", "v_tuplev[0]", "v_tuplev[0:1]",
                  "v_nt[0]", "v_nt[0:1]", 'v_td["k"]', "v_user[0]", "v_any[0]", "v_alias[0]", "v_alias[0:1]", "v_mylist[0]", "v_mylist[0:1]", "v_bytearray[0]", "v_bytearray[0:1]", "v_mystr[0]",
                  "v_mystr[0:1]", "v_mydict['a']", "v_opt[0]", "v_union[0]", "sys.argv[0]", "os.environ['A']", "v_user.items[0]", "v_user.pair[0]", "list[int]", "v_list[v_int]", "v_path.parts[0]",
                  "v_box.as_list()[0]", "v_ulist[0]", "v_ulist[0:1]", "v_udict['a']", "v_ustrb[0:1]", "v_aliasu[0]", "v_opt[0:1]"])
    add("index", ["p_user.items[0:1]"])
    add("await", ["await co_int()", "await co_list()", "await co_nt()", "await co_user()", "await co_myint()", "await task_int", "await task_nt", "await co_t(1)", "await co_listt(1)", "await aw_int",
                  "await asyncio.sleep(0)", "await v_user.ameth()", "await asyncio.create_task(co_list())", "await v_any", "(await co_user()).attr", "(await co_user()).items",
                  "(await co_user()).meth()", "await asyncio.wait_for(co_int(), 1)",
                  # user-defined awaitables: the awaited type is NOT the last type argument in general
                  "await v_req", "await v_req_s", "await v_fut2", "await v_awint", "await asyncio.ensure_future(co_int())", "await asyncio.gather(co_int())"])
    add("lambda", ["lambda: 1", "(lambda: 1)()", "(lambda: v_list)()", "(lambda: v_nt)()", "(lambda: v_myint)()", "(lambda: v_any)()", "(lambda x: x)(1)", "(lambda x=1: x)()", "(lambda *a: 1)()",
                   "(lambda: f_int())()", "(lambda: [1])()", "(lambda: (1, 2))()", "(lambda: v_int + v_int)()", "(lambda: not v_int)()", "(lambda: v_user)().attr", "(lambda: lambda: 1)()()",
                   "(lambda: IE.ONE)()", "(lambda: (@W0@ := 1))()", "(lambda: v_int if v_bool else v_int)()", "(lambda: undefined_name)()"])
    add("walrus", ["(@W0@ := f_int())", "(@W0@ := v_myint)", "(@W0@ := [1])", "(@W0@ := v_nt)", "(@W0@ := v_list)", "(@W0@ := v_any)", "(@W0@ := v_opt)", "(@W0@ := 1)", "(@W0@ := v_user).attr",
                   "(@W0@ := (@W1@ := f_int()))", "(@W0@ := v_int if v_bool else v_int)", "(@W0@ := IE.ONE)", "(@W0@ := await co_int())"])
    add("walrus-declared-target", ["(w_int := v_myint)", "(w_int := v_bool)", "(w_int := v_int)", "(w_int := IE.ONE)", "(w_int := f_myint())", "(w_str := v_mystr)", "(w_str := v_str)", "(w_str := SE.A)",
                                   "(w_list := v_mylist)", "(w_list := [1])", "(w_list := f_mylist())", "(w_obj := 1)", "(w_opt := 1)", "(w_int := (@W0@ := v_myint))", "(w_int := True)",
                                   "(w_int := v_any)"])
    add("cast", ["cast(int, v_any)", "cast(MyInt, v_any)", "cast(list[int], v_any)", 'cast("int", v_any)', "cast(Alias, v_any)", "cast(NT, v_any)", "cast(Any, v_int)", "cast(int | str, v_any)",
                 "cast(tuple[int, str], v_any)", "cast(bool, v_int)", "cast(User, v_any).items", "cast(Optional[int], v_any)", "cast(Literal[1], v_any)", "cast(dict, v_any)", "cast(T, v_any)"])
    add("conditional", ["v_int if v_bool else v_int", "v_int if v_bool else v_str", "v_int if v_bool else v_myint", "[1] if v_bool else []"])
    add("comprehension", ["[x for x in v_list]", "{x for x in v_list}", "{x: x for x in v_list}", "(x for x in v_list)", "[x for x in v_list if x]"])
    # narrowing: the guard is an enclosing `if`
    add("narrowed", ["p_int"], "isinstance(p_int, bool)")
    add("narrowed", ["p_int", "p_int + 1", "-p_int"], "isinstance(p_int, MyInt)")
    add("narrowed", ["p_str", "p_str.upper()"], "isinstance(p_str, MyStr)")
    add("narrowed", ["p_obj"], "isinstance(p_obj, int)")
    add("narrowed", ["p_obj"], "isinstance(p_obj, (list, tuple))")
    add("narrowed", ["p_opt"], "p_opt is not None")
    add("narrowed", ["p_opt"], "p_opt")
    add("narrowed", ["p_union"], "isinstance(p_union, int)")
    add("narrowed", ["p_union"], "not isinstance(p_union, int)")
    add("narrowed", ["p_list", "p_list.copy()", "p_list[0:1]"], "isinstance(p_list, MyList)")
    add("narrowed", ["p_any"], "isinstance(p_any, int)")
    add("narrowed", ["p_any"], "isinstance(p_any, str)")
    add("narrowed", ["p_user.attr", "p_user.me.attr"], "isinstance(p_user.attr, bool) and isinstance(p_user.me.attr, MyInt)")
    add("narrowed", ["p_user.opt"], "p_user.opt is not None")
    add("narrowed", ["p_user.items"], "isinstance(p_user.items, MyList)")
    add("narrowed", ["p_float"], "isinstance(p_float, int)")
    add("narrowed", ["p_tupo"], "isinstance(p_tupo, NT)")
    add("unreachable-by-narrowing", ["p_int", "p_int + 1", "1"], "isinstance(p_int, str)")
    add("narrowed", ["p_set"], "isinstance(p_set, MySet)")
    add("narrowed", ["p_dict", "p_dict.copy()"], "isinstance(p_dict, MyDict)")
    add("narrowed", ["p_bool"], "p_bool is True")
    add("narrowed", ["p_color"], "p_color is Color.RED")
    add("narrowed", ["t"], "isinstance(t, int)")
    add("narrowed", ["(@W0@ := p_int)"], "isinstance(p_int, bool)")
    add("narrowed", ["w_obj"], "isinstance(w_obj, str)")
    return E


USER_BASES = ["v_user", "p_user", "i_user", "f_user()", "User()", "cast(User, v_any)", "v_user.me", "(await co_user())"]
USER_STEPS = ["{U}.me", "{U}.get_me()", "(lambda: {U})()", "(@W@ := {U})", "(~{U})", "cast(User, {U})", "f_t({U})", "(await co_t({U}))"]
USER_LEAVES = ["{U}.attr", "{U}.flag", "{U}.name", "{U}.ratio", "{U}.items", "{U}.table", "{U}.tags", "{U}.pair", "{U}.blob", "{U}.myint", "{U}.nt", "{U}.ie", "{U}.opt", "{U}.anyv",
               "{U}.inst_attr", "{U}.inst_list", "{U}.meth()", "{U}.get_items()", "{U}.get_nt()", "(await {U}.ameth())", "{U}.prop", "{U}.smeth()", "{U}.cmeth()", "{U}.untyped()",
               "{U} + 1", "1 + {U}", "{U}[0]", "-{U}", "not {U}", "{U}()", "{U}.items.copy()", "{U}.items[0]", "{U}.items[0:1]", "{U}.table.copy()", "{U}.tags.copy()",
               "{U}.name.upper()", "{U}.nt.a", "{U}.pair[0]", "{U}.myint + 1", "-{U}.attr", "{U}.attr + {U}.attr", "(lambda: {U}.items)()", "(@W@ := {U}.myint)", "(w_int := {U}.myint)",
               "(w_int := {U}.flag)", "(w_list := {U}.items)", "{U}.nt[0]", "{U}.get_nt()._replace(a=1)", "{U}.ie.value", "{U}.ie + 1", "{U}.blob[0:1]", "{U}.name[0]", "{U}.name + {U}.name",
               "{U}.ratio + 1", "{U}.table['a']", "{U}.tags | {U}.tags", "{U}.items + {U}.items", "{U}.pair + {U}.pair", "{U}.flag and {U}.flag", "{U}.items if {U}.flag else {U}.items"]


def random_operands(rng: Any, n: int, max_depth: int) -> list[tuple[str, str, str | None, bool]]:
    out: list[tuple[str, str, str | None, bool]] = []
    seen: set[str] = set()
    tries = 0
    while len(out) < n and tries < n * 20:
        tries += 1
        depth = rng.randint(1, max_depth)
        u = rng.choice(USER_BASES)
        k = 0
        for _ in range(depth - 1):
            step = rng.choice(USER_STEPS)
            if "@W@" in step:
                step = step.replace("@W@", f"@W{k}@")
                k += 1
            u = step.replace("{U}", u)
        leaf = rng.choice(USER_LEAVES)
        if "@W@" in leaf:
            leaf = leaf.replace("@W@", f"@W{k}@")
            k += 1
        if leaf.count("{U}") > 1 and "@W" in u:
            continue  # a fresh walrus target must be assigned once per expression
        src = leaf.replace("{U}", u)
        if src in seen:
            continue
        seen.add(src)
        out.append((f"composed-depth{depth}", src, None, False))
    return out


# ------------------------------------------------------------------------------------------------------------
# the other type-conditioned checks: (code, key, lines with {E}, path to the operand from the statement on the first
# line, requirement, lvalue-only).  A requirement is ("exact", [class fullnames]) or ("subclass", [class fullnames]).

B = "builtins."
TEMPLATES: list[tuple[int, str, list[str], list[Any], tuple[str, list[str]], str]] = [
    (131, "del", ["del {E}[:]"], ["expr", "base"], ("exact", [B + "list"]), ""),
    (145, "slice-copy", ["@R@ = {E}[:]"], ["rvalue", "base"], ("exact", [B + "bytearray", B + "list", B + "tuple"]), ""),
    (149, "is-true", ["@R@ = {E} is True"], ["rvalue", "operands", 0], ("exact", [B + "bool"]), ""),
    (149, "eq-false", ["@R@ = {E} == False"], ["rvalue", "operands", 0], ("exact", [B + "bool"]), ""),
    (143, "or-list", ["@R@ = {E} or []"], ["rvalue", "left"], ("exact", [B + "list"]), ""),
    (143, "or-dict", ["@R@ = {E} or {}"], ["rvalue", "left"], ("exact", [B + "dict"]), ""),
    (143, "or-tuple", ["@R@ = {E} or ()"], ["rvalue", "left"], ("exact", [B + "tuple"]), ""),
    (143, "or-str", ['@R@ = {E} or ""'], ["rvalue", "left"], ("exact", [B + "str"]), ""),
    (143, "or-bytes", ['@R@ = {E} or b""'], ["rvalue", "left"], ("exact", [B + "bytes"]), ""),
    (143, "or-int", ["@R@ = {E} or 0"], ["rvalue", "left"], ("exact", [B + "int"]), ""),
    (143, "or-float", ["@R@ = {E} or 0.0"], ["rvalue", "left"], ("exact", [B + "float"]), ""),
    (143, "or-bool", ["@R@ = {E} or False"], ["rvalue", "left"], ("exact", [B + "bool"]), ""),
    (143, "or-set", ["@R@ = {E} or set()"], ["rvalue", "left"], ("exact", [B + "set"]), ""),
    (143, "or-frozenset", ["@R@ = {E} or frozenset()"], ["rvalue", "left"], ("exact", [B + "frozenset"]), ""),
    (115, "eq-list", ["@R@ = 1 if {E} == [] else 2"], ["rvalue", "cond", "operands", 0], ("exact", [B + "list"]), ""),
    (115, "eq-dict", ["@R@ = 1 if {E} == {} else 2"], ["rvalue", "cond", "operands", 0], ("exact", [B + "dict"]), ""),
    (115, "eq-tuple", ["@R@ = 1 if {E} != () else 2"], ["rvalue", "cond", "operands", 0], ("exact", [B + "tuple"]), ""),
    (115, "eq-set", ["@R@ = 1 if {E} == set() else 2"], ["rvalue", "cond", "operands", 0], ("exact", [B + "set"]), ""),
    (115, "len", ["@R@ = 1 if len({E}) == 0 else 2"], ["rvalue", "cond", "operands", 0, "args", 0], ("subclass", ["typing.Sized", "typing.Collection"]), ""),
    (185, "copy-merge", ["@R@ = {E}.copy() | {}"], ["rvalue", "left", "callee", "expr"], ("exact", [B + "dict", B + "set", "os._Environ"]), ""),
    (113, "append", ["{E}.append(1)", "{E}.append(2)"], ["expr", "callee", "expr"], ("exact", [B + "list"]), "dup"),
    (132, "discard", ["if 1 in {E}:", "    {E}.remove(1)"], ["expr", 0, "operands", 1], ("exact", [B + "set"]), "dup"),
    (142, "set-loop", ["for @R@ in (1, 2):", "    {E}.add(@R@)"], ["body", "body", 0, "expr", "callee", "expr"], ("exact", [B + "set"]), ""),
    (102, "startswith", ['@R@ = {E}.startswith("a") or {E}.startswith("b")'], ["rvalue", "left", "callee", "expr"], ("exact", [B + "str", B + "bytes"]), "dup"),
    (159, "strip", ["@R@ = {E}.lstrip().rstrip()"], ["rvalue", "callee", "expr", "callee", "expr"], ("exact", [B + "str"]), ""),
    (130, "in-keys", ["@R@ = 1 in {E}.keys()"], ["rvalue", "operands", 1, "callee", "expr"], ("subclass", ["typing.Mapping"]), ""),
    (146, "isfile", ["@R@ = os.path.isfile({E})"], ["rvalue", "args", 0], ("exact", ["pathlib.Path", B + "str", B + "bytes"]), ""),
    (155, "getsize", ["@R@ = os.path.getsize({E})"], ["rvalue", "args", 0], ("exact", ["pathlib.Path", B + "str", B + "bytes"]), ""),
    # FURB190: the lambda's parameter takes the operand's type from the calling context (T of f_apply); `lambda t_: t_.upper()` ->
    # `str.upper` is only justified for exactly str
    (190, "str-method", ["f_apply({E}, lambda t_: t_.upper())"], ["expr", "args", 1, "body", "body", 0, "expr", "callee", "expr"], ("exact", [B + "str"]), ""),
    # assignments to the operand come last: with refurb's `allow_redefinition` they may re-type the name for what follows
    (186, "sorted", ["{E} = sorted({E})"], ["rvalue", "args", 0], ("exact", [B + "list"]), "dup lvalue"),
    (187, "reversed", ["{E} = reversed({E})"], ["rvalue", "args", 0], ("exact", [B + "list"]), "dup lvalue"),
]

# path from the statement to the node the diagnostic is reported at (`Error.from_node`), per template key
REPORT_PATH: dict[str, list[Any]] = {'del': [], 'slice-copy': ['rvalue'], 'is-true': ['rvalue'], 'eq-false': ['rvalue'], 'eq-list': ['rvalue', 'cond'], 'eq-dict': ['rvalue', 'cond'], 'eq-tuple': ['rvalue', 'cond'], 'eq-set': ['rvalue', 'cond'], 'len': ['rvalue', 'cond'], 'copy-merge': ['rvalue', 'left'], 'append': [], 'discard': [], 'set-loop': [], 'startswith': ['rvalue', 'left', 'args', 0], 'strip': ['rvalue'], 'in-keys': ['rvalue', 'operands', 1], 'isfile': ['rvalue'], 'getsize': ['rvalue'], 'sorted': [], 'reversed': []}
REPORT_PATH["str-method"] = ["expr", "args", 1]
# what the CHECK passes to is_same_type where that differs from what the property requires (FURB190 also accepts "unknown" and Any)
MODEL_EXPECTED: dict[str, list[dict[str, str]]] = {"str-method": [{"e": "type", "name": "str"}, {"e": "none"}, {"e": "any"}]}
REPORT_PATH.update({k: ["rvalue"] for k in ["or-list", "or-dict", "or-tuple", "or-str", "or-bytes", "or-int", "or-float", "or-bool", "or-set", "or-frozenset"]})

# what the model must say about the operand for the diagnostic to be emitted (index into EXPECTED_LIST / helper)
EXPECTED_LIST: list[dict[str, str]] = (
    [{"e": "type", "name": n} for n in CONSTRUCTORS]
    + [{"e": "named", "name": "os._Environ"}, {"e": "named", "name": "pathlib.Path"}, {"e": "any"}, {"e": "none"}]
)


def expected_index(fullname: str) -> int:
    if fullname.startswith(B):
        return CONSTRUCTORS.index(fullname[len(B):])
    return next(i for i, e in enumerate(EXPECTED_LIST) if e.get("name") == fullname and e["e"] == "named")


# ------------------------------------------------------------------------------------------------------------
# building a probe file


class ProbeFile:
    """source text + what is where"""

    def __init__(self, name: str) -> None:
        self.name = name
        self.lines: list[str] = PRELUDE.split("\n")
        if self.lines[-1] == "":
            self.lines.pop()
        self.a_lines: dict[int, int] = {}  # line -> operand index
        self.b: dict[int, dict[str, Any]] = {}  # line of the diagnostic -> probe description
        self.counter = 0

    def fresh(self, src: str) -> str:
        self.counter += 1
        out = src
        k = 0
        while f"@W{k}@" in out:
            out = out.replace(f"@W{k}@", f"w{self.counter}_{k}")
            k += 1
        return out.replace("@R@", f"r{self.counter}")

    def emit(self, guard: str | None, stmts: list[list[str]]) -> list[int]:
        """append statements (each a list of lines) under the guard; returns the 1-based first line of each"""
        ind = "    "
        if not stmts:
            return []
        if guard:
            self.lines.append(f"{ind}if {guard}:")
            ind += "    "
        firsts = []
        for st in stmts:
            firsts.append(len(self.lines) + 1)
            for ln in st:
                self.lines.append(ind + ln)
        return firsts

    def add_operand(self, idx: int, op: tuple[str, str, str | None, bool], want: Any = None) -> None:
        """section A statement for the operand, then the section B statements `want(desc)` selects (None: no section B)"""
        cat, src, guard, lvalue = op
        # one function per operand: mypy's cost per function grows faster than linearly with its length, and
        # assignments / narrowing done by one operand's statements must not reach the next operand
        self.lines += FUNC_HEADER.replace("@N@", str(idx)).rstrip("\n").split("\n")
        (line,) = self.emit(guard, [[self.fresh(f"({src})")]])
        self.a_lines[line] = idx
        if want is None:
            self.lines += ["", ""]
            return
        stmts: list[list[str]] = []
        descs: list[dict[str, Any]] = []
        for t in FURB123_CALLEES:
            d = {"code": 123, "key": t, "path": ["expr", "args", 0], "rpath": ["expr"], "req": ["exact", FURB123_REQ[t]], "callee": t, "flags": ""}
            if want(d):
                stmts.append([self.fresh(f"{t}({src})")])
                descs.append(d)
        for code, key, tmpl, path, req, flags in TEMPLATES:
            if "lvalue" in flags and not lvalue:
                continue
            d = {"code": code, "key": key, "path": path, "rpath": REPORT_PATH[key], "req": list(req), "flags": flags}
            if want(d):
                # the operand is parenthesised (mypy's tree has no parentheses) unless it is an assignment target
                stmts.append(self.fresh("\n".join(tmpl).replace("{E}", src if "lvalue" in flags else f"({src})")).split("\n"))
                descs.append(d)
        firsts = self.emit(guard, stmts)
        for ln, st, d in zip(firsts, stmts, descs):
            self.b[ln] = {**d, "operand": idx, "stmt": st, "guard": guard}
        self.lines += ["", ""]

    def text(self) -> str:
        return "\n".join(self.lines) + "\n"


FURB123_CALLEES: list[str] = []
FURB123_REQ: dict[str, list[str]] = {}


def load_furb123_table() -> None:
    """the constructors probed as `T(E)`, and what the PROPERTY requires of E for FURB123 on each: exactly class T
    (refurb's own FUNC_NAME_MAPPING is deliberately not consulted: the oracle must not inherit its mistakes).
    `dict(os.environ)` -> `os.environ.copy()` is the one documented exception (`_Environ.copy()` returns a dict)."""
    FURB123_CALLEES.clear()
    FURB123_REQ.clear()
    for c in CONSTRUCTORS:
        FURB123_CALLEES.append(c)
        FURB123_REQ[c] = [B + c] + (["os._Environ"] if c == "dict" else [])


# ------------------------------------------------------------------------------------------------------------
# the worker (fresh process): refurb's pipeline + mypy's own types -> JSON


def worker_main() -> None:  # pragma: no cover  (runs in a subprocess)
    spec = json.loads(Path(sys.argv[1]).read_text())
    sys.setrecursionlimit(20000)
    import mypy.nodes as N
    import mypy.types as MT
    from refurb.checks import common
    from refurb.visitor import TraverserVisitor
    from refurb.visitor.mapping import METHOD_NODE_MAPPINGS

    from harness import astjson

    files = list(spec["files"])
    built = astjson.build_trees(files)
    types = built["types"] or {}
    from refurb import types as rtypes

    if not built["trees"]:
        Path(sys.argv[2]).write_text(json.dumps({"errors": built["errors"] or ["no tree"], "files": {f: {"missing": True} for f in files}, "ctx": {"classes": [], "modules": [], "builtins": []}}))
        return

    classes: dict[str, Any] = {}
    modules: dict[str, Any] = {}

    def reg_class(info: Any) -> None:
        if info.fullname not in classes:
            classes[info.fullname] = info
            for x in info.mro:
                reg_class(x)

    def ty(t: Any, depth: int = 0) -> Any:
        if t is None:
            return None
        if depth > 12:
            return {"t": "other"}
        rec = lambda x: ty(x, depth + 1)  # noqa: E731
        if isinstance(t, MT.TypeAliasType):
            return {"t": "alias", "target": rec(t.alias.target) if t.alias else None}
        if isinstance(t, MT.Instance):
            reg_class(t.type)
            return {"t": "inst", "name": t.type.fullname, "args": [rec(a) for a in t.args]}
        if isinstance(t, MT.TupleType):
            reg_class(t.partial_fallback.type)
            return {"t": "tuple", "items": [rec(a) for a in t.items], "fallback": t.partial_fallback.type.fullname}
        if isinstance(t, MT.AnyType):
            return {"t": "any"}
        if isinstance(t, MT.NoneType):
            return {"t": "none"}
        if isinstance(t, MT.UnionType):
            return {"t": "union", "items": [rec(a) for a in t.items]}
        if isinstance(t, MT.CallableType):
            return {"t": "callable", "ret": rec(t.ret_type)}
        if isinstance(t, MT.TypeVarType):
            return {"t": "typevar"}
        if isinstance(t, MT.LiteralType):
            return {"t": "literal", "base": rec(t.fallback)}
        if isinstance(t, MT.UninhabitedType):
            return {"t": "uninhabited"}
        if isinstance(t, MT.TypedDictType):
            reg_class(t.fallback.type)
            return {"t": "typeddict", "fallback": t.fallback.type.fullname}
        return {"t": "other"}

    def val(v: Any) -> Any:
        if v is None:
            return None
        if isinstance(v, N.TypeInfo):
            reg_class(v)
            return {"t": "typeinfo", "name": v.fullname}
        if isinstance(v, N.TypeAlias):
            return {"t": "typealias", "target": ty(v.target)}
        if isinstance(v, N.MypyFile):
            modules[v.fullname] = v
            return {"t": "module", "name": v.fullname}
        if isinstance(v, MT.Type):
            return ty(v)
        return {"t": "unexpected", "cls": type(v).__name__}

    def sym(node: Any) -> Any:
        if isinstance(node, N.Var):
            return {"s": "var", "ty": ty(node.type)}
        if isinstance(node, N.FuncDef):
            return {"s": "func", "ty": ty(node.type)}
        if isinstance(node, N.OverloadedFuncDef):
            return {"s": "overloaded"}
        if isinstance(node, N.Decorator):
            return {"s": "decorator"}
        if isinstance(node, N.TypeInfo):
            reg_class(node)
            return {"s": "info", "name": node.fullname}
        if isinstance(node, N.TypeAlias):
            return {"s": "alias", "target": ty(node.target)}
        if isinstance(node, N.MypyFile):
            modules[node.fullname] = node
            return {"s": "module", "name": node.fullname}
        return {"s": "other", "cls": type(node).__name__}

    def expand(t: Any) -> Any:
        n = 0
        while isinstance(t, MT.TypeAliasType) and t.alias is not None and n < 20:
            t = t.alias.target
            n += 1
        return t

    def key(t: Any) -> Any:
        t = expand(t)
        if isinstance(t, MT.Instance):
            return ("inst", t.type.fullname)
        if isinstance(t, MT.TupleType):
            return ("tuple", t.partial_fallback.type.fullname)
        if isinstance(t, MT.UnionType):
            return ("union", tuple(sorted(str(key(x)) for x in t.items)))
        if isinstance(t, MT.LiteralType):
            return ("literal", key(t.fallback))
        return (type(t).__name__,)

    def enum_members(info: Any) -> list[str]:
        if not info.is_enum:
            return []
        return [n for n, s in info.names.items() if isinstance(s.node, N.Var) and not n.startswith("_") and s.node.has_explicit_value]

    def narrowed(n: Any) -> Any:
        """binder fact: mypy's type at this reference when it names another class than the declaration"""
        m = types.get(n)
        if m is None:
            return None
        if isinstance(n, N.MemberExpr):
            recv = common.get_mypy_type(n.expr)
            if isinstance(recv, N.TypeInfo) and n.name in enum_members(recv):
                return None
        decl = common.get_mypy_type(n)
        if not isinstance(decl, MT.Type):
            return None
        if isinstance(n, N.MemberExpr) and not isinstance(expand(decl), (MT.Instance, MT.TupleType, MT.UnionType, MT.NoneType)):
            return None  # declared with a type variable / Any / callable: instantiation, not narrowing
        return ty(m) if key(decl) != key(m) else None

    def mexpr(n: Any) -> Any:
        if isinstance(n, N.StrExpr):
            return {"k": "str"}
        if isinstance(n, N.BytesExpr):
            return {"k": "bytes"}
        if isinstance(n, N.IntExpr):
            return {"k": "int"}
        if isinstance(n, N.FloatExpr):
            return {"k": "float"}
        if isinstance(n, N.ComplexExpr):
            return {"k": "complex"}
        if isinstance(n, N.NameExpr):
            return {"k": "name", "fullname": n.fullname or "", "node": sym(n.node) if n.node is not None else None, "narrowed": narrowed(n)}
        if isinstance(n, N.DictExpr):
            return {"k": "dict"}
        if isinstance(n, N.ListExpr):
            return {"k": "list"}
        if isinstance(n, N.TupleExpr):
            return {"k": "tuple"}
        if isinstance(n, N.SetExpr):
            return {"k": "set"}
        if isinstance(n, N.MemberExpr):
            return {"k": "member", "e": mexpr(n.expr), "name": n.name, "narrowed": narrowed(n)}
        if isinstance(n, N.CallExpr):
            if isinstance(n.analyzed, N.CastExpr):
                return {"k": "cast", "ty": ty(n.analyzed.type)}
            return {"k": "call", "callee": mexpr(n.callee)}
        if isinstance(n, N.UnaryExpr):
            return {"k": "unary", "op": n.op, "mt": ty(n.method_type)}
        if isinstance(n, N.OpExpr):
            return {"k": "op", "op": n.op, "mt": ty(n.method_type)}
        if isinstance(n, N.IndexExpr):
            base_t = types.get(n.base)
            return {"k": "index", "base": mexpr(n.base), "mt": ty(n.method_type), "base_union": isinstance(MT.get_proper_type(base_t), MT.UnionType) if base_t is not None else False}
        if isinstance(n, N.AwaitExpr):
            return {"k": "await", "e": mexpr(n.expr)}
        if isinstance(n, N.LambdaExpr):
            body = n.body.body
            if len(body) == 1 and isinstance(body[0], N.ReturnStmt) and body[0].expr is not None:
                return {"k": "lambda", "body": mexpr(body[0].expr)}
            return {"k": "lambda_other"}
        if isinstance(n, N.AssignmentExpr):
            return {"k": "walrus", "target": mexpr(n.target), "value": mexpr(n.value)}
        return {"k": "other", "cls": type(n).__name__}

    expected_objs = []
    import typing

    for e in spec["expected"]:
        if e["e"] == "type":
            expected_objs.append(getattr(__import__("builtins"), e["name"]))
        elif e["e"] == "named":
            expected_objs.append(e["name"])
        elif e["e"] == "any":
            expected_objs.append(typing.Any)
        else:
            expected_objs.append(None)

    def pytype(v: Any) -> Any:
        from harness.extract_c05 import expected_to_json

        p = common.mypy_type_to_python_type(v)
        return None if p is None else expected_to_json(p)

    def describe(n: Any, full: bool) -> dict[str, Any]:
        try:
            got = common.get_mypy_type(n)
            d: dict[str, Any] = {"ty": val(got)}
        except Exception as e:  # noqa: BLE001
            got = None
            d = {"ty": {"t": "raised", "cls": type(e).__name__}}
        m = types.get(n)
        d["mty"] = ty(m)
        d["mty_last_known"] = bool(isinstance(m, MT.Instance) and m.last_known_value is not None)
        d["kind"] = type(n).__name__
        d["line"], d["col"] = n.line, n.column
        try:
            d["str"] = common.stringify(n)
        except Exception:  # noqa: BLE001
            d["str"] = None
        if full:
            d["e"] = mexpr(n)
            d["same"] = [bool(common.is_same_type(got, x)) for x in expected_objs]
            try:
                d["mapping"] = bool(common.is_mapping_type(got))
                d["sized"] = bool(common.is_sized_type(got))
            except Exception as e:  # noqa: BLE001
                d["mapping"] = d["sized"] = f"raised {type(e).__name__}"
            d["pytype"] = pytype(got)
        return d

    out: dict[str, Any] = {"errors": built["errors"], "files": {}}
    member_names: set[str] = set()
    for path in files:
        tree = built["trees"].get(path)
        fs = spec["files"][path]
        if tree is None:
            out["files"][path] = {"missing": True}
            continue
        a_lines = {int(k) for k in fs["a_lines"]}
        b_paths = {int(k): v for k, v in fs["b"].items()}
        nodes: list[Any] = []
        stmts: dict[int, Any] = {}

        class Walk(TraverserVisitor):
            """refurb's own traversal, with every visit method wrapped so that each node is seen on entry"""

            def __init__(self) -> None:
                self.in_a = 0
                for name in METHOD_NODE_MAPPINGS:
                    if name in ("visit_func", "visit_var"):
                        continue
                    setattr(self, name, self.wrap(getattr(TraverserVisitor, name)))

            def wrap(self, base: Any) -> Any:
                def inner(o: Any) -> None:
                    if isinstance(o, N.Statement) and not isinstance(o, N.Block):
                        stmts.setdefault(o.line, o)
                    if isinstance(o, N.MemberExpr):
                        member_names.add(o.name)
                    is_root = isinstance(o, N.ExpressionStmt) and o.line in a_lines
                    if is_root:
                        self.in_a += 1
                        roots[id(o.expr)] = o.line
                    if self.in_a and isinstance(o, N.Expression) and id(o) not in seen_ids:
                        seen_ids.add(id(o))
                        nodes.append(o)
                    base(self, o)
                    if is_root:
                        self.in_a -= 1

                return inner

        seen_ids: set[int] = set()
        roots: dict[int, int] = {}
        Walk().accept(tree)
        recs = []
        for n in nodes:
            d = describe(n, True)
            if id(n) in roots:
                d["root"] = roots[id(n)]
            recs.append(d)
        ops: dict[int, Any] = {}
        def follow(cur: Any, path_: list[Any]) -> Any:
            for step in path_:
                cur = cur[step] if isinstance(step, int) else getattr(cur, step)
            return cur

        for line, (path_, rpath_) in b_paths.items():
            try:
                ops[line] = describe(follow(stmts.get(line), path_), False)
                rep = follow(stmts.get(line), rpath_)
                ops[line]["rep"] = [rep.line, rep.column]
            except Exception as e:  # noqa: BLE001
                ops[line] = {"error": f"{type(e).__name__}: {e}", "stmt": type(stmts.get(line)).__name__}
        out["files"][path] = {"nodes": recs, "ops": ops}

    # environment tables (after everything has been serialised, to a fixpoint)
    names = sorted(member_names)
    done_c: dict[str, Any] = {}
    done_m: dict[str, Any] = {}
    while True:
        todo_c = [k for k in classes if k not in done_c]
        todo_m = [k for k in modules if k not in done_m]
        if not todo_c and not todo_m:
            break
        for k in todo_c:
            info = classes[k]
            done_c[k] = {
                "name": k,
                "mro": [x.fullname for x in info.mro],
                "names": [[n, sym(info.names[n].node)] for n in names if n in info.names and info.names[n].node is not None],
                "is_enum": bool(info.is_enum),
                "enum_members": enum_members(info),
                "special_ctor": bool(info.typeddict_type is not None or k == "builtins.type"),
            }
        for k in todo_m:
            mod = modules[k]
            done_m[k] = {"name": k, "names": [[n, sym(mod.names[n].node)] for n in names if n in mod.names and mod.names[n].node is not None]}
    bt = rtypes.BUILTINS_MYPY_FILE
    out["ctx"] = {
        "classes": list(done_c.values()),
        "modules": list(done_m.values()),
        "builtins": [[n, sym(bt.names[n].node)] for n in spec["builtin_names"] if n in bt.names and bt.names[n].node is not None],
    }
    Path(sys.argv[2]).write_text(json.dumps(out))


def run_worker(cwd: Path, spec: dict[str, Any], tag: str, timeout: int = 900) -> dict[str, Any]:
    env = core.py_env()
    env["PYTHONPATH"] = str(core.VERIF) + (":" + env["PYTHONPATH"] if env.get("PYTHONPATH") else "")
    (cwd / f"_spec_{tag}.json").write_text(json.dumps(spec))
    p = subprocess.run(
        [core.PY, "-m", "harness.props.c05", f"_spec_{tag}.json", f"_out_{tag}.json"], cwd=cwd, capture_output=True, text=True, timeout=timeout, env=env
    )
    if p.returncode != 0:
        raise RuntimeError("C05 worker failed: " + p.stderr[-3000:])
    return json.loads((cwd / f"_out_{tag}.json").read_text())


# ------------------------------------------------------------------------------------------------------------
# comparing types


def expand_alias(t: Any) -> Any:
    n = 0
    while isinstance(t, dict) and t.get("t") == "alias" and t.get("target") is not None and n < 30:
        t = t["target"]
        n += 1
    return t


def cls_of(t: Any) -> str | None:
    """class named by a serialised type after alias expansion (an instance's class, a tuple type's fallback)"""
    t = expand_alias(t)
    if not isinstance(t, dict):
        return None
    if t.get("t") == "inst":
        return t["name"]
    if t.get("t") in ("tuple", "typeddict"):
        return t["fallback"]
    return None


def kind_of(t: Any) -> str:
    if t is None:
        return "unresolved"
    t = expand_alias(t)
    k = t.get("t")
    if k == "inst":
        return "inst:" + t["name"]
    if k == "tuple":
        return "tuple:" + t["fallback"]
    if k == "typeddict":
        return "other"
    return str(k)


def exactly(mty: Any, req: list[Any], mro_of: dict[str, list[str]]) -> bool:
    """the property's notion: mypy's own type is exactly (an instance of) one of the required classes"""
    mode, names = req
    t = expand_alias(mty)
    if not isinstance(t, dict):
        return False
    if t.get("t") == "literal":
        t = expand_alias(t["base"])
    if mode == "exact":
        if t.get("t") == "inst":
            return t["name"] in names
        if t.get("t") == "tuple":
            return t["fallback"] == "builtins.tuple" and "builtins.tuple" in names
        return False
    c = cls_of(t)
    return c is not None and any(n in mro_of.get(c, []) for n in names)


def strip(t: Any) -> Any:
    """canonical form for model-vs-implementation comparison (the model has one constructor `other` for every kind
    of type it does not distinguish; key order is irrelevant)"""
    if isinstance(t, dict):
        if t.get("t") == "typeddict":
            return {"t": "other"}
        return {k: strip(v) for k, v in sorted(t.items())}
    if isinstance(t, list):
        return [strip(x) for x in t]
    return t


SYNTACTIC = {"IntExpr", "StrExpr", "BytesExpr", "FloatExpr", "ComplexExpr", "DictExpr", "ListExpr", "TupleExpr", "SetExpr"}


# ------------------------------------------------------------------------------------------------------------


def all_operands(ctx: Any) -> list[tuple[str, str, str | None, bool]]:
    load_furb123_table()
    rng = ctx.rng("operands")
    ops = fixed_operands() + random_operands(rng, 150 if ctx.quick else 2500, 4 if ctx.quick else 7)
    return [op for op in ops if valid_syntax(op[1])]


def build_files(ops: list[Any], nfiles: int, prefix: str, want_for: Any) -> list[ProbeFile]:
    files = [ProbeFile(f"{prefix}{i}.py") for i in range(nfiles)]
    for i, op in enumerate(ops):
        files[i % nfiles].add_operand(i, op, want_for(i) if want_for else None)
    return files


def analyse_files(d: Path, files: list[ProbeFile], lint: bool) -> tuple[list[Any], list[Any]]:
    """every file: a fresh `python -m refurb` (if `lint`) and a fresh worker process, 16 at a time"""
    for pf in files:
        (d / pf.name).write_text(pf.text())

    def do_lint(pf: ProbeFile) -> tuple[int, str, str]:
        return core.refurb_cli([pf.name, "--enable-all", "--quiet"], cwd=d, timeout=1200)

    def do_analyse(pf: ProbeFile) -> dict[str, Any]:
        spec = {
            "files": {pf.name: {"a_lines": sorted(pf.a_lines), "b": {str(k): [v["path"], v["rpath"]] for k, v in pf.b.items()}}},
            "expected": EXPECTED_LIST,
            "builtin_names": BUILTIN_NAMES,
        }
        return run_worker(d, spec, pf.name[:-3], timeout=1200)

    with ThreadPoolExecutor(16) as ex:
        ana_f = [ex.submit(do_analyse, pf) for pf in files]
        lint_f = [ex.submit(do_lint, pf) for pf in files] if lint else []
        return [f.result() for f in lint_f], [f.result() for f in ana_f]


def relevant(info: dict[str, Any], desc: dict[str, Any], mro_of: dict[str, list[str]]) -> bool:
    """could this check have anything to say about an operand that refurb / mypy type like this?  (first pass: the
    real is_same_type / is_mapping_type / is_sized_type verdicts on refurb's answer, and the class mypy gives)"""
    mode, names = desc["req"]
    if desc["code"] == 190:
        return True  # one instantiation: tried with every operand
    if mode == "exact" and any(info["same"][expected_index(c)] for c in names):
        return True
    if mode == "subclass" and (info["mapping"] is True if desc["code"] == 130 else info["sized"] is True):
        return True
    cands: set[str] = set()
    for t in (info["ty"], info["mty"]):
        t = expand_alias(t)
        if not isinstance(t, dict):
            continue
        if t.get("t") == "literal":
            t = expand_alias(t["base"])
        if t.get("t") == "typeinfo":
            cands.add(t["name"])
        if t.get("t") == "tuple":
            cands.add("builtins.tuple")
        c = cls_of(t)
        if c:
            cands.add(c)
    if mode == "exact":
        return any(c in names for c in cands)
    return any(n in mro_of.get(c, []) for c in cands for n in names)


def valid_syntax(src: str) -> bool:
    """an operand must compile inside an async function (e.g. no `await` inside a lambda)"""
    import re

    try:
        compile("async def _f():\n    (" + re.sub(r"@W(\d)@", r"w_\1", src) + ")\n", "<operand>", "exec")
    except SyntaxError:
        return False
    return True


def minimal_file(desc: dict[str, Any]) -> str:
    pf = ProbeFile("replay.py")
    pf.lines += FUNC_HEADER.replace("@N@", "0").rstrip("\n").split("\n")
    pf.emit(desc.get("guard"), [desc["stmt"]])
    return pf.text()


def run(ctx: Any) -> None:
    res = ctx.res
    ops = all_operands(ctx)
    rate = 0.06 if ctx.quick else 1.0
    res.rule = (
        "operand expressions E: a fixed list over the grammar (literals, f-strings, declared/inferred/parameter/unresolved/unreachable names, class and "
        "module names, module/class/enum/instance attributes, calls of functions/classes/methods, not, binary/boolean/comparison/unary operators, "
        "indexing, await, lambdas, walrus with fresh and with declared targets, cast, conditional, comprehensions, references narrowed by an enclosing "
        "`if`) over a prelude universe (12 builtins, subclasses of int/str/list/dict/set, NamedTuple, TypedDict, three enums, NewType, Literal, Final, "
        "aliases and alias chains, Any, Optional, union, TypeVar, generic class, pathlib.Path, os.environ) + random compositions (receiver chains of depth "
        "<= 4 quick / 7 thorough through attributes, calls, await, lambda calls, walrus, cast, unary operators). A case is (E, check instantiation): the 12 "
        "builtin constructors `T(E)` (FURB123) and 30 instantiations of 15 other type-conditioned checks; thorough: all pairs, quick: every pair whose "
        "required class is the class refurb or mypy gives E (found by a first pass over the bare operands) + a 6% sample of the others. Non-trivial = the "
        "diagnostic was emitted, or refurb/mypy typed the operand with a class the check asks for, or refurb and mypy disagree on the operand; distinct = "
        "distinct (E, guard, instantiation)."
    )
    with core.scratch("rv-c05-") as d:
        want_for: Any
        if rate < 1.0:
            # first pass: bare operands only -> how refurb and mypy type each of them
            pre = build_files(ops, 6, "c05_pre_", None)
            _, pre_ana = analyse_files(d, pre, lint=False)
            info: dict[int, dict[str, Any]] = {}
            mro_of: dict[str, list[str]] = {}
            for pf, ana in zip(pre, pre_ana):
                mro_of.update({c["name"].replace(pf.name[:-3] + ".", "@."): [x.replace(pf.name[:-3] + ".", "@.") for x in c["mro"]] for c in ana["ctx"]["classes"]})
                for n in ana["files"][pf.name].get("nodes", []):
                    if "root" in n:
                        info[pf.a_lines[n["root"]]] = json.loads(
                            json.dumps({"ty": n["ty"], "mty": n["mty"], "same": n["same"], "mapping": n["mapping"], "sized": n["sized"]}).replace(pf.name[:-3] + ".", "@.")
                        )
            pick = ctx.rng("sample")

            def want_for(i: int) -> Any:
                return lambda desc: (i in info and relevant(info[i], desc, mro_of)) or pick.random() < rate
        else:
            def want_for(i: int) -> Any:
                return lambda desc: True
        files = build_files(ops, 8 if ctx.quick else 64, "c05_probe_", want_for)
        lints, anas = analyse_files(d, files, lint=True)

    reqs = []
    for pf, ana in zip(files, anas):
        fd = ana["files"][pf.name]
        reqs.append({"verb": "types_batch", **ana["ctx"], "expected": EXPECTED_LIST, "callees": [B + c for c in FURB123_CALLEES], "exprs": [n["e"] for n in fd.get("nodes", [])]})
        items = []
        for line, desc in pf.b.items():
            op = fd.get("ops", {}).get(str(line)) or {}
            v = op.get("ty")
            if desc["code"] == 123:
                items.append({"v": v, "mode": "furb123", "callee": B + desc["callee"]})
            else:
                items.append({"v": v, "mode": desc["req"][0], "expected": MODEL_EXPECTED.get(desc["key"]) or [to_expected(c) for c in desc["req"][1]]})
        reqs.append({"verb": "same_batch", **ana["ctx"], "items": items})
    models: list[Any] = [None] * len(files)
    verdicts: list[Any] = [None] * len(files)
    if ctx.driver.available():
        ans = ctx.driver.batch(reqs, timeout=1200)
        models = [a.get("r") for a in ans[0::2]]
        verdicts = [a.get("r") for a in ans[1::2]]
    else:
        res.disagreements.append({"where": "driver", "reason": "driver executable not built"})

    seen_viol: dict[str, dict[str, Any]] = {}
    for pf, (rc, out, err), ana, model, verdict in zip(files, lints, anas, models, verdicts):
        fd = ana["files"][pf.name]
        if fd.get("missing") or ana["errors"] or err.strip():
            res.disagree("probe file did not lint cleanly", {"file": pf.name}, None, {"errors": ana["errors"][:3], "stderr": err[-300:], "rc": rc})
            continue
        diags, other = core.parse_plain(out)
        if other:
            res.disagree("unexpected refurb output", {"file": pf.name}, None, other[:3])
        at = {(dg["code"], dg["line"], dg["col"]) for dg in diags}
        mro_of = {c["name"]: c["mro"] for c in ana["ctx"]["classes"]}
        enums = {c["name"]: c["enum_members"] for c in ana["ctx"]["classes"] if c["enum_members"]}
        nodes = fd["nodes"]
        root_node: dict[int, Any] = {}

        # ---- brackets 1 and 2 on every expression node of section A
        for i, n in enumerate(nodes):
            m = model[i] if model else None
            res.bump("nodes")
            res.bump("node-kind:" + n["kind"])
            if "root" in n:
                root_node[pf.a_lines[n["root"]]] = n
            if n["ty"] is not None and n["ty"].get("t") in ("raised", "unexpected"):
                res.disagree("get_mypy_type raised / returned an unexpected object", {"file": pf.name, "expr": n["str"], "line": n["line"]}, None, n["ty"])
                continue
            is_sym = (n["ty"] or {}).get("t") in ("typeinfo", "typealias", "module")
            if m is not None:
                if strip(m["ty"]) != strip(n["ty"]):
                    res.disagree("get_mypy_type", {"file": pf.name, "line": n["line"], "expr": n["str"], "model_expr": n["e"]}, m["ty"], n["ty"])
                for fld in ("same", "mapping", "sized", "pytype"):
                    if m[fld] != n[fld]:
                        res.disagree(f"helper {fld} on get_mypy_type's answer", {"file": pf.name, "line": n["line"], "expr": n["str"], "ty": n["ty"]}, m[fld], n[fld])
            tcls, mcls = (None if is_sym else cls_of(n["ty"])), cls_of(n["mty"])
            if n["mty"] is not None and isinstance(expand_alias(n["mty"]), dict) and expand_alias(n["mty"]).get("t") == "literal":
                mcls = cls_of(expand_alias(n["mty"])["base"])
            if tcls is not None and n["mty"] is not None:
                agree = tcls == mcls
                res.bump("resolver-vs-mypy:" + ("same-class" if agree else "different-class"))
                if m is not None:
                    if m["plain"] and not agree:
                        res.disagree(
                            "resolver vs mypy on a plain expression (resolver_sound_partial predicts agreement)",
                            {"file": pf.name, "line": n["line"], "expr": n["str"], "kind": n["kind"]}, {"plain": True, "ty": kind_of(n["ty"])}, {"mty": kind_of(n["mty"])},
                        )
                    if not m["plain"]:
                        res.bump("non-plain-nodes")
            if m is not None and n["mty"] is not None:
                rcls = cls_of(m["ref"]) if (m["ref"] or {}).get("t") not in ("typeinfo", "typealias", "module") else None
                if rcls is not None:
                    res.bump("reference-vs-mypy")
                    if rcls != mcls:
                        res.disagree(
                            "reference inference (inferRef / Res) vs mypy's own type", {"file": pf.name, "line": n["line"], "expr": n["str"], "kind": n["kind"]},
                            {"ref": kind_of(m["ref"])}, {"mty": kind_of(n["mty"])},
                        )

        # ---- section B: correspondence of the diagnostics with the model, and the oracle
        for k, (line, desc) in enumerate(pf.b.items()):
            idx = desc["operand"]
            cat, src, guard, _lv = ops[idx]
            op = fd["ops"].get(str(line)) or {}
            req = desc["req"]
            if "error" in op or not op:
                res.disagree("operand of a probe statement not found", {"file": pf.name, "line": line, "stmt": desc["stmt"]}, None, op)
                continue
            emitted = (desc["code"], op["rep"][0], op["rep"][1] + 1) in at
            is_sym = (op["ty"] or {}).get("t") in ("typeinfo", "typealias", "module")
            ty_ok = False if is_sym else exactly(op["ty"], req, mro_of)
            mty_ok = exactly(op["mty"], req, mro_of)
            differ = kind_of(op["ty"]) != kind_of(op["mty"])
            res.case((src, guard, desc["code"], desc["key"]), nontrivial=emitted or ty_ok or mty_ok or differ)
            res.bump(f"FURB{desc['code']}:" + ("emitted" if emitted else "silent"))
            if emitted:
                res.bump("emitted:" + cat)
            # correspondence: the model's verdict on what get_mypy_type answered for the operand predicts the diagnostic
            # (checks that mention the operand twice also need is_equivalent — C06 — so only "emitted => qualifies" there)
            if verdict is not None:
                want = verdict[k]
                if (want != emitted) if "dup" not in desc["flags"] else (emitted and not want):
                    res.disagree(
                        f"FURB{desc['code']} ({desc['key']}): diagnostic vs the model's verdict on the operand",
                        {"file": pf.name, "line": line, "stmt": desc["stmt"], "guard": guard, "operand_ty": op["ty"]}, {"emits": want}, {"emits": emitted},
                    )
            if not emitted:
                continue
            # the oracle
            ok = mty_ok
            if not ok and op["mty"] is None and op["kind"] in SYNTACTIC and ty_ok:
                ok = True  # a literal display in code mypy skipped: its class is fixed by the syntax
                res.bump("oracle:literal-in-unchecked-code")
            if ok:
                continue
            cause = classify(op, root_node.get(idx), enums)
            sig = {"check": f"FURB{desc['code']}", "cause": cause}
            if cause.startswith("other") or desc["code"] == 190:
                mod = pf.name[:-3] + "."
                sig.update({"refurb": kind_of(op["ty"]).replace(mod, ""), "mypy": kind_of(op["mty"]).replace(mod, "")})
            key = json.dumps(sig, sort_keys=True)
            res.bump("violation:" + cause)
            if key not in seen_viol or len(src) < len(seen_viol[key]["src"]):
                seen_viol[key] = {"sig": sig, "src": src, "desc": desc, "op": op, "opnd": ops[idx], "diag": [x for x in diags if x["line"] == op["rep"][0] and x["code"] == desc["code"]]}
        for sn in nodes[:1]:
            res.sample({"expr": sn["str"], "kind": sn["kind"], "refurb": kind_of(sn["ty"]), "mypy": kind_of(sn["mty"])}, limit=4)
        for line, desc in list(pf.b.items())[:1]:
            res.sample({"stmt": desc["stmt"], "guard": desc["guard"], "check": desc["code"], "emitted": any(c == desc["code"] and ln == line for c, ln, _ in at)}, limit=8)

    # ---- replay each kind of violation on a minimal file (fresh process), then report it
    if seen_viol:
        with core.scratch("rv-c05r-") as d:
            items2 = list(seen_viol.values())

            def confirm(i: int) -> tuple[int, str, str]:
                sub = d / f"r{i}"
                sub.mkdir()
                (sub / "replay.py").write_text(minimal_file(items2[i]["desc"]))
                return core.refurb_cli(["replay.py", "--enable-all", "--quiet"], cwd=sub)

            with ThreadPoolExecutor(16) as ex:
                outs = list(ex.map(confirm, range(len(items2))))
        for it, (rc, out, err) in zip(items2, outs):
            desc, op = it["desc"], it["op"]
            text = minimal_file(desc)
            code = desc["code"]
            got = [ln for ln in out.split("\n") if f"[FURB{code}]" in ln]
            what = (
                f"FURB{code} is emitted for `{' / '.join(desc['stmt'])}`" + (f" under `if {desc['guard']}:`" if desc["guard"] else "")
                + f" although mypy infers {kind_of(op['mty'])} for the operand `{it['src']}` (refurb's resolver: {kind_of(op['ty'])}); required: {desc['req'][0]} {desc['req'][1]}"
                + f" [{it['sig']['cause']}]"
            )
            res.violate(
                what, it["sig"],
                {
                    "files": {"replay.py": text}, "argv": ["replay.py", "--enable-all", "--quiet"],
                    "observed": got or it["diag"], "reproduced_on_minimal_file": bool(got),
                    "required": f"no FURB{code} diagnostic on the last statement: mypy's own type of the operand is {kind_of(op['mty'])}, not {desc['req']}",
                    "mypy_type": op["mty"], "refurb_type": op["ty"],
                    "how": "write replay.py into an empty directory and run `python -m refurb replay.py --enable-all --quiet`; `reveal_type(<operand>)` at that place shows mypy's type",
                },
            )
    res.bump("files", len(files))
    res.bump("operands", len(ops))
    for cat in sorted({o[0] for o in ops}):
        res.bump("operand-category:" + cat, sum(1 for o in ops if o[0] == cat))
    res.assumptions += [
        "mypy's own opinion is what `result.types` (export_types) holds for the operand node after refurb's own build; narrowing facts given to the reference model are read off the same table",
        "a literal type (`Literal[True]`, an enum literal) counts as exactly its fallback class",
        "a literal display (int/str/bytes/float/complex/list/dict/set/tuple literal) in code mypy did not check (unreachable) counts as typed by its syntax",
        "type-variable instantiation is not modelled: an uninstantiated variable (`typeVar`) names no class, and instantiation never changes the class of an instance type",
        "mypy special-cases the one-argument `type(x)`: the reference makes no claim about it (refurb answers `builtins.type`, no check asks for that class)",
    ]
    res.not_proved += [
        "that mypy's checker computes `Res` (the reference relation): validated by comparison with result.types on the generated programs only",
        "the syntactic side conditions of the checks other than FURB123 (is_equivalent, argument shapes): only their type condition is modelled",
    ]
    res.trusted_extra += [
        "harness/props/c05.py worker: serialisation of mypy nodes/types/symbol tables into the model's JSON (class tables restricted to the member names that occur in the file)",
        "harness/astjson.build_trees (shared): runs refurb's pipeline with export_types switched on",
    ]


def to_expected(fullname: str) -> dict[str, str]:
    """a required class as the `expected` argument the check passes to is_same_type / is_subclass"""
    if fullname.startswith(B):
        return {"e": "type", "name": fullname[len(B):]}
    return {"e": "named", "name": fullname}


def classify(op: dict[str, Any], root: Any, enums: dict[str, list[str]]) -> str:
    """why refurb's view of the operand differs from mypy's — names the failing input class"""
    ty, mty = op["ty"], op["mty"]
    if (ty or {}).get("t") == "typeinfo":
        return "class-object-operand"
    mt = expand_alias(mty)
    if isinstance(mt, dict) and mt.get("t") == "tuple" and mt["fallback"] != "builtins.tuple" and kind_of(ty) == kind_of(mty):
        return "namedtuple-as-tuple"
    if root is not None:
        why = nonplain_reason(root["e"], enums)
        if why:
            return why
    if mty is None:
        return "code-mypy-deems-unreachable"
    return "other:" + op["kind"]


def nonplain_reason(e: Any, enums: dict[str, list[str]]) -> str | None:
    """the innermost construct on which the resolver departs from the reference (mirrors `Plain` in Props/C05.lean)"""
    k = e.get("k")
    for child in ("e", "callee", "body", "value", "base"):
        if isinstance(e.get(child), dict):
            r = nonplain_reason(e[child], enums)
            if r:
                return r
    if k in ("name", "member") and e.get("narrowed") is not None:
        return "narrowed-reference"
    if k == "index" and e.get("base_union"):
        return "subscript-of-union"
    return None


def replay(path: Any) -> int:
    data = json.loads(Path(path).read_text())
    rp = data.get("replay", {})
    if "files" not in rp:
        print(json.dumps(data, indent=1))
        return 0
    with core.scratch("rv-c05p-") as d:
        for name, text in rp["files"].items():
            (d / name).write_text(text)
        rc, out, err = core.refurb_cli(rp["argv"], cwd=d)
    print(out)
    print(err, file=sys.stderr)
    code = data["signature"]["check"]
    hit = [ln for ln in out.split("\n") if f"[{code}]" in ln]
    print(("REPRODUCED: " if hit else "not reproduced: ") + data["what"])
    return 1 if hit else 0


if __name__ == "__main__":  # pragma: no cover
    worker_main()
