HEAD = '''/-
C01 — suggested rewrites preserve the behaviour of the code they replace.

For each value-level rule of Model/Rules.lean: for EVERY assignment of values of the declared types
to the operands, the old and the new expression have the same observable outcome (same value with
the same type, or both raise) — `Sound`.  Where the rewrite is unsound on another part of the domain
its check accepts, the refuting variant is proved `¬ Sound` from a concrete witness.  Operands are
variables bound to values (pure, never raising).  Checks whose behaviour lives in the standard
library, the OS or user classes have no theorem (listed under not_proved in the evidence): C01 is partial.
-/
import RefurbVerif.Model.Rules
import RefurbVerif.Generated.C01Tables

namespace RefurbVerif.C01
open RefurbVerif.Py

def Val.hasNaN : Val → Bool
  | .sc s => s.isNaN
  | .list xs => xs.any Scalar.isNaN
  | .tuple xs => xs.any Scalar.isNaN

/-- every operand variable is bound to a value of exactly its declared class (`none`: any scalar) -/
def WellTyped (r : Rule) (σ : Env) : Prop :=
  ∀ p ∈ r.vars, ∃ v, σ p.1 = some v ∧
    (match p.2 with
     | some t => typeOf v = t
     | none => ∃ s, v = .sc s)

/-- no operand is (or contains) a NaN: the domain on which the model's equality-based `in` is Python's
    `in` (which tests identity first — the recorded NaN finding) -/
def NaNFree (r : Rule) (σ : Env) : Prop := ∀ p ∈ r.vars, ∀ v, σ p.1 = some v → Val.hasNaN v = false

/-- what the property compares: the value (or, in condition position, its truth value), or "raised" -/
def observe (r : Rule) (res : Except Err Val) : Option Val :=
  if r.condPos then (outcome res).map (fun v => vBool (truthy v)) else outcome res

def Sound (r : Rule) : Prop :=
  ∀ σ, WellTyped r σ → NaNFree r σ → observe r (eval σ r.old) = observe r (eval σ r.new)

/-! ### helpers -/

theorem of_int {v : Val} (h : typeOf v = .int) : ∃ i, v = .sc (.int i) := by
  cases v with
  | sc s => cases s <;> simp [typeOf] at h; exact ⟨_, rfl⟩
  | list _ => simp [typeOf] at h
  | tuple _ => simp [typeOf] at h
theorem of_bool {v : Val} (h : typeOf v = .bool) : ∃ b, v = .sc (.bool b) := by
  cases v with
  | sc s => cases s <;> simp [typeOf] at h; exact ⟨_, rfl⟩
  | list _ => simp [typeOf] at h
  | tuple _ => simp [typeOf] at h
theorem of_str {v : Val} (h : typeOf v = .str) : ∃ s, v = .sc (.str s) := by
  cases v with
  | sc s => cases s <;> simp [typeOf] at h; exact ⟨_, rfl⟩
  | list _ => simp [typeOf] at h
  | tuple _ => simp [typeOf] at h
theorem of_float {v : Val} (h : typeOf v = .float) : ∃ f, v = .sc (.flt f) := by
  cases v with
  | sc s => cases s <;> simp [typeOf] at h; exact ⟨_, rfl⟩
  | list _ => simp [typeOf] at h
  | tuple _ => simp [typeOf] at h
theorem of_list {v : Val} (h : typeOf v = .list) : ∃ xs, v = .list xs := by
  cases v with
  | sc s => cases s <;> simp [typeOf] at h
  | list xs => exact ⟨xs, rfl⟩
  | tuple _ => simp [typeOf] at h
theorem of_tuple {v : Val} (h : typeOf v = .tuple) : ∃ xs, v = .tuple xs := by
  cases v with
  | sc s => cases s <;> simp [typeOf] at h
  | list _ => simp [typeOf] at h
  | tuple xs => exact ⟨xs, rfl⟩

macro "py_simp" : tactic => `(tactic| simp [observe, outcome, eval, x, y, z, lInt, lTrue, lFalse, lNone, lStrEmpty, lListEmpty, lTupleEmpty,
  vBool, vInt, vNone, Bind.bind, Except.bind, pure, Except.pure, pyEq, pyIn, pyIs, pyLen, pyLt, sLt, cmpLe, pyMin2, pyMax2, scalarOf,
  truthy, Scalar.truthy, Scalar.num?, Scalar.isNaN, isInstance, typeOf, *])

/-- what `==` looks at: the numeric value, None, the text, or "NaN" -/
inductive Norm where
  | num (z : Int) | none | str (s : List Char) | nan
  deriving DecidableEq

def norm : Scalar → Norm
  | .none => .none
  | .bool b => .num (if b then 1 else 0)
  | .int i => .num i
  | .flt .nan => .nan
  | .flt .negZero => .num 0
  | .flt (.whole z) => .num z
  | .str s => .str s

theorem sEq_norm (a b : Scalar) : sEq a b = (decide (norm a = norm b) && decide (norm a ≠ .nan)) := by
  cases a <;> cases b <;> simp [sEq, Scalar.num?, norm] <;>
    (try (rename_i f g; cases f <;> cases g <;> simp [sEq, Scalar.num?, norm])) <;>
    (try (rename_i f; cases f <;> simp [sEq, Scalar.num?, norm])) <;>
    (try (first | exact beq_eq_decide _ _ | (rw [Bool.eq_iff_iff]; simp) | omega))

/-- `==` is substitutive on the left once it holds (NaN included: NaN equals nothing) -/
theorem sEq_trans_left (a b c : Scalar) (h : sEq a b = true) : sEq a c = sEq b c := by
  rw [sEq_norm] at h
  simp only [Bool.and_eq_true, decide_eq_true_eq] at h
  rw [sEq_norm, sEq_norm, h.1]

theorem strLt_asymm : ∀ a b : List Char, strLt a b = true → strLt b a = false := by
  intro a
  induction a with
  | nil => intro b _; cases b <;> simp [strLt]
  | cons c cs ih =>
    intro b h
    cases b with
    | nil => simp [strLt] at h
    | cons d ds =>
      simp only [strLt] at h ⊢
      by_cases h1 : c < d
      · have : ¬ d < c := fun h2 => by
          simp only [Char.lt_def, UInt32.lt_iff_toNat_lt] at h1 h2; omega
        simp [this, h1]
      · by_cases h2 : d < c
        · simp [h1, h2] at h
        · simp only [h1, h2, ↓reduceIte] at h ⊢
          exact ih ds h

/-- strings: if neither is smaller they are equal -/
theorem strLt_total : ∀ a b : List Char, strLt a b = false → strLt b a = false → a = b := by
  intro a
  induction a with
  | nil => intro b h _; cases b <;> simp_all [strLt]
  | cons c cs ih =>
    intro b h h'
    cases b with
    | nil => simp [strLt] at h'
    | cons d ds =>
      simp only [strLt] at h h'
      by_cases h1 : c < d
      · simp [h1] at h
      · by_cases h2 : d < c
        · simp [h2] at h'
        · simp only [h1, h2, ↓reduceIte] at h h'
          have hcd : c = d := by
            apply Char.ext; apply UInt32.toNat_inj.mp
            simp only [Char.lt_def, UInt32.lt_iff_toNat_lt] at h1 h2; omega
          rw [hcd, ih ds h h']

/-! ### the rules, one theorem each -/
'''
OF = {"int": "of_int", "bool": "of_bool", "str": "of_str", "float": "of_float", "list": "of_list", "tuple": "of_tuple"}
VN = {"int": "i", "bool": "b", "str": "s", "float": "f", "list": "xs", "tuple": "xs"}

def thm(name, rule, vars_, closing, doc=None):
    out = []
    if doc:
        out.append(f"/-- {doc} -/")
    out.append(f"theorem {name} : Sound {rule} := by")
    out.append("  intro σ hwt _")
    for v, t in vars_:
        tyexpr = "anyS" if t is None else f"some .{t}"
        out.append(f'  obtain ⟨v{v}, h{v}0, ht{v}⟩ := hwt ("{v}", {tyexpr}) (by simp [{rule}])')
        if t is None:
            out.append(f"  obtain ⟨s{v}, rfl⟩ := ht{v}")
        else:
            out.append(f"  obtain ⟨{VN[t]}{v}, rfl⟩ := {OF[t]} ht{v}")
        out.append(f'  have h{v} : σ "{v}" = some _ := h{v}0')
    out.append(f"  simp only [{rule}]")
    out.append("  py_simp")
    if len(closing) == 1:
        out.append("  all_goals (" + closing[0] + ")")
    else:
        for l in closing:
            out.append("  " + l)
    return "\n".join(out) + "\n"

A = None
THMS = [
    thm("sound_108", "r108_eq_or_eq", [("x", A), ("y", A), ("z", A)], ["cases h1 : sEq sx sy <;> simp"], "FURB108 on NaN-free scalars: the Boolean `or` of two equalities is membership in the pair"),
    thm("sound_109", "r109_in_list", [("x", A), ("y", A), ("z", A)], []),
    thm("sound_110", "r110_if_else_or", [("x", A), ("y", A)], [], "FURB110: `x if x else y` is `x or y`, for operands of any class"),
    thm("sound_114", "r114_not_not", [("x", A)], []),
    thm("sound_115_eq0_str", "r115_len_eq_0_str", [("x", "str")], ["cases sx <;> simp [sEq, Scalar.num?] <;> omega"], "FURB115 in condition position: the branch taken is the same"),
    thm("sound_115_eq0_list", "r115_len_eq_0_list", [("x", "list")], ["cases xsx <;> simp [sEq, Scalar.num?] <;> omega"]),
    thm("sound_115_ge1_list", "r115_len_ge_1_list", [("x", "list")], ["cases xsx <;> simp [sEq, Scalar.num?] <;> omega"]),
    thm("sound_115_gt0_tuple", "r115_len_gt_0_tuple", [("x", "tuple")], ["cases xsx <;> simp <;> omega"]),
    thm("sound_115_ne0_str", "r115_len_ne_0_str", [("x", "str")], ["cases sx <;> simp [sEq, Scalar.num?] <;> omega"]),
    thm("sound_123_int", "r123_int", [("x", "int")], [], "FURB123: the cast is the identity exactly when the operand already has that class"),
    thm("sound_123_str", "r123_str", [("x", "str")], []),
    thm("sound_123_bool", "r123_bool", [("x", "bool")], []),
    thm("sound_123_list", "r123_list", [("x", "list")], []),
    thm("sound_123_tuple", "r123_tuple", [("x", "tuple")], []),
    thm("sound_124", "r124_eq_and_eq", [("x", A), ("y", A), ("z", A)], ["cases h1 : sEq sx sy", "· simp", "· simp [sEq_trans_left sx sy sz h1]"], "FURB124: `x == y and x == z` is the chain `x == y == z` (needs: `==` is substitutive once it holds)"),
    thm("sound_136_max_int", "r136_max_int", [("x", "int"), ("y", "int")], ["by_cases h : iy < ix <;> by_cases h' : ix < iy <;> simp [h, h'] <;> omega"], "FURB136 on two ints: a tie is one and the same value, so first-wins (max) and the else-branch agree"),
    thm("sound_136_min_int", "r136_min_int", [("x", "int"), ("y", "int")], ["by_cases h : iy < ix <;> by_cases h' : ix < iy <;> simp [h, h'] <;> omega"]),
    thm("sound_136_max_str", "r136_max_str", [("x", "str"), ("y", "str")], ["cases h : strLt sy sx <;> cases h' : strLt sx sy <;> simp", "· rw [strLt_total sx sy h' h]", "· have := strLt_asymm sy sx h; simp [this] at h'"]),
    thm("sound_143_str", "r143_or_empty_str", [("x", "str")], ["cases sx <;> simp"], "FURB143: `x or <the empty value of x's own class>` is `x`"),
    thm("sound_143_int", "r143_or_zero_int", [("x", "int")], ["by_cases h : ix = 0 <;> simp [h]"]),
    thm("sound_143_list", "r143_or_empty_list", [("x", "list")], ["cases xsx <;> simp"]),
    thm("sound_143_bool", "r143_or_false_bool", [("x", "bool")], ["cases bx <;> simp"]),
    thm("sound_143_tuple", "r143_or_empty_tuple", [("x", "tuple")], ["cases xsx <;> simp"]),
    thm("sound_145_list", "r145_slice_copy_list", [("x", "list")], []),
    thm("sound_149_eq_true", "r149_eq_true", [("x", "bool")], ["cases bx <;> simp [sEq, Scalar.num?]"], "FURB149 on a bool operand"),
    thm("sound_149_is_true", "r149_is_true", [("x", "bool")], ["cases bx <;> simp"]),
    thm("sound_149_ne_false", "r149_ne_false", [("x", "bool")], ["cases bx <;> simp [sEq, Scalar.num?]"]),
    thm("sound_149_eq_false", "r149_eq_false", [("x", "bool")], ["cases bx <;> simp [sEq, Scalar.num?]"]),
    thm("sound_149_is_not_true", "r149_is_not_true", [("x", "bool")], ["cases bx <;> simp"]),
    thm("sound_168", "r168_isinstance_none", [("x", A)], ["cases sx <;> simp"]),
    thm("sound_169", "r169_type_is_none", [("x", A)], ["cases sx <;> simp"]),
    thm("sound_171", "r171_in_single", [("x", A), ("y", A)], []),
]
TAIL = '''

/-! ### FURB192 on a list of ints: `sorted(x)[0]` is `min(x)` (both raise on the empty list) -/

/-- insertion into a sorted list of ints, as `insSorted` does it -/
def insI (a : Int) : List Int → List Int
  | [] => [a]
  | b :: l => if b < a then b :: insI a l else a :: b :: l
def isort : List Int → List Int
  | [] => []
  | a :: l => insI a (isort l)
/-- `min` as `minOfAux` computes it (left fold, first minimal wins) -/
def minL (m : Int) : List Int → Int
  | [] => m
  | x :: xs => minL (if x < m then x else m) xs

theorem sLt_int (a b : Int) : sLt (.int a) (.int b) = .ok (decide (a < b)) := by
  simp [sLt, Scalar.num?]

theorem insSorted_ints (a : Int) (l : List Int) :
    insSorted (.int a) (l.map Scalar.int) = .ok ((insI a l).map Scalar.int) := by
  induction l with
  | nil => rfl
  | cons b l ih =>
    simp only [List.map_cons, insSorted, sLt_int, insI, Bind.bind, Except.bind]
    by_cases h : b < a <;> simp [h, ih]

theorem pySorted_ints (l : List Int) : pySorted (l.map Scalar.int) = .ok ((isort l).map Scalar.int) := by
  induction l with
  | nil => rfl
  | cons a l ih => simp [pySorted, ih, isort, insSorted_ints, Bind.bind, Except.bind]

theorem minOfAux_ints (m : Int) (l : List Int) : minOfAux (.int m) (l.map Scalar.int) = .ok (.int (minL m l)) := by
  induction l generalizing m with
  | nil => rfl
  | cons x xs ih =>
    simp only [List.map_cons, minOfAux, sLt_int, Bind.bind, Except.bind, minL]
    by_cases h : x < m <;> simp [h, ih]

theorem minL_spec (m : Int) (l : List Int) : minL m l ∈ m :: l ∧ ∀ x ∈ m :: l, minL m l ≤ x := by
  induction l generalizing m with
  | nil => simp [minL]
  | cons y ys ih =>
    simp only [minL]
    have := ih (if y < m then y else m)
    constructor
    · rcases List.mem_cons.mp this.1 with h | h
      · rw [h]; by_cases hy : y < m <;> simp [hy]
      · exact List.mem_cons_of_mem _ (List.mem_cons_of_mem _ h)
    · intro x hx
      have hm : minL (if y < m then y else m) ys ≤ (if y < m then y else m) := this.2 _ (by simp)
      rcases List.mem_cons.mp hx with rfl | hx
      · by_cases hy : y < x <;> simp [hy] at hm ⊢ <;> omega
      · rcases List.mem_cons.mp hx with rfl | hx
        · by_cases hy : x < m <;> simp [hy] at hm ⊢ <;> omega
        · exact this.2 x (List.mem_cons_of_mem _ hx)

theorem mem_insI (a x : Int) (l : List Int) : x ∈ insI a l ↔ x = a ∨ x ∈ l := by
  induction l with
  | nil => simp [insI]
  | cons b l ih =>
    simp only [insI]
    by_cases h : b < a <;> simp [h, ih] <;> constructor <;> (intro h'; rcases h' with h' | h' | h' <;> simp [h'])

theorem mem_isort (x : Int) (l : List Int) : x ∈ isort l ↔ x ∈ l := by
  induction l with
  | nil => simp [isort]
  | cons a l ih => simp [isort, mem_insI, ih]

def SortedI : List Int → Prop
  | [] => True
  | a :: l => (∀ b ∈ l, a ≤ b) ∧ SortedI l

theorem sorted_insI (a : Int) (l : List Int) (h : SortedI l) : SortedI (insI a l) := by
  induction l with
  | nil => simp [insI, SortedI]
  | cons b l ih =>
    simp only [insI]
    by_cases hb : b < a
    · simp only [hb, ↓reduceIte, SortedI]
      refine ⟨?_, ih h.2⟩
      intro x hx
      rcases (mem_insI a x l).mp hx with rfl | hx
      · omega
      · exact h.1 x hx
    · simp only [hb, ↓reduceIte, SortedI]
      refine ⟨?_, h⟩
      intro x hx
      rcases List.mem_cons.mp hx with rfl | hx
      · omega
      · have := h.1 x hx; omega

theorem sorted_isort (l : List Int) : SortedI (isort l) := by
  induction l with
  | nil => trivial
  | cons a l ih => exact sorted_insI a _ ih

/-- the head of the sorted list is the minimum that `min()` returns -/
theorem head_isort (a : Int) (l : List Int) : (isort (a :: l)).head? = some (minL a l) := by
  have hs := sorted_isort (a :: l)
  have hne : isort (a :: l) ≠ [] := by
    intro h; have := (mem_isort a (a :: l)).mpr (by simp); rw [h] at this; cases this
  cases hl : isort (a :: l) with
  | nil => exact absurd hl hne
  | cons h t =>
    rw [hl] at hs
    have hmem : h ∈ a :: l := (mem_isort h (a :: l)).mp (by rw [hl]; simp)
    have hmin := minL_spec a l
    have h1 : minL a l ≤ h := hmin.2 h hmem
    have h2 : h ≤ minL a l := by
      have : minL a l ∈ isort (a :: l) := (mem_isort _ _).mpr hmin.1
      rw [hl] at this
      rcases List.mem_cons.mp this with h' | h'
      · omega
      · exact hs.1 _ h'
    simp; omega


/-- **FURB192** for every list of ints of any length: same value, and both raise when it is empty -/
theorem sound_192_ints (σ : Env) (l : List Int) (hx : σ "x" = some (.list (l.map Scalar.int))) :
    observe r192_sorted_0_ints (eval σ r192_sorted_0_ints.old) = observe r192_sorted_0_ints (eval σ r192_sorted_0_ints.new) := by
  simp only [r192_sorted_0_ints, observe, eval, x, hx, Bind.bind, Except.bind, pySorted_ints]
  cases l with
  | nil => simp [isort, minOf, outcome]
  | cons a t =>
    have hh := head_isort a t
    simp only [List.map_cons, minOf, minOfAux_ints]
    cases hs : isort (a :: t) with
    | nil => rw [hs] at hh; simp at hh
    | cons h u =>
      rw [hs] at hh
      simp only [List.head?_cons, Option.some.injEq] at hh
      simp [hh, outcome]

/-! ### refutations: the same rewrite on another part of the domain its check accepts -/

def envOf (l : List (String × Val)) : Env := fun n => (l.find? (·.1 == n)).map (·.2)

/-- FURB136 with a bool and an int that are equal: `True if True > 1 else 1` is `1`, `max(True, 1)` is `True` -/
theorem refuted_136_bool_int : ¬ Sound x136_max_bool_int := by
  intro h
  have := h (envOf [("x", vBool true), ("y", vInt 1)])
    (by intro p hp; simp [x136_max_bool_int] at hp; rcases hp with rfl | rfl <;> simp [envOf, typeOf, vBool, vInt])
    (by intro p hp v hv; simp [x136_max_bool_int] at hp; rcases hp with rfl | rfl <;> simp [envOf] at hv <;> subst hv <;> rfl)
  revert this; decide

/-- FURB143 on a float: `-0.0 or 0.0` is `0.0`, not `-0.0` -/
theorem refuted_143_float : ¬ Sound x143_or_zero_float := by
  intro h
  have := h (envOf [("x", .sc (.flt .negZero))])
    (by intro p hp; simp [x143_or_zero_float] at hp; subst hp; simp [envOf, typeOf])
    (by intro p hp v hv; simp [x143_or_zero_float] at hp; subst hp; simp [envOf] at hv; subst hv; rfl)
  revert this; decide

/-- FURB145 on a tuple: `t[:]` is fine, `t.copy()` raises -/
theorem refuted_145_tuple : ¬ Sound x145_slice_copy_tuple := by
  intro h
  have := h (envOf [("x", .tuple [.int 1])])
    (by intro p hp; simp [x145_slice_copy_tuple] at hp; subst hp; simp [envOf, typeOf])
    (by intro p hp v hv; simp [x145_slice_copy_tuple] at hp; subst hp; simp [envOf] at hv; subst hv; rfl)
  revert this; decide

/-- why "exactly the declared type" matters: `int(True)` is `1`, not `True` -/
theorem refuted_123_int_on_bool : ¬ Sound x123_int_bool_operand := by
  intro h
  have := h (envOf [("x", vBool true)])
    (by intro p hp; simp [x123_int_bool_operand] at hp; subst hp; simp [envOf, typeOf, vBool])
    (by intro p hp v hv; simp [x123_int_bool_operand] at hp; subst hp; simp [envOf] at hv; subst hv; rfl)
  revert this; decide

/-! ### decision tables inside the checks (regenerated from the source) -/

open Generated in
/-- FURB136's FUNC_TABLE maps each comparison to the function the model's rules use:
    `x if x > y else y` ↦ max, `<` ↦ min, `>=` ↦ max, `<=` ↦ min -/
theorem furb136_table_matches_rules :
    furb136FuncTable = [("<", "min"), ("<=", "min"), (">", "max"), (">=", "max")] := by decide +kernel

open Generated in
/-- FURB149's truth table (operator, literal, keeps-x): `x == True`, `x is True`, `x != False`, `x is not False`
    keep `x`; the other four negate it -/
theorem furb149_table_matches_rules :
    furb149Keeps = [("!=", false, true), ("!=", true, false), ("==", false, false), ("==", true, true),
                    ("is", false, false), ("is", true, true), ("is not", false, true), ("is not", true, false)] := by
  decide +kernel

open Generated in
/-- FURB115's table: `len(x) == 0`, `len(x) <= 0` mean `not x`; `len(x) > 0`, `!= 0`, `>= 1` mean `x` — the five
    comparisons for which that is true of every sized value (a length is a natural number) -/
theorem furb115_table_sound :
    ∀ e ∈ furb115Truthy, ∀ n : Nat,
      (match e.1 with
       | "==" => decide ((n : Int) = e.2.1) | "<=" => decide ((n : Int) ≤ e.2.1) | ">" => decide ((n : Int) > e.2.1)
       | "!=" => decide ((n : Int) ≠ e.2.1) | ">=" => decide ((n : Int) ≥ e.2.1) | "<" => decide ((n : Int) < e.2.1)
       | _ => e.2.2 == decide (n ≠ 0)) = (e.2.2 == decide (n ≠ 0)) := by
  intro e he n
  simp only [furb115Truthy, List.mem_cons, List.mem_nil_iff, or_false] at he
  rcases he with rfl | rfl | rfl | rfl | rfl <;> (rw [Bool.eq_iff_iff]; simp; try omega)

open Generated in
/-- FURB123 proposes the bare operand for the immutable classes and `.copy()` for the mutable containers -/
theorem furb123_mapping_matches_rules :
    furb123Mapping.map (fun e => (e.1, e.2.1)) =
      [("builtins.bool", ""), ("builtins.bytes", ""), ("builtins.complex", ""), ("builtins.dict", ".copy()"),
       ("builtins.float", ""), ("builtins.int", ""), ("builtins.list", ".copy()"), ("builtins.set", ".copy()"),
       ("builtins.str", ""), ("builtins.tuple", "")] := by decide +kernel

/-! ### all proved rules at once -/

theorem all_rules_sound : ∀ r ∈ rules, r.code ≠ 192 → Sound r := by
  intro r hr h192
  simp only [rules, List.mem_cons, List.mem_nil_iff, or_false] at hr
  rcases hr with RCASES
BULLETS
  · exact absurd rfl h192

end RefurbVerif.C01
'''
import re
rules_order = re.findall(r'^def (r\d+\w*) : Rule', open('/verif/lean/RefurbVerif/Model/Rules.lean').read(), re.M)
name_of = {}
for t in THMS:
    m = re.search(r'theorem (\w+) : Sound (\w+)', t)
    name_of[m.group(2)] = m.group(1)
bullets = []
for r in rules_order:
    if r.startswith('r192'):
        continue
    bullets.append(f"  · exact {name_of[r]}")
tail = TAIL.replace("RCASES", " | ".join(["rfl"] * len(rules_order))).replace("BULLETS", "\n".join(bullets))
open('/verif/lean/RefurbVerif/Props/C01.lean', 'w').write(HEAD + "\n".join(THMS) + tail)
