/-
Model of comment suppression in refurb/main.py:

* `get_source_lines` (79-81): `Path(f).read_text("utf8")` (universal-newline decoding) followed by a line
  splitter. *Which* splitter is not hard-wired: the translator probes the working tree's function and writes
  the result into Generated/NoqaLines.lean as a `LineCfg` (set of characters that end a line + whether a final
  empty string is produced). refurb 2.0.0 uses `str.splitlines`, which splits at
  `\n \r \r\n \v \f \x1c \x1d \x1e \x85 U+2028 U+2029` (`pyCfg`); `.split("\n")` is `nlCfg`;
* the line numbering Python's tokenizer (and therefore every reported position) uses: `\n`, `\r\n`, `\r` only;
* `is_ignored_via_comment` (84-97): `lines[error.line - 1].rstrip()`, `re.search` of `# noqa(: [^'"]*)?$`,
  `error_codes[2:].replace(",", " ").split(" ")`, string comparison with `PREFIX` + `id`;
* `should_ignore_error` + the filter-then-sort tail of `run_refurb` (125-133, 229-232).

Failure mode that is modelled: the list index `error.line - 1` follows Python's rules (negative indices count
from the end, anything else out of range raises `IndexError`, which aborts the run) — `none` below.

Text is `List Char` (`Str`); the driver converts.
-/
import RefurbVerif.Model.Report

namespace RefurbVerif

/-! ### Lines -/

/-- the separators only `str.splitlines` knows: `\v \f \x1c \x1d \x1e \x85 U+2028 U+2029` -/
def isExoticSep (c : Char) : Bool :=
  let n := c.toNat
  n = 11 || n = 12 || n = 28 || n = 29 || n = 30 || n = 0x85 || n = 0x2028 || n = 0x2029

/-- what the tokenizer ends a physical line at (with `\r\n` counted once, see `splitLines`) -/
def isNlSep (c : Char) : Bool := c.toNat = 10 || c.toNat = 13

/-- what `str.splitlines` ends a line at -/
def isPySep (c : Char) : Bool := isNlSep c || isExoticSep c

/-- put a character in front of the first line -/
def consHead (c : Char) : List Str → List Str
  | [] => [[c]]
  | l :: ls => (c :: l) :: ls

/-- Split into lines at the characters `sep` accepts; `\r\n` is one separator (`afterCR` remembers that the
    previous character was a `\r` that ended a line); no empty last line after a final separator.
    With `isPySep` this is `str.splitlines()`; with `isNlSep` it is the physical lines of the tokenizer. -/
def splitLines (sep : Char → Bool) : Bool → Str → List Str
  | _, [] => []
  | afterCR, c :: r =>
    if afterCR && c = '\n' then splitLines sep false r
    else if sep c then [] :: splitLines sep (c = '\r') r
    else consHead c (splitLines sep false r)

/-- `str.splitlines()` -/
def pySplitlines (s : Str) : List Str := splitLines isPySep false s

/-- the physical lines Python numbers: line `n` of a diagnostic is `(physLines s)[n-1]` -/
def physLines (s : Str) : List Str := splitLines isNlSep false s

/-- universal-newline decoding of `read_text`: `\r\n` and `\r` become `\n` -/
def translateNewlines : Bool → Str → Str
  | _, [] => []
  | afterCR, c :: r =>
    if afterCR && c = '\n' then translateNewlines false r
    else if c = '\r' then '\n' :: translateNewlines true r
    else c :: translateNewlines false r

/-- How `get_source_lines` cuts the decoded text into lines — *probed from the working tree* by the translator
    (Generated/NoqaLines.lean): the code points at which it ends a line, and whether a text that is empty or
    ends in a separator yields a final empty line (`str.split("\n")` does, `str.splitlines()` does not). -/
structure LineCfg where
  seps : List Nat
  trailing : Bool
  deriving DecidableEq, Repr

def LineCfg.sep (cfg : LineCfg) (c : Char) : Bool := cfg.seps.contains c.toNat

/-- `str.splitlines()`: refurb 2.0.0's `get_source_lines` -/
def pyCfg : LineCfg := ⟨[10, 11, 12, 13, 28, 29, 30, 0x85, 0x2028, 0x2029], false⟩

/-- `.split("\n")` after universal-newline decoding (no `\r` is left by then): the tokenizer's lines -/
def nlCfg : LineCfg := ⟨[10, 13], true⟩

/-- the text is empty or ends in a separator -/
def endsInSep (sep : Char → Bool) : Str → Bool
  | [] => true
  | [c] => sep c
  | _ :: c :: r => endsInSep sep (c :: r)

/-- `get_source_lines` applied to the decoded bytes of the file -/
def getSourceLines (cfg : LineCfg) (raw : Str) : List Str :=
  let t := translateNewlines false raw
  let ls := splitLines cfg.sep false t
  if cfg.trailing && endsInSep cfg.sep t then ls ++ [[]] else ls

/-- Python list indexing `xs[i]`: `none` is `IndexError` -/
def pyIndex {α : Type} (xs : List α) (i : Int) : Option α :=
  if 0 ≤ i then xs[i.toNat]?
  else if 0 ≤ (xs.length : Int) + i then xs[((xs.length : Int) + i).toNat]?
  else none

/-! ### `str.rstrip()` -/

/-- `str.isspace()` for one character (Python 3.12 / Unicode 15) -/
def isPySpace (c : Char) : Bool :=
  let n := c.toNat
  (9 ≤ n && n ≤ 13) || (28 ≤ n && n ≤ 32) || n = 0x85 || n = 0xa0 || n = 0x1680 || (0x2000 ≤ n && n ≤ 0x200a)
    || n = 0x2028 || n = 0x2029 || n = 0x202f || n = 0x205f || n = 0x3000

/-- `str.rstrip()` -/
def rstrip : Str → Str
  | [] => []
  | c :: r =>
    match rstrip r with
    | [] => if isPySpace c then [] else [c]
    | r' => c :: r'

/-! ### The regular expression `# noqa(: [^'"]*)?$` under `re.search` -/

def noqaTag : Str := ['#', ' ', 'n', 'o', 'q', 'a']

/-- `s` with the prefix `p` removed, if it starts with it -/
def dropPrefix? : Str → Str → Option Str
  | [], s => some s
  | _ :: _, [] => none
  | p :: ps, c :: s => if p = c then dropPrefix? ps s else none

def isQuote (c : Char) : Bool := c = '\'' || c = '"'

/-- `$` without `re.MULTILINE`: at the end, or before a final `\n` -/
def atDollar (rest : Str) : Bool := rest = [] || rest = ['\n']

/-- a match: `group(1)` is `none` (the optional group did not take part) or the text `: …` -/
abbrev NoqaMatch := Option Str

/-- Try to match at the very start of `s`. The optional group is tried first (greedily: `[^'"]*` takes every
    quote-free character; the following `$` then holds iff that reached the end of the text — stopping earlier,
    before a final `\n`, is impossible because `\n` is quote-free too), then the empty alternative. -/
def matchHere (s : Str) : Option NoqaMatch :=
  match dropPrefix? noqaTag s with
  | none => none
  | some rest =>
    match dropPrefix? [':', ' '] rest with
    | some body =>
      if body.all (fun c => !isQuote c) then some (some rest)
      else if atDollar rest then some none else none
    | none => if atDollar rest then some none else none

/-- `re.search`: the leftmost start position at which the pattern matches -/
def searchNoqa : Str → Option NoqaMatch
  | [] => none
  | c :: r =>
    match matchHere (c :: r) with
    | some m => some m
    | none => searchNoqa r

/-- `error_codes[2:].replace(",", " ").split(" ")` -/
def codeList (group : Str) : List Str :=
  splitAt ' ' ((group.drop 2).map (fun c => if c = ',' then ' ' else c))

/-- `is_ignored_via_comment`, given the source line and `str(ErrorCode.from_error(type(error)))` -/
def isIgnoredViaComment (line : Str) (code : Str) : Bool :=
  match searchNoqa (rstrip line) with
  | none => false
  | some none => true
  | some (some g) => g.isEmpty || (codeList g).any (fun k => k == code)

/-! ### The filter -/

/-- `should_ignore_error` for one diagnostic. `src` maps a file name to the decoded bytes of the file,
    `amend` is `is_ignored_via_amend` (C09/C12). `none`: the line lookup raised `IndexError`. -/
def shouldIgnoreDiag (cfg : LineCfg) (src : Str → Str) (amend : Diag → Bool) (d : Diag) : Option Bool :=
  if d.file.isEmpty then some true
  else
    match pyIndex (getSourceLines cfg (src d.file)) (d.line - 1) with
    | none => none
    | some line => some (isIgnoredViaComment line d.codeChars || amend d)

def shouldIgnore (cfg : LineCfg) (src : Str → Str) (amend : Diag → Bool) : Item → Option Bool
  | .text _ => some false
  | .diag d => shouldIgnoreDiag cfg src amend d

/-- `[error for error in errors if not should_ignore_error(error, settings)]`; `none` if any lookup raised -/
def noqaFilter (cfg : LineCfg) (src : Str → Str) (amend : Diag → Bool) : List Item → Option (List Item)
  | [] => some []
  | it :: rest =>
    match shouldIgnore cfg src amend it with
    | none => none
    | some ig =>
      match noqaFilter cfg src amend rest with
      | none => none
      | some r => some (if ig then r else it :: r)

/-- the tail of `run_refurb`: filter, then sort -/
def runReport (cfg : LineCfg) (by_ : SortBy) (src : Str → Str) (amend : Diag → Bool) (items : List Item) :
    Option (List Item) :=
  (noqaFilter cfg src amend items).map (ssort (leItem by_))

end RefurbVerif
