"""Translator for C01: decision tables inside the checks (read from the imported modules / tabulated by calling small functions)."""

from __future__ import annotations

import importlib

from . import extract
from .extract import HEADER, lbool, llist, lstr


def module_of(code: int):
    for r in extract.catalogue_rows():
        if r["code"] == code:
            return r["mod"]
    raise KeyError(code)


@extract.register("C01Tables")
def gen_tables() -> str:
    m136 = module_of(136)
    func_table = sorted(m136.FUNC_TABLE.items())
    flip = sorted((op, m136.flip_comparison_oper(op)) for op in ["<", "<=", ">", ">="])
    m149 = module_of(149)
    keeps = sorted((op, lit == "True", bool(m149.is_truthy(op, lit))) for op in ["==", "!=", "is", "is not"] for lit in ["True", "False"])
    m115 = module_of(115)
    truthy115 = sorted((op, n, bool(v)) for (op, n), v in m115.IS_INT_COMPARISON_TRUTHY.items())
    m123 = module_of(123)
    mapping123 = sorted((k, v[0], sorted(getattr(t, "__name__", str(t)) for t in v[1:])) for k, v in m123.FUNC_NAME_MAPPING.items())
    lit112 = sorted(module_of(112).FUNC_NAMES.items())
    conv116 = sorted(module_of(116).FUNC_CONVERSIONS.items())
    conv119 = sorted(module_of(119).CONVERSIONS.items())
    remove188 = sorted(module_of(188).STR_FUNC_TO_REMOVE_FUNC.items())
    pairs = lambda rows: llist(["(%s, %s)" % (lstr(a), lstr(b)) for a, b in rows])  # noqa: E731
    return (
        HEADER
        + "namespace RefurbVerif.Generated\n\n"
        + "/-- FURB136 FUNC_TABLE: comparison operator ↦ builtin proposed for `x if x OP y else y` -/\n"
        + "def furb136FuncTable : List (String × String) := %s\n\n" % llist(["(%s, %s)" % (lstr(a), lstr(b)) for a, b in func_table])
        + "/-- FURB136 flip_comparison_oper, tabulated by calling it -/\n"
        + "def furb136Flip : List (String × String) := %s\n\n" % llist(["(%s, %s)" % (lstr(a), lstr(b)) for a, b in flip])
        + "/-- FURB149 is_truthy(oper, literal), tabulated by calling it: (operator, literal is True, the rewrite keeps `x` rather than `not x`) -/\n"
        + "def furb149Keeps : List (String × Bool × Bool) := %s\n\n" % llist(["(%s, %s, %s)" % (lstr(a), lbool(b), lbool(c)) for a, b, c in keeps])
        + "/-- FURB115 IS_INT_COMPARISON_TRUTHY: (operator, number) ↦ `len(x) OP n` means `x` (true) or `not x` (false) -/\n"
        + "def furb115Truthy : List (String × Int × Bool) := %s\n\n" % llist(["(%s, %d, %s)" % (lstr(a), n, lbool(c)) for a, n, c in truthy115])
        + "/-- FURB123 FUNC_NAME_MAPPING: constructor ↦ (suffix appended to the operand, operand classes for which the call is redundant) -/\n"
        + "def furb123Mapping : List (String × String × List String) := %s\n" % llist(["(%s, %s, %s)" % (lstr(a), lstr(b), llist([lstr(x) for x in c])) for a, b, c in mapping123])
        + "\n/-- FURB112 FUNC_NAMES: constructor ↦ the literal proposed for the call without arguments -/\n"
        + "def furb112Literals : List (String × String) := %s\n\n" % pairs(lit112)
        + "/-- FURB116 FUNC_CONVERSIONS: `bin`/`oct`/`hex` ↦ the format code proposed for `f(x)[2:]` -/\n"
        + "def furb116Conversions : List (String × String) := %s\n\n" % pairs(conv116)
        + "/-- FURB119 CONVERSIONS: function ↦ what is appended to the operand inside the f-string braces -/\n"
        + "def furb119Conversions : List (String × String) := %s\n\n" % pairs(conv119)
        + "/-- FURB188 STR_FUNC_TO_REMOVE_FUNC: the test method ↦ the method proposed -/\n"
        + "def furb188RemoveFunc : List (String × String) := %s\n" % pairs(remove188)
        + "\nend RefurbVerif.Generated\n"
    )
