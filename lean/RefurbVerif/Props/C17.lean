/-
C17 — the check catalogue is coherent and its documentation is truthful.

The tables (`Generated.catalogue`, `Generated.docEntries`, `Generated.docDefaultDisabled`,
`Generated.examples`) are regenerated from /repo on every run; the theorems below are re-checked
against them.  General lemmas (`explain_*`) hold for every catalogue, including one extended by
plugins.
-/
import RefurbVerif.Model.Catalogue
import RefurbVerif.Generated.Catalogue
import RefurbVerif.Generated.Docs
import RefurbVerif.Generated.Examples

namespace RefurbVerif.C17
open RefurbVerif RefurbVerif.Generated

/-! ### General lemmas about `explain` (any catalogue, any number of plugins) -/

/-- If codes are unique, looking a check's own code up finds that very check, wherever it sits. -/
theorem explain_own (cat : List CheckInfo) (h : (cat.map CheckInfo.key).Nodup) :
    ∀ c ∈ cat, explain cat c.key = if c.docIsDefault then .noDoc else .found c := by
  intro c hc
  unfold explain
  have : cat.find? (fun d => d.key == c.key) = some c := by
    induction cat with
    | nil => cases hc
    | cons d ds ih =>
      simp only [List.map_cons, List.nodup_cons] at h
      by_cases hdc : d.key = c.key
      · rcases List.mem_cons.mp hc with rfl | hmem
        · simp [List.find?]
        · exact absurd (hdc ▸ List.mem_map_of_mem (f := CheckInfo.key) hmem : d.key ∈ ds.map CheckInfo.key) h.1
      · rcases List.mem_cons.mp hc with rfl | hmem
        · exact absurd rfl hdc
        · rw [List.find?_cons_of_neg (by simpa using hdc)]
          exact ih h.2 hmem
  rw [this]

/-- `explain` never answers with a check whose code differs from the one asked for. -/
theorem explain_found_has_key (cat : List CheckInfo) (k : String × Nat) (c : CheckInfo)
    (h : explain cat k = .found c) : c.key = k ∧ c ∈ cat := by
  unfold explain at h
  split at h
  · rename_i d hd
    split at h
    · cases h
    · cases h
      exact ⟨by simpa using List.find?_some hd, List.mem_of_find?_eq_some hd⟩
  · cases h

/-- A code that no loaded check carries is reported as not found (never someone else's text). -/
theorem explain_unknown (cat : List CheckInfo) (k : String × Nat)
    (h : k ∉ cat.map CheckInfo.key) : explain cat k = .notFound := by
  unfold explain
  have : cat.find? (fun c => c.key == k) = none := by
    rw [List.find?_eq_none]
    intro c hc hk
    exact h (by simpa using ⟨c, hc, by simpa using hk⟩)
  rw [this]

/-- Plugins appended after the built-ins cannot shadow a built-in code. -/
theorem explain_builtin_wins (cat plugins : List CheckInfo) :
    ∀ c ∈ cat, explain (cat ++ plugins) c.key = explain cat c.key := by
  intro c hc
  have hfind : cat.find? (fun d => d.key == c.key) ≠ none := by
    intro hn
    rw [List.find?_eq_none] at hn
    exact hn c hc (by simp)
  unfold explain
  rw [List.find?_append]
  cases hf : cat.find? (fun d => d.key == c.key) with
  | none => exact absurd hf hfind
  | some d => simp

/-! ### Facts about today's catalogue (kernel-evaluated over the regenerated tables) -/

theorem codes_unique : (catalogue.map CheckInfo.key).Nodup := by decide +kernel

theorem names_unique : (catalogue.map (·.name)).Nodup := by decide +kernel

theorem every_check_named : ∀ c ∈ catalogue, c.hasName = true ∧ c.name ≠ "" := by decide +kernel

theorem every_check_documented : ∀ c ∈ catalogue, c.docIsDefault = false := by decide +kernel

/-- `get_error_class` picks the first valid class in `dir()` order: with exactly one candidate per
    module the choice cannot silently depend on naming. -/
theorem one_error_class_per_module : ∀ c ∈ catalogue, c.errorClasses.length = 1 := by decide +kernel

/-- Every code that can appear in output is explained with that check's own entry. -/
theorem every_reportable_code_explained :
    ∀ c ∈ catalogue, explain catalogue c.key = .found c := by
  intro c hc
  have h := explain_own catalogue codes_unique c hc
  have hd := every_check_documented c hc
  simpa [hd] using h

/-- docs/checks.md lists exactly the catalogue, sorted by code string, with the same name,
    categories and documentation text. -/
theorem docs_agree :
    docEntries.Perm (catalogue.map CheckInfo.docEntry) ∧ docEntries.Pairwise (fun a b => a.code < b.code) := by
  decide +kernel

/-- docs/configs/default.toml disables exactly the checks that are disabled by default. -/
theorem default_config_agrees :
    docDefaultDisabled.Perm
      ((catalogue.filter (fun c => !c.enabled)).map (fun c => c.pfx ++ toString c.code)) := by
  decide +kernel

theorem bad_flagged : ∀ e ∈ examples, e.kind = "Bad" → e.flaggedByOwnCheck = true := by
  decide +kernel

theorem good_clean : ∀ e ∈ examples, e.kind = "Good" → e.flaggedByOwnCheck = false := by
  decide +kernel

/-- every check that documents examples documents both kinds (non-vacuity of the two above) -/
theorem examples_cover_catalogue :
    (catalogue.filter (fun c => examples.any (fun e => e.code == c.code && e.kind == "Bad")
        && examples.any (fun e => e.code == c.code && e.kind == "Good"))).length + 1
      ≥ catalogue.length := by
  decide +kernel

/-! ### The reference is what `docs/gen_checks.py` writes (any catalogue) -/

theorem dictSet_fresh {α : Type} (d : List (String × α)) (k : String) (v : α) (h : k ∉ d.map (·.1)) :
    dictSet d k v = d ++ [(k, v)] := by
  induction d with
  | nil => rfl
  | cons x r ih =>
    obtain ⟨k', v'⟩ := x
    simp only [List.map_cons, List.mem_cons, not_or] at h
    have hne : ¬ k' = k := fun e => h.1 e.symm
    simp [dictSet, hne, ih h.2]

theorem dictSet_length_le {α : Type} (d : List (String × α)) (k : String) (v : α) :
    (dictSet d k v).length ≤ d.length + 1 := by
  induction d with
  | nil => simp [dictSet]
  | cons x r ih => obtain ⟨k', v'⟩ := x; simp only [dictSet]; split <;> simp <;> omega

theorem dictSet_present {α : Type} (d : List (String × α)) (k : String) (v : α) (h : k ∈ d.map (·.1)) :
    (dictSet d k v).length = d.length := by
  induction d with
  | nil => simp at h
  | cons x r ih =>
    obtain ⟨k', v'⟩ := x
    simp only [dictSet]
    split
    · simp
    · rename_i hne
      simp only [List.map_cons, List.mem_cons] at h
      rcases h with h | h
      · exact absurd h.symm hne
      · simp [ih h]

theorem dictSet_keys {α : Type} (d : List (String × α)) (k : String) (v : α) :
    ∀ x, x ∈ (dictSet d k v).map (·.1) ↔ x = k ∨ x ∈ d.map (·.1) := by
  induction d with
  | nil => simp [dictSet]
  | cons y r ih =>
    obtain ⟨k', v'⟩ := y
    intro x
    simp only [dictSet]
    split
    · rename_i he; subst he; simp
    · simp only [List.map_cons, List.mem_cons, ih x]
      constructor
      · rintro (h | h | h) <;> simp [h]
      · rintro (h | h | h) <;> simp [h]

theorem foldl_fresh (acc : List (String × DocEntry)) (cs : List CheckInfo)
    (h : (acc.map (·.1) ++ cs.map CheckInfo.codeStr).Nodup) :
    cs.foldl (fun d c => dictSet d c.codeStr c.docEntry) acc = acc ++ cs.map (fun c => (c.codeStr, c.docEntry)) := by
  induction cs generalizing acc with
  | nil => simp
  | cons c r ih =>
    have hc : c.codeStr ∉ acc.map (·.1) := by
      intro hm
      have := List.nodup_append.mp h
      exact this.2.2 _ hm _ (by simp) rfl
    rw [List.foldl_cons, dictSet_fresh _ _ _ hc, ih]
    · simp
    · simpa [List.append_assoc] using h

/-- with no two checks printing the same code, the dict holds one item per check, in catalogue order -/
theorem docsDict_of_unique (cat : List CheckInfo) (h : (cat.map CheckInfo.codeStr).Nodup) :
    docsDict cat = cat.map (fun c => (c.codeStr, c.docEntry)) := by
  simpa [docsDict] using foldl_fresh [] cat (by simpa using h)

/-- **The generated reference has exactly one section per check** (name, categories and text of that check), whatever the
    catalogue holds, as long as no two checks print the same code … -/
theorem genDocs_perm (cat : List CheckInfo) (h : (cat.map CheckInfo.codeStr).Nodup) :
    (genDocs cat).Perm (cat.map CheckInfo.docEntry) := by
  unfold genDocs
  rw [docsDict_of_unique cat h]
  have := (List.mergeSort_perm (cat.map (fun c => (c.codeStr, c.docEntry))) (fun a b => decide (a.1 ≤ b.1))).map (·.2)
  simpa [List.map_map, Function.comp_def] using this

/-- … **in the order of the printed codes** -/
theorem genDocs_sorted (cat : List CheckInfo) :
    ((docsDict cat).mergeSort (fun a b => decide (a.1 ≤ b.1))).Pairwise (fun a b => a.1 ≤ b.1) := by
  have := List.pairwise_mergeSort (le := fun (a b : String × DocEntry) => decide (a.1 ≤ b.1))
    (by intro a b c hab hbc; simp only [decide_eq_true_eq] at *; exact String.le_trans hab hbc)
    (by intro a b; simp only [Bool.or_eq_true, decide_eq_true_eq]; exact String.le_total a.1 b.1)
    (docsDict cat)
  simpa using this

theorem foldl_length_le (acc : List (String × DocEntry)) (cs : List CheckInfo) :
    (cs.foldl (fun d c => dictSet d c.codeStr c.docEntry) acc).length ≤ acc.length + cs.length := by
  induction cs generalizing acc with
  | nil => simp
  | cons c r ih =>
    have h1 := ih (dictSet acc c.codeStr c.docEntry)
    have h2 := dictSet_length_le acc c.codeStr c.docEntry
    simp only [List.foldl_cons, List.length_cons]; omega

theorem foldl_keys (acc : List (String × DocEntry)) (cs : List CheckInfo) (x : String) :
    x ∈ (cs.foldl (fun d c => dictSet d c.codeStr c.docEntry) acc).map (·.1)
      ↔ x ∈ acc.map (·.1) ∨ x ∈ cs.map CheckInfo.codeStr := by
  induction cs generalizing acc with
  | nil => simp
  | cons c r ih =>
    rw [List.foldl_cons, ih, dictSet_keys]
    simp only [List.map_cons, List.mem_cons]
    constructor
    · rintro ((h | h) | h) <;> simp [h]
    · rintro (h | h | h) <;> simp [h]

/-- **Why uniqueness of the printed codes is part of the property**: two checks that print the same code share one
    section, so the reference is shorter than the catalogue — a check is missing from it. -/
theorem genDocs_collision (pre mid post : List CheckInfo) (a b : CheckInfo) (h : a.codeStr = b.codeStr) :
    (genDocs (pre ++ a :: mid ++ b :: post)).length < (pre ++ a :: mid ++ b :: post).length := by
  unfold genDocs docsDict
  rw [List.length_map, (List.mergeSort_perm _ _).length_eq]
  have e : pre ++ a :: mid ++ b :: post = (pre ++ a :: mid) ++ b :: post := by simp
  rw [e, List.foldl_append, List.foldl_cons]
  have hmem : b.codeStr ∈ ((pre ++ a :: mid).foldl (fun d c => dictSet d c.codeStr c.docEntry) []).map (·.1) := by
    rw [foldl_keys]; right; simp [h]
  have h1 := foldl_length_le (dictSet ((pre ++ a :: mid).foldl (fun d c => dictSet d c.codeStr c.docEntry) []) b.codeStr b.docEntry) post
  have h2 := dictSet_present _ b.codeStr b.docEntry hmem
  have h3 := foldl_length_le [] (pre ++ a :: mid)
  simp only [List.length_append, List.length_cons, List.length_nil] at *
  omega

theorem nodup_map_inj {α β : Type} (l : List α) (f : α → β) (h : (l.map f).Nodup) :
    ∀ a b, a ∈ l → b ∈ l → f a = f b → a = b := by
  induction l with
  | nil => intro a b ha; simp at ha
  | cons x r ih =>
    simp only [List.map_cons, List.nodup_cons, List.mem_map, not_exists, not_and] at h
    intro a b ha hb hab
    simp only [List.mem_cons] at ha hb
    rcases ha with rfl | ha <;> rcases hb with rfl | hb
    · rfl
    · exact absurd hab.symm (h.1 b hb)
    · exact absurd hab (h.1 a ha)
    · exact ih h.2 a b ha hb hab

/-- the printed codes of today's catalogue are pairwise different (stronger than `codes_unique`: `FURB1`+`23` and
    `FURB`+`123` are different keys that print alike) -/
theorem printed_codes_unique : (catalogue.map CheckInfo.codeStr).Nodup := by decide +kernel

/-- **docs/checks.md as shipped is what the generator writes for today's catalogue**, section for section and in order -/
theorem docs_are_generated : docEntries = genDocs catalogue := by
  have hperm : docEntries.Perm (genDocs catalogue) :=
    docs_agree.1.trans (genDocs_perm catalogue printed_codes_unique).symm
  have hsorted : (genDocs catalogue).Pairwise (fun a b => a.code ≤ b.code) := by
    have h := genDocs_sorted catalogue
    rw [docsDict_of_unique catalogue printed_codes_unique] at h
    unfold genDocs
    rw [docsDict_of_unique catalogue printed_codes_unique, List.pairwise_map]
    refine h.imp_of_mem ?_
    intro a b ha hb hab
    have key : ∀ x ∈ (catalogue.map (fun c => (c.codeStr, c.docEntry))).mergeSort (fun a b => decide (a.1 ≤ b.1)),
        x.2.code = x.1 := by
      intro x hx
      have hx' := (List.mergeSort_perm _ _).subset hx
      obtain ⟨c, _, rfl⟩ := List.mem_map.mp hx'
      rfl
    rw [key a ha, key b hb]; exact hab
  have hsorted' : docEntries.Pairwise (fun a b => a.code ≤ b.code) :=
    docs_agree.2.imp (fun h h2 => String.lt_irrefl _ (String.lt_trans h h2))
  have hnd : (docEntries.map (·.code)).Nodup := by decide +kernel
  refine List.Perm.eq_of_pairwise ?_ hsorted' hsorted hperm
  intro a b ha hb hab hba
  have hb' : b ∈ docEntries := hperm.symm.subset hb
  have hc : a.code = b.code := String.le_antisymm hab hba
  exact nodup_map_inj docEntries (·.code) hnd a b ha hb' hc

/-! ### What `--explain` prints first -/

/-- the header of an explanation is the check's own code, its name and its categories in brackets, in that order -/
theorem header_shape (c : CheckInfo) :
    c.explainHeader = c.pfx ++ toString c.code ++ ": " ++ (if c.hasName then c.name else "<name unknown>") ++ " "
      ++ " ".intercalate (c.categories.map (fun x => "[" ++ x ++ "]")) := rfl

/-- **Every reportable code is explained under its own header**: `explain` finds the check itself (above), and no two checks
    of today's catalogue print the same header line (code, name and categories identify the check) — so the first line of
    `refurb --explain CODE` names exactly the check that reports CODE. -/
theorem headers_identify_checks : (catalogue.map CheckInfo.explainHeader).Nodup := by decide +kernel

/-! ### Non-vacuity -/

example : catalogue.length ≥ 90 := by decide +kernel
example : (catalogue.find? (fun c => c.code == 123)).map CheckInfo.explainHeader
    = some "FURB123: no-redundant-cast [readability]" := by decide +kernel
example : (match explain catalogue ("FURB", 123) with | .found c => c.code == 123 | _ => false) = true := by
  decide +kernel

end RefurbVerif.C17
