/-
C10 — checks do not interfere: any selection's output is a filter of the full output.
-/
import RefurbVerif.Model.Visitor
import RefurbVerif.Lemmas.Sort
import RefurbVerif.Lemmas.Order
import RefurbVerif.Generated.Locality

namespace RefurbVerif.C10
open RefurbVerif

/-- a check only ever appends diagnostics carrying its own prefix+code -/
def OwnCode (c : CheckM) : Prop := ∀ st n, ∀ d ∈ (c.step st n).2, d.key = c.key

/-- selecting checks by code -/
def selChecks (sel : Str × Nat → Bool) (cs : List CheckM) : List CheckM := cs.filter (fun c => sel c.key)

theorem stepAll_keys (cs : List CheckM) (n : String × Nat) :
    (stepAll cs n).1.map CheckM.key = cs.map CheckM.key := by
  induction cs with
  | nil => rfl
  | cons c cs ih => simp [stepAll, ih, CheckM.key]

theorem stepAll_own (cs : List CheckM) (n : String × Nat) (h : ∀ c ∈ cs, OwnCode c) :
    ∀ c ∈ (stepAll cs n).1, OwnCode c := by
  induction cs with
  | nil => intro c hc; simp [stepAll] at hc
  | cons c cs ih =>
    intro c' hc'
    simp only [stepAll, List.mem_cons] at hc'
    rcases hc' with rfl | hc'
    · intro st m d hd; exact h c (by simp) st m d hd
    · exact ih (fun x hx => h x (by simp [hx])) c' hc'

/-- one node: stepping the selected checks gives the selected part of stepping all of them, both
    for the new private states and for the diagnostics -/
theorem stepAll_select (sel : Str × Nat → Bool) (cs : List CheckM) (n : String × Nat)
    (h : ∀ c ∈ cs, OwnCode c) :
    stepAll (selChecks sel cs) n =
      (selChecks sel (stepAll cs n).1, (stepAll cs n).2.filter (fun d => sel d.key)) := by
  induction cs with
  | nil => rfl
  | cons c cs ih =>
    have ihc := ih (fun x hx => h x (by simp [hx]))
    have hown := h c (by simp)
    have hfilt : (c.step c.st n).2.filter (fun d => sel d.key) = if sel c.key then (c.step c.st n).2 else [] := by
      by_cases hs : sel c.key
      · simp only [hs, ↓reduceIte]
        apply List.filter_eq_self.mpr
        intro d hd; rw [hown _ _ d hd]; exact hs
      · simp only [hs, Bool.false_eq_true, ↓reduceIte]
        apply List.filter_eq_nil_iff.mpr
        intro d hd; rw [hown _ _ d hd]; simpa using hs
    by_cases hs : sel c.key
    · have hk : sel (CheckM.key { c with st := (c.step c.st n).1 }) = true := by simpa [CheckM.key] using hs
      simp only [selChecks, List.filter_cons, hs, ↓reduceIte, stepAll, List.filter_append, hfilt] at ihc ⊢
      rw [ihc]
      simp [hk]
    · have hk : sel (CheckM.key { c with st := (c.step c.st n).1 }) = false := by simpa [CheckM.key] using hs
      simp only [selChecks, List.filter_cons, hs, Bool.false_eq_true, ↓reduceIte, stepAll, List.filter_append, hfilt] at ihc ⊢
      rw [ihc]
      simp [hk]

/-- **The traversal with a subset of the checks produces exactly the diagnostics of those checks
    from the full traversal, in the same order** — for any catalogue, any selection, any number of
    nodes, and checks with arbitrary private state. -/
theorem visitAll_select (sel : Str × Nat → Bool) (visits : List (String × Nat)) :
    ∀ cs : List CheckM, (∀ c ∈ cs, OwnCode c) →
      visitAll (selChecks sel cs) visits = (visitAll cs visits).filter (fun d => sel d.key) := by
  induction visits with
  | nil => intro cs _; rfl
  | cons n ns ih =>
    intro cs h
    simp only [visitAll, List.filter_append]
    rw [stepAll_select sel cs n h]
    simp only
    rw [ih (stepAll cs n).1 (stepAll_own cs n h)]

/-- **C10.** With only a subset of checks enabled the report is the full report restricted to
    those codes: nothing added, removed, moved or reworded. -/
theorem selection_is_filter (by_ : SortBy) (keep : Diag → Bool) (sel : Str × Nat → Bool)
    (cs : List CheckM) (visits : List (String × Nat)) (h : ∀ c ∈ cs, OwnCode c) :
    reportOf by_ keep (selChecks sel cs) visits =
      (reportOf by_ keep cs visits).filter (fun i => match i with | .diag d => sel d.key | .text _ => true) := by
  unfold reportOf
  rw [filter_ssort (leItem by_) (leItem_total by_) (leItem_trans by_), visitAll_select sel visits cs h]
  congr 1
  simp only [List.filter_map, List.filter_filter]
  congr 1
  apply List.filter_congr
  intro d _
  simp [Bool.and_comm]

/-- ignoring (`keep`) one more code afterwards is the same as never having enabled it -/
theorem ignore_is_deselect (by_ : SortBy) (keep : Diag → Bool) (sel : Str × Nat → Bool)
    (cs : List CheckM) (visits : List (String × Nat)) (h : ∀ c ∈ cs, OwnCode c) :
    reportOf by_ (fun d => keep d && sel d.key) cs visits = reportOf by_ keep (selChecks sel cs) visits := by
  unfold reportOf
  rw [visitAll_select sel visits cs h]
  congr 2
  rw [List.filter_filter]

/-! ### Today's check modules (syntactic facts regenerated from the source) -/

open Generated in
/-- no check module imports a mutable object from another check module, except the two constant tables on the allow-list -/
theorem no_shared_mutable_imports :
    ∀ m ∈ locality, ∀ i ∈ m.mutableImports, (m.module, i) ∈ mutableImportAllow := by decide +kernel

open Generated in
/-- the only check that writes to syntax-tree nodes / typeshed objects is on the allow-list -/
theorem node_writes_allowed : ∀ m ∈ locality, m.nodeWrites ≠ [] → m.module ∈ nodeWriteAllow := by decide +kernel

open Generated in
/-- the shared `errors` list is only appended to (or handed to a helper that appends), except on the allow-list -/
theorem errors_only_appended : ∀ m ∈ locality, m.errorsOtherUses ≠ [] → m.module ∈ errorsReadAllow := by decide +kernel

open Generated in
/-- every check constructs diagnostics of its own `ErrorInfo` class only -/
theorem own_error_class_only : ∀ m ∈ locality, m.foreignErrorClasses = [] := by decide +kernel

/-! ### Non-vacuity -/

def chkA : CheckM := { pfx := "FURB".toList, code := 1, st := [], step := fun st n =>
  (n.2 :: st, if st.contains n.2 then [] else [{ file := [], line := n.2, col := 0, pfx := "FURB".toList, code := 1, msg := [] }]) }
def chkB : CheckM := { pfx := "FURB".toList, code := 2, st := [], step := fun st n =>
  (st, [{ file := [], line := n.2, col := 1, pfx := "FURB".toList, code := 2, msg := [] }]) }

example : OwnCode chkA := by
  intro st n d hd
  simp only [chkA] at hd
  split at hd
  · cases hd
  · simp at hd; subst hd; rfl

example : (visitAll [chkA, chkB] [("X", 1), ("X", 1), ("Y", 2)]).length = 5 := by decide

end RefurbVerif.C10
