/-
Line-protocol driver: one JSON request per line on stdin, one JSON answer per line on stdout.
Imports only Model/* and Generated/* (no proofs, no Mathlib), so it links as a native executable.
-/
import Lean.Data.Json
import RefurbVerif.Model.Catalogue
import RefurbVerif.Generated.Catalogue
import RefurbVerif.Wire.Basic
import RefurbVerif.Wire.Settings
import RefurbVerif.Wire.Report
import RefurbVerif.Wire.Paths
import RefurbVerif.Wire.Noqa
import RefurbVerif.Wire.Gen
import RefurbVerif.Wire.Loader
import RefurbVerif.Wire.Lifecycle
import RefurbVerif.Wire.Gates
import RefurbVerif.Wire.Tree
import RefurbVerif.Wire.Pipeline
import RefurbVerif.Wire.Equiv
import RefurbVerif.Wire.Stringify
import RefurbVerif.Wire.Types
import RefurbVerif.Wire.Pos
import RefurbVerif.Wire.Checks
import RefurbVerif.Wire.Run

open Lean RefurbVerif

def getStr := Wire.str
def getNat := Wire.nat

def handleExplain (j : Json) : Json :=
  match explain Generated.catalogue (getStr j "prefix", getNat j "code") with
  | .found c => Json.mkObj [("r", "found"), ("module", c.module), ("name", c.name),
      ("categories", toJson c.categories), ("code", c.code), ("prefix", c.pfx), ("head", c.explainHeader)]
  | .noDoc => Json.mkObj [("r", "noDoc")]
  | .notFound => Json.mkObj [("r", "notFound")]

def handle (j : Json) : Json :=
  match getStr j "verb" with
  | "explain" => handleExplain j
  | v =>
    match [Wire.handleSettings, Wire.handleReport,
        Wire.handlePaths, Wire.handleNoqa, Wire.handleGen, Wire.handleLoader, Wire.handleLifecycle, Wire.handleGates, Wire.handleTree, Wire.handlePipeline, Wire.handleEquiv, Wire.handleStringify, Wire.handleTypes, Wire.handlePos, Wire.handleChecks, Wire.handleRun].findSome? (fun h => h v j) with
    | some r => r
    | none => Json.mkObj [("error", s!"unknown verb {v}")]

partial def loop (h : IO.FS.Stream) (out : IO.FS.Stream) : IO Unit := do
  let line ← h.getLine
  if line.isEmpty then return ()
  let ans := match Json.parse line with
    | .ok j => handle j
    | .error e => Json.mkObj [("error", e)]
  out.putStrLn ans.compress
  loop h out

def main : IO Unit := do loop (← IO.getStdin) (← IO.getStdout)
