/-
C14 — CLI and config file are equivalent, merge as documented, and fail cleanly.

Statements are over argument vectors, TOML documents and settings of any size.
-/
import RefurbVerif.Model.Settings

namespace RefurbVerif.C14
open RefurbVerif

/-! ### Merge laws (`Settings.merge`) -/

theorem merge_ok (e : Bool) (a b s : Settings) (h : merge e a b = .ok s) : s = mergeRaw e a b := by
  unfold merge at h
  split at h
  · cases h
  · cases h; rfl

/-- list options are combined: nothing from either side is lost, order config-then-CLI -/
theorem merge_lists_combined (e : Bool) (a b s : Settings) (h : merge e a b = .ok s) :
    s.files = a.files ++ b.files ∧ s.load = a.load ++ b.load ∧ s.ignore = a.ignore ++ b.ignore := by
  rw [merge_ok e a b s h]; exact ⟨rfl, rfl, rfl⟩

/-- boolean options are or-ed (colour: and-ed, because it is a switch-off) -/
theorem merge_bools_or (e : Bool) (a b s : Settings) (h : merge e a b = .ok s) :
    s.debug = (a.debug || b.debug) ∧ s.quiet = (a.quiet || b.quiet) ∧ s.verbose = (a.verbose || b.verbose) ∧
    s.enableAll = (a.enableAll || b.enableAll) ∧ s.disableAll = (a.disableAll || b.disableAll) ∧
    s.help = (a.help || b.help) ∧ s.version = (a.version || b.version) ∧ s.generate = (a.generate || b.generate) ∧
    s.color = (a.color && b.color && e) := by
  rw [merge_ok e a b s h]; exact ⟨rfl, rfl, rfl, rfl, rfl, rfl, rfl, rfl, rfl⟩

/-- scalar options take the command-line value when there is one ... -/
theorem merge_scalars_cli_wins (e : Bool) (a b s : Settings) (h : merge e a b = .ok s) :
    (∀ v, b.pythonVersion = some v → s.pythonVersion = some v) ∧
    (∀ v, b.format = some v → s.format = some v) ∧
    (∀ v, b.sortBy = some v → s.sortBy = some v) ∧
    (b.mypyArgs ≠ [] → s.mypyArgs = b.mypyArgs) := by
  rw [merge_ok e a b s h]
  refine ⟨?_, ?_, ?_, ?_⟩
  · intro v hv; simp [mergeRaw, hv]
  · intro v hv; simp [mergeRaw, hv]
  · intro v hv; simp [mergeRaw, hv]
  · intro hne
    cases hm : b.mypyArgs with
    | nil => exact absurd hm hne
    | cons x xs => simp [mergeRaw, hm]

/-- ... and the config value otherwise -/
theorem merge_scalars_config_fallback (e : Bool) (a b s : Settings) (h : merge e a b = .ok s) :
    (b.pythonVersion = none → s.pythonVersion = a.pythonVersion) ∧
    (b.format = none → s.format = a.format) ∧
    (b.sortBy = none → s.sortBy = a.sortBy) ∧
    (b.mypyArgs = [] → s.mypyArgs = a.mypyArgs) := by
  rw [merge_ok e a b s h]
  refine ⟨?_, ?_, ?_, ?_⟩ <;> intro hv <;> simp [mergeRaw, hv]

/-- the only way `merge` fails: both all-switches end up set; and then it is a refurb: error -/
theorem merge_error_iff (e : Bool) (a b : Settings) :
    (∃ err, merge e a b = .error err) ↔ ((a.enableAll || b.enableAll) && (a.disableAll || b.disableAll)) = true := by
  have h1 : (mergeRaw e a b).enableAll = (a.enableAll || b.enableAll) := rfl
  have h2 : (mergeRaw e a b).disableAll = (a.disableAll || b.disableAll) := rfl
  unfold merge
  rw [h1, h2]
  cases h : ((a.enableAll || b.enableAll) && (a.disableAll || b.disableAll)) <;> simp

theorem merge_error_is_refurb (e : Bool) (a b : Settings) (err : Err) (h : merge e a b = .error err) :
    ∃ m, err = .refurb m := by
  unfold merge at h
  split at h
  · cases h; exact ⟨_, rfl⟩
  · cases h

/-! ### File arguments commute with options -/

def isFileArg : Arg → Bool
  | .file _ => true
  | _ => false

theorem step_file_comm (s : Settings) (f : String) (a : Arg) (ha : isFileArg a = false) :
    step (step s (.file f)) a = step (step s a) (.file f) := by
  cases a <;> first | rfl | simp [isFileArg] at ha

theorem applyArgs_file_through (xs : List Arg) (s : Settings) (f : String)
    (hx : ∀ a ∈ xs, isFileArg a = false) :
    applyArgs xs (step s (.file f)) = step (applyArgs xs s) (.file f) := by
  induction xs generalizing s with
  | nil => rfl
  | cons a r ih =>
    have ha := hx a (by simp)
    show applyArgs r (step (step s (.file f)) a) = step (applyArgs r (step s a)) (.file f)
    rw [step_file_comm s f a ha]
    exact ih (step s a) (fun b hb => hx b (by simp [hb]))

/-- **Options may appear anywhere among the file arguments**: any interleaving gives the same
    settings as "all options first, then the files in their original order". -/
theorem files_commute_with_options (as : List Arg) (s : Settings) :
    applyArgs as s = applyArgs (as.filter (fun a => !isFileArg a) ++ as.filter isFileArg) s := by
  induction as generalizing s with
  | nil => rfl
  | cons a r ih =>
    cases hf : isFileArg a with
    | false =>
      simp only [List.filter_cons, hf, Bool.not_false, ↓reduceIte, Bool.false_eq_true, List.cons_append]
      exact ih (step s a)
    | true =>
      obtain ⟨f, rfl⟩ : ∃ f, a = .file f := by cases a <;> simp [isFileArg] at hf; exact ⟨_, rfl⟩
      simp only [List.filter_cons, hf, Bool.not_true, Bool.false_eq_true, ↓reduceIte]
      show applyArgs r (step s (.file f)) = _
      rw [ih (step s (.file f))]
      simp only [applyArgs, List.foldl_append, List.foldl_cons]
      have := applyArgs_file_through (r.filter (fun a => !isFileArg a)) s f
        (by intro b hb; simpa using (List.mem_filter.mp hb).2)
      simp only [applyArgs] at this
      rw [this]

/-- the order of the file arguments themselves is kept -/
theorem files_in_order (as : List Arg) (s : Settings) :
    (applyArgs as s).files = s.files ++ as.filterMap (fun a => match a with | .file f => some f | _ => none) := by
  induction as generalizing s with
  | nil => simp [applyArgs]
  | cons a r ih =>
    show (applyArgs r (step s a)).files = _
    rw [ih]
    cases a <;> simp [step]

/-! ### One option, either place -/

/-- everything `merge` can see of a settings value, with the set-valued fields compared as sets -/
structure Same (a b : Settings) : Prop where
  files : a.files = b.files
  load : a.load = b.load
  ignore : ∀ x, x ∈ a.ignore ↔ x ∈ b.ignore
  enable : ∀ x, x ∈ a.enable ↔ x ∈ b.enable
  disable : ∀ x, x ∈ a.disable ↔ x ∈ b.disable
  bools : (a.debug, a.quiet, a.verbose, a.enableAll, a.disableAll, a.help, a.version, a.generate, a.color)
        = (b.debug, b.quiet, b.verbose, b.enableAll, b.disableAll, b.help, b.version, b.generate, b.color)
  scalars : (a.pythonVersion, a.format, a.sortBy, a.mypyArgs, a.explain, a.timingStats)
          = (b.pythonVersion, b.format, b.sortBy, b.mypyArgs, b.explain, b.timingStats)

/-- `quiet = true` in the config ≡ `--quiet` on the command line (cfg: any other config content) -/
theorem option_equiv_quiet (e : Bool) (cfg cli : Settings) :
    Same (mergeRaw e { cfg with quiet := true } cli) (mergeRaw e cfg (step cli .quiet)) := by
  constructor <;> simp [mergeRaw, mergeSets, step]

theorem option_equiv_load (e : Bool) (cfg cli : Settings) (m : String) (hc : cfg.load = []) :
    Same (mergeRaw e { cfg with load := [m] } { cli with load := [] }) (mergeRaw e cfg (step { cli with load := [] } (.load m))) := by
  constructor <;> simp [mergeRaw, mergeSets, step, hc]

theorem option_equiv_ignore (e : Bool) (cfg cli : Settings) (cs : List Clsf) (hc : cfg.ignore = []) :
    Same (mergeRaw e { cfg with ignore := cs } cli) (mergeRaw e cfg (step cli (.ignore cs))) := by
  constructor <;> simp [mergeRaw, mergeSets, step, hc]
  intro x; exact Or.comm

theorem option_equiv_python_version (e : Bool) (cfg cli : Settings) (v : Nat × Nat)
    (hcfg : cfg.pythonVersion = none) (hcli : cli.pythonVersion = none) :
    Same (mergeRaw e { cfg with pythonVersion := some v } cli) (mergeRaw e cfg (step cli (.pythonVersion v))) := by
  constructor <;> simp [mergeRaw, mergeSets, step, hcfg, hcli]

theorem option_equiv_format (e : Bool) (cfg cli : Settings) (v : String)
    (hcfg : cfg.format = none) (hcli : cli.format = none) :
    Same (mergeRaw e { cfg with format := some v } cli) (mergeRaw e cfg (step cli (.format v))) := by
  constructor <;> simp [mergeRaw, mergeSets, step, hcfg, hcli]

theorem option_equiv_sort (e : Bool) (cfg cli : Settings) (v : String)
    (hcfg : cfg.sortBy = none) (hcli : cli.sortBy = none) :
    Same (mergeRaw e { cfg with sortBy := some v } cli) (mergeRaw e cfg (step cli (.sort v))) := by
  constructor <;> simp [mergeRaw, mergeSets, step, hcfg, hcli]

theorem option_equiv_mypy_args (e : Bool) (cfg cli : Settings) (v : List String)
    (hcfg : cfg.mypyArgs = []) (hcli : cli.mypyArgs = []) :
    Same (mergeRaw e { cfg with mypyArgs := v } cli) (mergeRaw e cfg (step cli (.mypyArgs v))) := by
  constructor <;> simp [mergeRaw, mergeSets, step, hcfg, hcli]

/-- `enable = cs` in the config ≡ `--enable cs`, when nothing else mentions those classifiers and
    no all-switch is in play (the documented differences: CLI order, all-switch reset). -/
theorem option_equiv_enable (e : Bool) (cfg cli : Settings) (cs : List Clsf)
    (hce : cfg.enable = []) (hcd : ∀ x ∈ cs, x ∉ cfg.disable) (hld : ∀ x ∈ cs, x ∉ cli.disable)
    (h1 : cli.disableAll = false) (h2 : cli.enableAll = false) :
    Same (mergeRaw e { cfg with enable := cs } cli) (mergeRaw e cfg (step cli (.enable cs))) := by
  constructor <;> simp [mergeRaw, mergeSets, step, hce, h1, h2, List.mem_filter]
  · intro x; grind
  · intro x; grind

theorem option_equiv_disable (e : Bool) (cfg cli : Settings) (cs : List Clsf)
    (hcd : cfg.disable = []) (hle : ∀ x ∈ cs, x ∉ cli.enable)
    (h1 : cli.disableAll = false) (h2 : cli.enableAll = false) :
    Same (mergeRaw e { cfg with disable := cs } cli) (mergeRaw e cfg (step cli (.disable cs))) := by
  constructor <;> simp [mergeRaw, mergeSets, step, hcd, h1, h2, List.mem_filter]
  · intro x; grind
  · intro x; grind

/-! ### Failing cleanly: no input reaches an exception that `main()` does not turn into one line -/

/-- the computation ends in a value or in a refurb:-style ValueError -/
def Clean {α} (x : Except Err α) : Prop := ∀ err, x = .error err → ∃ m, err = .refurb m

theorem Clean.ok {α} (a : α) : Clean (Except.ok a : Except Err α) := by intro err h; cases h
theorem Clean.pure {α} (a : α) : Clean (Pure.pure a : Except Err α) := Clean.ok a
theorem Clean.refurb {α} (m : String) : Clean (Except.error (.refurb m) : Except Err α) := by
  intro err h; cases h; exact ⟨m, rfl⟩
theorem Clean.throw {α} (m : String) : Clean (throw (.refurb m) : Except Err α) := Clean.refurb m

theorem Clean.bind {α β} {x : Except Err α} {f : α → Except Err β}
    (hx : Clean x) (hf : ∀ a, Clean (f a)) : Clean (x >>= f) := by
  intro err h
  cases x with
  | error e => exact hx err (by simpa [Bind.bind, Except.bind] using h)
  | ok a => exact hf a err (by simpa [Bind.bind, Except.bind] using h)

theorem Clean.map {α β} {x : Except Err α} (f : α → β) (hx : Clean x) : Clean (f <$> x) := by
  intro err h
  cases x with
  | error e => exact hx err (by simpa [Functor.map, Except.map] using h)
  | ok a => simp [Functor.map, Except.map] at h

theorem Clean.mapM {α β} (f : α → Except Err β) (hf : ∀ a, Clean (f a)) (l : List α) : Clean (l.mapM f) := by
  induction l with
  | nil => simpa [List.mapM_nil] using Clean.pure _
  | cons a r ih =>
    rw [List.mapM_cons]
    exact Clean.bind (hf a) (fun b => Clean.bind ih (fun bs => Clean.pure _))

theorem Clean.ite {α} {c : Prop} [Decidable c] {a b : Except Err α} (ha : Clean a) (hb : Clean b) :
    Clean (if c then a else b) := by
  split <;> assumption

theorem clean_parseErrorId (s : String) : Clean (parseErrorId s) := by
  unfold parseErrorId
  exact Clean.ite (Clean.ok _) (Clean.refurb _)

theorem clean_parseClassifier (s : String) : Clean (parseClassifier s) := by
  unfold parseClassifier
  split
  · exact Clean.ok _
  · exact Clean.bind (clean_parseErrorId s) (fun p => by obtain ⟨a, b⟩ := p; exact Clean.ok _)

theorem clean_parseClassifiers (s : String) : Clean (parseClassifiers s) :=
  Clean.mapM _ clean_parseClassifier _

theorem clean_parsePythonVersion (s : String) : Clean (parsePythonVersion s) := by
  unfold parsePythonVersion
  split
  · exact Clean.ite (Clean.ite (Clean.refurb _) (Clean.ok _)) (Clean.refurb _)
  · exact Clean.refurb _

theorem clean_validateFormat (s : String) : Clean (validateFormat s) := by
  unfold validateFormat; split
  · exact Clean.ok _
  · exact Clean.refurb _

theorem clean_validateSortBy (s : String) : Clean (validateSortBy s) := by
  unfold validateSortBy; split
  · exact Clean.ok _
  · exact Clean.refurb _

/-- **Every argument vector lexes cleanly** (unbounded length, arbitrary strings). -/
theorem clean_lex (args : List String) : Clean (lex args) := by
  fun_induction lex args
  all_goals
    first
    | exact Clean.ok _
    | exact Clean.refurb _
    | (apply Clean.map; assumption)
    | (apply Clean.bind (clean_parseErrorId _); intro _; apply Clean.map; assumption)
    | (apply Clean.bind (clean_parseClassifiers _); intro _; apply Clean.map; assumption)
    | (apply Clean.bind (clean_parsePythonVersion _); intro _; apply Clean.map; assumption)
    | (apply Clean.bind (clean_validateFormat _); intro _; apply Clean.map; assumption)
    | (apply Clean.bind (clean_validateSortBy _); intro _; apply Clean.map; assumption)

/-- **`parse_command_line_args` is total and clean** for every argument vector. -/
theorem cli_total (envColor : Bool) (args : List String) : Clean (parseCli envColor args) := by
  unfold parseCli
  simp only
  split
  · exact Clean.ok _
  · split
    · exact Clean.ok _
    · apply Clean.bind (clean_lex args)
      intro as
      exact Clean.ite (Clean.refurb _) (Clean.ok _)

theorem clean_popList (cfg : Table) (n : String) : Clean (popList cfg n) := by
  unfold popList; split
  · exact Clean.ok _
  · exact Clean.ok _
  · exact Clean.refurb _

theorem clean_popBool (cfg : Table) (n : String) (d : Bool) : Clean (popBool cfg n d) := by
  unfold popBool; split
  · exact Clean.ok _
  · exact Clean.ok _
  · exact Clean.refurb _

theorem clean_popStr (cfg : Table) (n : String) : Clean (popStr cfg n) := by
  unfold popStr; split
  · exact Clean.ok _
  · exact Clean.ok _
  · exact Clean.refurb _

theorem clean_parseAmendment (a : Toml) : Clean (parseAmendment a) := by
  unfold parseAmendment
  split
  · split
    · split
      · apply Clean.mapM
        intro e
        exact Clean.bind (clean_parseClassifier _) (fun c => Clean.ok _)
      · exact Clean.refurb _
    · exact Clean.refurb _
  · exact Clean.refurb _

/-- **Every table under `[tool.refurb]` parses cleanly**, whatever keys and value kinds it holds. -/
theorem clean_parseConfigTable (envColor : Bool) (cfg : Table) : Clean (parseConfigTable envColor cfg) := by
  unfold parseConfigTable
  apply Clean.bind (clean_popList _ _); rintro ⟨load, cfg⟩
  apply Clean.bind (Clean.ite (Clean.refurb _) (Clean.ok _)); intro _
  apply Clean.bind (clean_popBool _ _ _); rintro ⟨quiet, cfg⟩
  apply Clean.bind (clean_popBool _ _ _); rintro ⟨disableAll, cfg⟩
  apply Clean.bind (clean_popBool _ _ _); rintro ⟨enableAll, cfg⟩
  apply Clean.bind (clean_popBool _ _ _); rintro ⟨color, cfg⟩
  apply Clean.bind (clean_popList _ _); rintro ⟨enable, cfg⟩
  apply Clean.bind (clean_popList _ _); rintro ⟨disable, cfg⟩
  apply Clean.bind (Clean.mapM _ (fun x => clean_parseClassifier _) _); intro enable
  apply Clean.bind (Clean.mapM _ (fun x => clean_parseClassifier _) _); intro disable
  apply Clean.bind (clean_popList _ _); rintro ⟨ignore, cfg⟩
  apply Clean.bind (Clean.mapM _ (fun x => clean_parseClassifier _) _); intro ignore
  apply Clean.bind (clean_popList _ _); rintro ⟨mypyArgs, cfg⟩
  apply Clean.bind
  · split
    · exact Clean.ok _
    · apply Clean.bind (clean_popStr _ _); rintro ⟨v, cfg⟩
      exact Clean.bind (clean_parsePythonVersion _) (fun _ => Clean.ok _)
  rintro ⟨pv, cfg⟩
  apply Clean.bind
  · split
    · exact Clean.ok _
    · apply Clean.bind (clean_popStr _ _); rintro ⟨v, cfg⟩
      exact Clean.bind (clean_validateFormat _) (fun _ => Clean.ok _)
  rintro ⟨format, cfg⟩
  apply Clean.bind
  · split
    · exact Clean.ok _
    · apply Clean.bind (clean_popStr _ _); rintro ⟨v, cfg⟩
      exact Clean.bind (clean_validateSortBy _) (fun _ => Clean.ok _)
  rintro ⟨sortBy, cfg⟩
  apply Clean.bind
  · split
    · exact Clean.ok _
    · exact Clean.bind (Clean.mapM _ clean_parseAmendment _) (fun _ => Clean.ok _)
    · exact Clean.refurb _
  rintro ⟨amend, cfg⟩
  exact Clean.ite (Clean.refurb _) (Clean.ok _)

/-- **`parse_config_file` is total and clean on every TOML document** — including `tool = 5`,
    `[tool] refurb = 3`, `load = [1]`, which crashed before the repair (see known_findings.json). -/
theorem config_total (envColor : Bool) (doc : Table) : Clean (parseConfig envColor doc) := by
  unfold parseConfig
  simp only
  split
  · exact Clean.ok _
  · split
    · exact Clean.ok _
    · split
      · split
        · exact Clean.ok _
        · split
          · exact Clean.ok _
          · split
            · exact clean_parseConfigTable _ _
            · exact Clean.refurb _
      · exact Clean.refurb _

/-- **`load_settings` fails cleanly** on every argv and every config file the OS lets us read. -/
theorem load_settings_total (envColor : Bool) (args : List String) (file : FileOutcome)
    (hfile : ∀ k, file ≠ .crash k) : Clean (loadSettings envColor args file) := by
  unfold loadSettings
  apply Clean.bind (cli_total envColor args); intro cli
  apply Clean.bind
  · cases file with
    | ok doc => exact config_total _ _
    | isDir => exact Clean.refurb _
    | notFound => simp only; split; exact Clean.refurb _; exact Clean.ok _
    | invalid m => exact Clean.refurb _
    | crash k => exact absurd rfl (hfile k)
  intro cfg
  intro err h
  exact merge_error_is_refurb _ _ _ _ h

/-! ### No config file ≡ empty config file; contradictory switches are always refused -/

/-- **The same command line behaves the same with no `pyproject.toml` and with an empty one** (no `--config-file`): in
    particular whatever is refused in one situation is refused in the other. -/
theorem no_config_eq_empty_config (envColor : Bool) (args : List String) (cli : Settings)
    (h : parseCli envColor args = .ok cli) (hc : (orStr cli.configFile none).isSome = false) :
    loadSettings envColor args .notFound = loadSettings envColor args (.ok []) := by
  unfold loadSettings
  simp only [h, bind, Except.bind, hc]
  simp [parseConfig, Table.get?]

/-- **`--enable-all` together with `--disable-all` is refused whatever the config file situation** (present, absent,
    unreadable): the settings object is always built through `Settings.merge`, whose constructor validates it. -/
theorem contradictory_switches_refused (envColor : Bool) (args : List String) (cli : Settings) (file : FileOutcome)
    (h : parseCli envColor args = .ok cli) (hb : cli.enableAll = true ∧ cli.disableAll = true) :
    ∃ e, loadSettings envColor args file = .error e := by
  unfold loadSettings
  simp only [h, bind, Except.bind]
  split
  · exact ⟨_, rfl⟩
  · rename_i cfg _
    unfold merge
    have : ((mergeRaw envColor cfg cli).enableAll && (mergeRaw envColor cfg cli).disableAll) = true := by
      simp [mergeRaw, hb.1, hb.2]
    rw [this]
    exact ⟨_, rfl⟩

/-! ### Non-vacuity -/

example : (parseCli false ["a.py", "--enable-all", "--disable-all"]).toOption.map
    (fun c => (c.enableAll, c.disableAll, (orStr c.configFile none).isSome)) = some (true, true, false) := by decide +kernel

example : parseConfig false [("tool", .int 5)] = .error (.refurb "refurb: \"tool\" must be a TOML table") := by
  simp [parseConfig, Table.get?, Toml.truthy]
example : parseConfig false [("tool", .tbl [("refurb", .arr [.int 1] "[1]")] "")]
    = .error (.refurb "refurb: \"tool.refurb\" must be a TOML table") := by
  simp [parseConfig, Table.get?, Toml.truthy]
example : ∃ s, merge false { pythonVersion := some (3, 8) } { pythonVersion := some (3, 11) } = .ok s ∧
    s.pythonVersion = some (3, 11) := ⟨_, rfl, rfl⟩

end RefurbVerif.C14
