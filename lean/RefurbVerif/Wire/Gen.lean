import RefurbVerif.Wire.Basic
import RefurbVerif.Model.Gen
import RefurbVerif.Generated.NodeTypes
open Lean

namespace RefurbVerif.Wire
namespace G19
open RefurbVerif.Gen

def chs (s : String) : Str := s.toList
def sj (s : Str) : Json := Json.str (String.ofList s)
def strsJ (l : List Str) : Json := Json.arr (l.map sj).toArray

def idsOf (j : Json) : List (Str × Nat) :=
  (arr j "ids").filterMap fun e =>
    match e with
    | .arr #[.str p, c] => some (p.toList, (c.getNat?).toOption.getD 0)
    | _ => none

def tokJ : Tok → Json
  | .word s => Json.mkObj [("w", sj s)]
  | .punct c => Json.mkObj [("p", Json.str (String.singleton c))]

def pairJ (p : Str × Str) : Json := Json.arr #[sj p.1, sj p.2]

def loadErrJ : LoadErr → Json
  | .noCheck => "noCheck"
  | .arity => "arity"
  | .errorParam => "errorParam"
  | .service n => Json.mkObj [("service", sj n)]
  | .notAType _ => "notAType"
  | .unbound n => Json.mkObj [("unbound", sj n)]
  | .invalidNode n => Json.mkObj [("invalidNode", sj n)]

end G19
open RefurbVerif.Gen G19

/-- driver verbs of `refurb gen` (C19) -/
def handleGen (verb : String) (j : Json) : Option Json :=
  let tbl := Generated.nodeTypes
  match verb with
  | "gen.main" =>
    -- raw: the lines the multi-selection prompt returned; file; prefix; ids: [[prefix, code], …] of get_modules([])
    match genMain tbl (idsOf j) ((strs j "raw").map chs) (chs (str j "file")) (chs (str j "prefix")) with
    | .badSuffix => some (Json.mkObj [("r", "badSuffix")])
    | .keyError n => some (Json.mkObj [("r", "keyError"), ("name", sj n)])
    | .written t i => some (Json.mkObj [("r", "written"), ("text", sj t), ("id", i)])
  | "gen.imports" =>
    some (sj (buildImports (moduleOf tbl) ((strs j "names").map chs)))
  | "gen.nextid" =>
    some (Json.mkObj [("highest", highest (idsOf j) (chs (str j "prefix"))), ("id", nextId (idsOf j) (chs (str j "prefix")))])
  | "gen.suffix" => some (sj (suffix (chs (str j "path"))))
  | "gen.init" =>
    -- parent components relative to the working directory
    some (Json.arr ((initFolders ((strs j "parts").map chs)).map strsJ).toArray)
  | "gen.read" =>
    -- token-level reading of a file + what the loader / visitor models make of it
    let r := read (chs (str j "text"))
    let types := loadTypes tbl r
    let kinds := (strs j "kinds").map chs
    let fires := match types, r.pattern with
      | .ok ts, some pat => kinds.map (fun k => Json.arr #[sj k, fireCount tbl ts pat k])
      | _, _ => []
    some (Json.mkObj [
      ("imports", Json.arr (r.imports.map pairJ).toArray),
      ("classes", Json.arr (r.classes.map pairJ).toArray),
      ("prefix", optJ sj r.pfx),
      ("code", optJ sj r.code),
      ("params", optJ (fun ps => Json.arr (ps.map (fun p => Json.arr #[sj p.1, Json.arr (p.2.map tokJ).toArray])).toArray) r.params),
      ("pattern", optJ strsJ r.pattern),
      ("types", match types with | .ok ts => Json.mkObj [("ok", strsJ ts)] | .error e => Json.mkObj [("error", loadErrJ e)]),
      ("errorClass", optJ sj (getErrorClass r)),
      ("fires", Json.arr fires.toArray)])
  | _ => none

end RefurbVerif.Wire
