"""Translator for C11.

`History`  — does a run start from a clean line cache?  (by execution, in a fresh process)
`Globals`  — the process-global state of refurb, as a script for the machine of Model/History.lean:
             an `ast` scan of every module under /repo/refurb for
               * module-level mutable containers and the statements (in function bodies, anywhere in the package) that
                 store into / clear / read them, with the KIND of key used (`id(...)` of a live object, or anything else),
               * `@cache` / `@lru_cache` functions, their `cache_clear()` calls and whether their body is pure,
               * attributes of imported modules assigned from function bodies (`types.BUILTINS_MYPY_FILE = ...`), `global` rebinding,
               * interpreter-wide setters (`sys.set*`, `sys.path.*`, `os.environ`, `os.chdir`, ...), `importlib.import_module`,
               * class-level containers and mutable default arguments that a function mutates,
             placed on the statements of `main()` / `run_refurb()` in source order (a name-based call graph decides which statement
             can reach which access; `finally` bodies become `defer`s; loops, conditionals and callees become `free` phases);
             plus by-execution probes in one worker process (snapshot every module-level container of refurb.* before and after
             runs over a corpus; interpreter settings before / after a good run, a mypy failure and a raising check; identity of
             `types.BUILTINS_MYPY_FILE` across runs).
"""

from __future__ import annotations

import ast
import json
import subprocess
import textwrap
from pathlib import Path
from typing import Any, Iterable

from . import core, extract
from .extract import HEADER, lbool, lstr

PROBE = textwrap.dedent(
    """
    import json, sys
    import refurb.main as m
    from refurb.settings import Settings
    open("stale.py", "w").write("x = 1\\n")
    open("f.py", "w").write("y = 2\\n")
    cached = hasattr(m.get_source_lines, "cache_info")
    m.get_source_lines("stale.py")
    open("stale.py", "w").write("x = 1  # changed\\n")
    m.run_refurb(Settings(files=["f.py"], quiet=True))
    # what would a noqa lookup for stale.py see now?
    seen = m.get_source_lines("stale.py")
    json.dump({"fresh_after_run": bool(seen) and seen[0] == "x = 1  # changed", "cached": cached}, open("_out.json", "w"))
    """
)


@extract.register("History")
def gen_history() -> str:
    with core.scratch("rv-c11x-") as d:
        (d / "_probe.py").write_text(PROBE)
        p = subprocess.run([core.PY, "_probe.py"], cwd=d, capture_output=True, text=True, timeout=300, env=core.py_env())
        if p.returncode != 0:
            raise RuntimeError("history probe failed: " + p.stderr[-1500:])
        out = json.loads((d / "_out.json").read_text())
    return (
        HEADER
        + "namespace RefurbVerif.Generated\n\n"
        + "/-- after `run_refurb` has started, a source-line lookup sees the file as it is now, even if the path was read\n"
        + "    earlier in this process (observed by execution: populate the cache, edit the file, run, look again) -/\n"
        + "def runStartsWithFreshLines : Bool := %s\n" % lbool(out["fresh_after_run"])
        + "\nend RefurbVerif.Generated\n"
    )


# ---------------------------------------------------------------------------------------------------------------
# Globals: the static scan

CONTAINER_CTORS = {"set", "list", "dict", "defaultdict", "deque", "Counter", "OrderedDict", "bytearray", "WeakSet", "WeakValueDictionary", "WeakKeyDictionary"}
MUTATORS = {"add", "append", "extend", "update", "insert", "pop", "remove", "discard", "setdefault", "popitem", "sort", "reverse", "appendleft", "extendleft",
            "popleft", "__setitem__", "__delitem__", "difference_update", "intersection_update", "symmetric_difference_update", "subtract"}
READERS = {"get", "keys", "values", "items", "copy", "index", "count", "issubset", "issuperset", "isdisjoint", "union", "intersection", "difference", "__contains__",
           "__getitem__", "most_common"}
CACHE_DECORATORS = {"cache", "lru_cache", "cached"}
# functions a cached function may call and still be a function of its arguments alone
PURE_FUNCS = {"len", "signature", "isinstance", "issubclass", "type", "tuple", "frozenset", "str", "repr", "int", "bool", "getattr", "hasattr", "min", "max", "sorted"}
# interpreter-wide state other than `sys.set*`: (receiver, attribute) of a call or a subscript store that changes it
WIDE_SETTERS = {("os", "chdir"), ("os", "putenv"), ("os", "unsetenv"), ("locale", "setlocale"), ("warnings", "simplefilter"), ("warnings", "filterwarnings"),
                ("logging", "basicConfig"), ("signal", "signal"), ("gc", "disable"), ("gc", "enable"), ("gc", "set_threshold"), ("random", "seed"),
                ("atexit", "register"), ("threading", "setprofile"), ("threading", "settrace"), ("mimetypes", "add_type"), ("linecache", "clearcache")}
ENTRY = ("refurb.main", "main")
INLINE = {"run_refurb"}  # callees of the entry point whose statements are laid out one by one


class Access:
    """one static access: component, op (Lean text), where"""

    def __init__(self, comp: str, op: str, where: str, src: str) -> None:
        self.comp, self.op, self.where, self.src = comp, op, where, src

    def key(self) -> tuple[str, str]:
        return (self.comp, self.op)


class Mod:
    def __init__(self, name: str, path: Path) -> None:
        self.name, self.path = name, path
        self.rel = str(path.relative_to(core.REPO))
        self.src = path.read_text()
        self.tree = ast.parse(self.src)
        self.lines = self.src.split("\n")
        self.parents: dict[int, ast.AST] = {}
        for n in ast.walk(self.tree):
            for ch in ast.iter_child_nodes(n):
                self.parents[id(ch)] = n
        # alias -> ("module", dotted) | ("name", module, name)
        self.imports: dict[str, tuple] = {}
        pkg = name.rsplit(".", 1)[0] if not path.name == "__init__.py" else name
        for n in ast.walk(self.tree):
            if isinstance(n, ast.Import):
                for a in n.names:
                    self.imports[a.asname or a.name.split(".")[0]] = ("module", a.name if a.asname else a.name.split(".")[0])
            elif isinstance(n, ast.ImportFrom):
                base = n.module or ""
                if n.level:
                    parts = pkg.split(".")
                    parts = parts[: len(parts) - (n.level - 1)]
                    base = ".".join(parts + ([n.module] if n.module else []))
                for a in n.names:
                    self.imports[a.asname or a.name] = ("name", base, a.name)

    def where(self, n: ast.AST) -> str:
        return f"{self.rel}:{getattr(n, 'lineno', 0)}"

    def text(self, n: ast.AST) -> str:
        ln = getattr(n, "lineno", 1)
        return self.lines[ln - 1].strip()[:90]

    def enclosing_function(self, n: ast.AST) -> ast.AST | None:
        p = self.parents.get(id(n))
        while p is not None and not isinstance(p, (ast.FunctionDef, ast.AsyncFunctionDef, ast.Lambda)):
            p = self.parents.get(id(p))
        return p


def load_modules() -> dict[str, Mod]:
    mods = {}
    root = core.REPO / "refurb"
    for p in sorted(root.rglob("*.py")):
        rel = p.relative_to(core.REPO).with_suffix("")
        parts = list(rel.parts)
        if parts[-1] == "__init__":
            parts.pop()
        mods[".".join(parts)] = Mod(".".join(parts), p)
    return mods


def is_container_ctor(v: ast.AST | None) -> bool:
    if isinstance(v, (ast.List, ast.Dict, ast.Set, ast.ListComp, ast.DictComp, ast.SetComp)):
        return True
    if isinstance(v, ast.Call):
        f = v.func
        if isinstance(f, ast.Subscript):  # set[int]()
            f = f.value
        if isinstance(f, ast.Attribute):
            f = ast.Name(id=f.attr)
        return isinstance(f, ast.Name) and f.id in CONTAINER_CTORS
    return False


def is_empty_ctor(v: ast.AST | None) -> bool:
    if isinstance(v, (ast.List, ast.Set)) and not v.elts:
        return True
    if isinstance(v, ast.Dict) and not v.keys:
        return True
    return isinstance(v, ast.Call) and is_container_ctor(v) and not v.args and not v.keywords


def key_kind(e: ast.AST | None) -> str:
    """`.liveNode` when the key is `id(<something>)`, `.stable` otherwise"""
    if isinstance(e, ast.Call) and isinstance(e.func, ast.Name) and e.func.id == "id" and len(e.args) == 1:
        return ".liveNode"
    return ".stable"


def decorator_name(d: ast.AST) -> str:
    if isinstance(d, ast.Call):
        d = d.func
    if isinstance(d, ast.Attribute):
        return d.attr
    return d.id if isinstance(d, ast.Name) else ""


def lean_int(v: int) -> str:
    return str(v) if v >= 0 else f"({v})"


class Scan:
    def __init__(self) -> None:
        self.mods = load_modules()
        self.components: dict[str, dict[str, Any]] = {}  # name -> {where, how}
        self.const_tables: list[str] = []
        self.accesses: dict[tuple[str, int], list[Access]] = {}  # (module, id(function node)) -> accesses made directly in its body
        self.funcs: dict[tuple[str, int], tuple[Mod, ast.AST]] = {}
        self.by_name: dict[str, list[tuple[str, int]]] = {}
        self.notes: list[str] = []
        for m in self.mods.values():
            for n in ast.walk(m.tree):
                if isinstance(n, (ast.FunctionDef, ast.AsyncFunctionDef)):
                    k = (m.name, id(n))
                    self.funcs[k] = (m, n)
                    self.by_name.setdefault(n.name, []).append(k)
        self.find_containers()
        self.find_caches()
        self.find_module_attrs()
        self.find_interpreter_wide()
        self.find_class_and_default_state()

    # -- bookkeeping
    def add_component(self, name: str, where: str, how: str) -> None:
        self.components.setdefault(name, {"where": where, "how": how})

    def record(self, m: Mod, node: ast.AST, comp: str, op: str) -> None:
        fn = m.enclosing_function(node)
        if fn is None or isinstance(fn, ast.Lambda) and m.enclosing_function(fn) is None:
            return  # import time: part of how the interpreter starts
        while isinstance(fn, ast.Lambda):
            fn = m.enclosing_function(fn)
        self.accesses.setdefault((m.name, id(fn)), []).append(Access(comp, op, m.where(node), m.text(node)))

    def resolve(self, m: Mod, e: ast.AST) -> tuple[str, str] | None:
        """(module, attribute) a Name / `mod.attr` expression denotes, through this module's imports"""
        if isinstance(e, ast.Name):
            imp = m.imports.get(e.id)
            if imp and imp[0] == "name":
                return (imp[1], imp[2])
            return (m.name, e.id)
        if isinstance(e, ast.Attribute) and isinstance(e.value, ast.Name):
            imp = m.imports.get(e.value.id)
            if imp and imp[0] == "module":
                return (imp[1], e.attr)
            if imp and imp[0] == "name":  # `from . import types` -> types.X
                return (f"{imp[1]}.{imp[2]}" if imp[1] else imp[2], e.attr)
        return None

    def locally_bound(self, m: Mod, node: ast.AST, name: str) -> bool:
        fn = m.enclosing_function(node)
        while fn is not None:
            if not isinstance(fn, ast.Lambda):
                declared_global = any(isinstance(s, ast.Global) and name in s.names for s in ast.walk(fn))
                if declared_global:
                    return False
                args = fn.args
                names = [a.arg for a in args.args + args.kwonlyargs + args.posonlyargs] + ([args.vararg.arg] if args.vararg else []) + ([args.kwarg.arg] if args.kwarg else [])
                if name in names:
                    return True
                for s in ast.walk(fn):
                    if isinstance(s, ast.Name) and s.id == name and isinstance(s.ctx, ast.Store):
                        return True
            else:
                if name in [a.arg for a in fn.args.args]:
                    return True
            fn = m.enclosing_function(fn)
        return False

    # -- (1) module-level containers
    def find_containers(self) -> None:
        cands: dict[tuple[str, str], str] = {}
        for m in self.mods.values():
            for st in m.tree.body:
                tgt, val = None, None
                if isinstance(st, ast.Assign) and len(st.targets) == 1 and isinstance(st.targets[0], ast.Name):
                    tgt, val = st.targets[0].id, st.value
                elif isinstance(st, ast.AnnAssign) and isinstance(st.target, ast.Name):
                    tgt, val = st.target.id, st.value
                if tgt and is_container_ctor(val):
                    cands[(m.name, tgt)] = m.where(st)
        uses: dict[tuple[str, str], list[tuple[Mod, ast.AST, str]]] = {k: [] for k in cands}
        for m in self.mods.values():
            for n in ast.walk(m.tree):
                if isinstance(n, ast.Name) or (isinstance(n, ast.Attribute) and isinstance(n.value, ast.Name)):
                    if isinstance(n, ast.Name) and isinstance(m.parents.get(id(n)), ast.Attribute) and False:
                        continue
                    tgt = self.resolve(m, n)
                    if tgt in cands:
                        if isinstance(n, ast.Name) and tgt[0] == m.name and self.locally_bound(m, n, n.id):
                            continue
                        if isinstance(n, ast.Name) and isinstance(m.parents.get(id(n)), ast.Attribute) and m.parents[id(n)].value is n and self.resolve(m, m.parents[id(n)]) in cands:
                            continue  # the `mod` of `mod.TABLE`
                        op = self.container_access(m, n)
                        for o in op:
                            uses[tgt].append((m, n, o))
        for (mod, name), where in sorted(cands.items()):
            stores = [u for u in uses[(mod, name)] if not u[2].startswith(".get") and u[0].enclosing_function(u[1]) is not None]
            comp = f"{mod}.{name}"
            if not stores:
                self.const_tables.append(comp)
                continue
            self.add_component(comp, where, "module-level container that a function stores into")
            for m, n, o in uses[(mod, name)]:
                self.record(m, n, comp, o)

    def container_access(self, m: Mod, n: ast.AST) -> list[str]:
        p = m.parents.get(id(n))
        if isinstance(p, ast.Attribute) and p.value is n:
            gp = m.parents.get(id(p))
            if isinstance(gp, ast.Call) and gp.func is p:
                arg = gp.args[0] if gp.args else None
                if p.attr == "clear":
                    return [".clear"]
                if p.attr in MUTATORS:
                    return [f".put {key_kind(arg)}"]
                if p.attr in READERS:
                    return [f".get {key_kind(arg)}"]
                return [".put .stable", ".get .stable"]  # a method this scan does not know
            return [".get .stable"]
        if isinstance(p, ast.Compare) and n in p.comparators and all(isinstance(o, (ast.In, ast.NotIn)) for o in p.ops):
            return [f".get {key_kind(p.left)}"]
        if isinstance(p, ast.Subscript) and p.value is n:
            if isinstance(p.ctx, (ast.Store, ast.Del)):
                return [f".put {key_kind(p.slice)}"]
            gp = m.parents.get(id(p))
            if isinstance(gp, ast.AugAssign) and gp.target is p:
                return [f".put {key_kind(p.slice)}", f".get {key_kind(p.slice)}"]
            return [f".get {key_kind(p.slice)}"]
        if isinstance(p, ast.AugAssign) and p.target is n:
            return [".put .stable", ".get .stable"]
        if isinstance(n, ast.Name) and isinstance(n.ctx, ast.Store) or isinstance(n, ast.Attribute) and isinstance(n.ctx, ast.Store):
            if isinstance(p, (ast.Assign, ast.AnnAssign)) and is_empty_ctor(p.value):
                return [".clear"]
            return [".put .stable"]
        if isinstance(n.ctx, ast.Del):
            return [".clear"]
        # iterated, passed on, returned, compared as a whole: a read of everything in it (a callee that mutates its argument
        # is what the by-execution snapshot is for)
        return [".get .stable"]

    # -- (2) caches
    def find_caches(self) -> None:
        for (mod, _), (m, fn) in list(self.funcs.items()):
            if not any(decorator_name(d) in CACHE_DECORATORS for d in fn.decorator_list):
                continue
            comp = f"{mod}.{fn.name}()"
            pure = self.is_pure(fn)
            self.add_component(comp, m.where(fn), "functools cache of a function %s" % ("of its arguments alone" if pure else "that reads more than its arguments"))
            for m2 in self.mods.values():
                for n in ast.walk(m2.tree):
                    if not isinstance(n, (ast.Name, ast.Attribute)) or self.resolve(m2, n) != (mod, fn.name):
                        continue
                    if n is fn:
                        continue
                    p = m2.parents.get(id(n))
                    if isinstance(p, ast.Attribute) and p.value is n and p.attr == "cache_clear":
                        self.record(m2, n, comp, ".clear")
                    elif isinstance(p, ast.Attribute) and p.value is n and p.attr in ("cache_info", "cache_parameters", "__wrapped__", "__name__"):
                        continue
                    elif isinstance(n, ast.Name) and isinstance(n.ctx, ast.Store):
                        continue
                    else:
                        # a call, or the function handed to something that will call it
                        self.record(m2, n, comp, ".get .stable" if pure else ".memo .stable")

    def is_pure(self, fn: ast.AST) -> bool:
        params = {a.arg for a in fn.args.args + fn.args.kwonlyargs + fn.args.posonlyargs}
        local = set(params)
        for n in ast.walk(fn):
            if isinstance(n, ast.Name) and isinstance(n.ctx, ast.Store):
                local.add(n.id)
        for st in fn.body:
            for n in ast.walk(st):
                if isinstance(n, ast.Call):
                    f = n.func
                    if not (isinstance(f, ast.Name) and f.id in PURE_FUNCS):
                        return False
                elif isinstance(n, ast.Name) and isinstance(n.ctx, ast.Load) and n.id not in local and n.id not in PURE_FUNCS:
                    return False
                elif isinstance(n, (ast.Global, ast.Nonlocal, ast.Yield, ast.YieldFrom, ast.Await, ast.With, ast.Try)):
                    return False
        return True

    # -- (3) attributes of modules assigned from function bodies, `global` rebinding
    def find_module_attrs(self) -> None:
        targets: dict[tuple[str, str], str] = {}
        for m in self.mods.values():
            for n in ast.walk(m.tree):
                tg: list[ast.AST] = []
                if isinstance(n, ast.Assign):
                    tg = list(n.targets)
                elif isinstance(n, (ast.AnnAssign, ast.AugAssign)):
                    tg = [n.target]
                for t in tg:
                    if m.enclosing_function(n) is None:
                        continue
                    if isinstance(t, ast.Attribute) and isinstance(t.value, ast.Name):
                        r = self.resolve(m, t)
                        if r and r[0] in self.mods and not self.locally_bound(m, t, t.value.id):
                            targets.setdefault(r, m.where(n))
                    elif isinstance(t, ast.Name):
                        fn = m.enclosing_function(n)
                        if fn is not None and not isinstance(fn, ast.Lambda) and any(isinstance(s, ast.Global) and t.id in s.names for s in ast.walk(fn)):
                            targets.setdefault((m.name, t.id), m.where(n))
        for (mod, attr), where in sorted(targets.items()):
            comp = f"{mod}.{attr}"
            if comp in self.components:
                continue  # a container that is also rebound: handled as a container
            self.add_component(comp, where, "module attribute assigned from a function body")
            for m in self.mods.values():
                for n in ast.walk(m.tree):
                    if not isinstance(n, (ast.Name, ast.Attribute)) or self.resolve(m, n) != (mod, attr):
                        continue
                    if isinstance(n, ast.Name) and mod == m.name and self.locally_bound(m, n, n.id):
                        continue
                    if isinstance(n.ctx, ast.Store):
                        p = m.parents.get(id(n))
                        v = getattr(p, "value", None)
                        if isinstance(p, ast.AugAssign):
                            self.record(m, n, comp, ".bump 1")
                        elif isinstance(v, ast.Constant) and isinstance(v.value, int) and not isinstance(v.value, bool):
                            self.record(m, n, comp, f".putConst {lean_int(v.value)}")
                        else:
                            self.record(m, n, comp, ".put .cell")
                    else:
                        self.record(m, n, comp, ".get .cell")

    # -- (4) interpreter-wide state
    def find_interpreter_wide(self) -> None:
        # the recursion limit is always listed: a traversal's depth depends on it (refurb suppresses RecursionError, issue #302)
        self.add_component("sys.recursionlimit", "-", "interpreter setting (sys.setrecursionlimit / sys.getrecursionlimit)")
        for m in self.mods.values():
            for n in ast.walk(m.tree):
                if not isinstance(n, ast.Call) or not isinstance(n.func, ast.Attribute):
                    continue
                f = n.func
                recv = f.value
                r = self.resolve(m, f) if isinstance(recv, ast.Name) else None
                if r and r[0] == "sys" and (f.attr.startswith("set") or f.attr.startswith("get")) and f.attr not in ("getsizeof", "getrefcount", "getdefaultencoding", "getfilesystemencoding"):
                    what = f.attr[3:].lstrip("_")
                    comp = f"sys.{what}"
                    self.add_component(comp, m.where(n), f"interpreter setting (sys.{f.attr})")
                    if f.attr.startswith("get"):
                        self.record(m, n, comp, ".get .cell")
                        continue
                    arg = n.args[0] if n.args else None
                    reads_old = any(isinstance(x, ast.Attribute) and x.attr == "get" + f.attr[3:] for x in ast.walk(n))
                    if reads_old or not (isinstance(arg, ast.Constant) and isinstance(arg.value, int)):
                        # relative to the current value, or a value this scan cannot see: only a constant is a reset
                        off = 1
                        if isinstance(arg, ast.BinOp) and isinstance(arg.right, ast.Constant) and isinstance(arg.right.value, int):
                            off = arg.right.value if isinstance(arg.op, ast.Add) else -arg.right.value if isinstance(arg.op, ast.Sub) else 1
                        self.record(m, n, comp, f".bump {lean_int(off)}")
                    else:
                        self.record(m, n, comp, f".putConst {lean_int(arg.value)}")
                elif isinstance(recv, ast.Attribute) and isinstance(recv.value, ast.Name) and self.resolve(m, recv) == ("sys", "path") and f.attr in MUTATORS | {"clear"}:
                    self.add_component("sys.path", m.where(n), "interpreter setting (import search path)")
                    self.record_sys_path(m, n)
                elif r and (r[0], r[1]) in WIDE_SETTERS:
                    comp = f"{r[0]}.{r[1]}()"
                    self.add_component(comp, m.where(n), "interpreter-wide setter")
                    const = all(isinstance(a, ast.Constant) for a in n.args) and not n.keywords
                    self.record(m, n, comp, ".putConst 1" if const else ".put .stable")
                elif r and r in (("importlib", "import_module"), ("importlib", "reload")) or (isinstance(f, ast.Attribute) and False):
                    self.add_component("sys.modules", m.where(n), "the interpreter's import cache (importlib.import_module)")
                    # assumption CodeFixed: the source of an imported module does not change while the process lives, so an
                    # import is a read of a constant.  `reload` would not be.
                    self.record(m, n, "sys.modules", ".get .stable" if r[1] == "import_module" else ".put .stable")
            for n in ast.walk(m.tree):
                # os.environ[...] = ..., del os.environ[...]
                if isinstance(n, ast.Subscript) and isinstance(n.ctx, (ast.Store, ast.Del)) and isinstance(n.value, ast.Attribute) and isinstance(n.value.value, ast.Name) and self.resolve(m, n.value) == ("os", "environ"):
                    self.add_component("os.environ", m.where(n), "process environment")
                    self.record(m, n, "os.environ", ".put .stable")

    def record_sys_path(self, m: Mod, call: ast.Call) -> None:
        """`sys.path.append(str(Path.cwd()))`: with the working directory fixed for the life of the process (assumption CwdFixed) the
        same value is stored by every run; it counts as an overwrite-before-read when it is an unconditional statement of its
        function that precedes every import made there"""
        fn = m.enclosing_function(call)
        ok = False
        if isinstance(fn, (ast.FunctionDef, ast.AsyncFunctionDef)) and call.func.attr == "append":  # type: ignore[attr-defined]
            arg = call.args[0] if call.args else None
            is_cwd = arg is not None and any(isinstance(x, ast.Attribute) and x.attr in ("cwd", "getcwd") for x in ast.walk(arg))
            st_index = next((i for i, st in enumerate(fn.body) if isinstance(st, ast.Expr) and st.value is call), None)
            if is_cwd and st_index is not None:
                before = fn.body[:st_index]
                ok = not any(isinstance(x, ast.Call) and isinstance(x.func, ast.Attribute) and x.func.attr in ("import_module", "reload") for st in before for x in ast.walk(st))
        # the store and the reads that follow it in the same activation are ONE access (`refresh`: store, then read back)
        self.record(m, call, "sys.path", ".refresh" if ok else ".put .stable")
        if ok:
            self.notes.append("sys.path: `append(cwd)` is the first statement of its function, every import of that function comes after it; assumption CwdFixed")
        # every import reads the search path
        for m2 in self.mods.values():
            for n in ast.walk(m2.tree):
                if isinstance(n, ast.Call) and isinstance(n.func, ast.Attribute) and n.func.attr in ("import_module", "walk_packages", "reload"):
                    if ok and m2 is m and m2.enclosing_function(n) is not None and self.outer_function(m2, n) is fn:
                        continue  # part of the `refresh`
                    self.record(m2, n, "sys.path", ".get .cell" if ok else ".get .stable")

    def outer_function(self, m: Mod, n: ast.AST) -> ast.AST | None:
        """the outermost-but-one function around a node that is still inside `fn` chains: a generator expression or lambda in
        a function belongs to that function"""
        f = m.enclosing_function(n)
        while isinstance(f, ast.Lambda):
            f = m.enclosing_function(f)
        return f

    # -- (5) class-level containers and mutable default arguments that are mutated
    def find_class_and_default_state(self) -> None:
        for m in self.mods.values():
            for cls in ast.walk(m.tree):
                if not isinstance(cls, ast.ClassDef):
                    continue
                level = {}
                for st in cls.body:
                    if isinstance(st, ast.Assign) and len(st.targets) == 1 and isinstance(st.targets[0], ast.Name) and is_container_ctor(st.value):
                        level[st.targets[0].id] = st
                    elif isinstance(st, ast.AnnAssign) and isinstance(st.target, ast.Name) and is_container_ctor(st.value):
                        level[st.target.id] = st
                if not level:
                    continue
                inst_assigned = {t.attr for f in cls.body if isinstance(f, ast.FunctionDef) for n in ast.walk(f) if isinstance(n, (ast.Assign, ast.AnnAssign))
                                 for t in (n.targets if isinstance(n, ast.Assign) else [n.target]) if isinstance(t, ast.Attribute) and isinstance(t.value, ast.Name) and t.value.id == "self"}
                for name, st in level.items():
                    if name in inst_assigned:
                        continue
                    for m2 in self.mods.values():
                        for n in ast.walk(m2.tree):
                            if isinstance(n, ast.Attribute) and n.attr == name and isinstance(n.value, ast.Name) and n.value.id in ("self", "cls", cls.name):
                                ops = self.container_access(m2, n)
                                if any(not o.startswith(".get") for o in ops):
                                    comp = f"{m.name}.{cls.name}.{name}"
                                    self.add_component(comp, m.where(st), "class-level container that a method stores into")
                                    for o in ops:
                                        self.record(m2, n, comp, o)
            for (mod, _), (mm, fn) in self.funcs.items():
                if mod != m.name:
                    continue
                defaults = [(a, d) for a, d in zip(reversed(fn.args.args), reversed(fn.args.defaults))] + [(a, d) for a, d in zip(fn.args.kwonlyargs, fn.args.kw_defaults) if d is not None]
                for a, d in defaults:
                    if not is_container_ctor(d):
                        continue
                    for n in ast.walk(fn):
                        if isinstance(n, ast.Name) and n.id == a.arg and isinstance(n.ctx, ast.Load):
                            ops = self.container_access(mm, n)
                            if any(not o.startswith(".get") for o in ops):
                                comp = f"{m.name}.{fn.name}({a.arg}=<mutable default>)"
                                self.add_component(comp, mm.where(fn), "mutable default argument that the function stores into")
                                for o in ops:
                                    self.record(mm, n, comp, o)

    # -- the call graph (by simple name) and the layout on the statements of main() / run_refurb()
    def called_names(self, node: ast.AST) -> set[str]:
        out = set()
        for n in ast.walk(node):
            if isinstance(n, ast.Call):
                f = n.func
                if isinstance(f, ast.Name):
                    out.add(f.id)
                elif isinstance(f, ast.Attribute):
                    out.add(f.attr)
            elif isinstance(n, ast.Name) and isinstance(n.ctx, ast.Load) and n.id in self.by_name:
                out.add(n.id)  # a function handed over as a value (`key=partial(sort_errors, ...)`)
        return out

    def reach(self, names: Iterable[str]) -> list[Access]:
        seen: set[tuple[str, int]] = set()
        todo = [k for nm in names for k in self.by_name.get(nm, [])]
        visit_zone = [k for k, (m, fn) in self.funcs.items() if m.name.startswith("refurb.checks")]
        out: list[Access] = []
        while todo:
            k = todo.pop()
            if k in seen:
                continue
            seen.add(k)
            m, fn = self.funcs[k]
            out += self.accesses.get(k, [])
            for nm in self.called_names(fn):
                todo += self.by_name.get(nm, [])
            if m.name.startswith("refurb.visitor"):
                todo += visit_zone  # the visitor calls the loaded check functions, whichever they are
        return out

    def direct(self, m: Mod, fn: ast.AST, st: ast.AST) -> list[Access]:
        lo, hi = st.lineno, getattr(st, "end_lineno", st.lineno)
        out = []
        for a in self.accesses.get((m.name, id(fn)), []):
            ln = int(a.where.rsplit(":", 1)[1])
            if lo <= ln <= hi:
                out.append(a)
        return out

    def layout(self) -> list[tuple[str, str]]:
        """[(lean instruction, comment)]"""
        m = self.mods[ENTRY[0]]
        entry = next(fn for (mod, _), (_, fn) in self.funcs.items() if mod == ENTRY[0] and fn.name == ENTRY[1] and m.enclosing_function(fn) is None)
        comp_index = {c: i for i, c in enumerate(self.components)}
        instrs: list[tuple[str, str]] = []
        placed: set[tuple[str, str, str]] = set()

        def emit_free(accs: list[Access], comment: str) -> None:
            pairs = []
            for a in accs:
                placed.add((a.comp, a.op, a.where))
                p = f"({comp_index[a.comp]}, {a.op})"
                if p not in pairs:
                    pairs.append(p)
            instrs.append((".free [" + ", ".join(pairs) + "]", comment))

        def is_process_constant(test: ast.AST) -> bool:
            names = {n.id for n in ast.walk(test) if isinstance(n, ast.Name)}
            return names <= {"hasattr", "sys", "TYPE_CHECKING"}

        def simple(fnm: Mod, fn: ast.AST, st: ast.AST, always: bool) -> None:
            d = self.direct(fnm, fn, st)
            callees = self.called_names(st)
            inline = [nm for nm in callees if nm in INLINE and nm in self.by_name]
            r = self.reach(callees - set(inline))
            d_keys = {(a.comp, a.op, a.where) for a in d}
            r = [a for a in r if (a.comp, a.op, a.where) not in d_keys]
            text = fnm.text(st)
            if always:
                for a in d:
                    placed.add((a.comp, a.op, a.where))
                    instrs.append((f".op {comp_index[a.comp]} ({a.op})", f"{a.where}  {a.src}"))
            elif d:
                emit_free(d, f"{fnm.where(st)}  (conditional / repeated)  {text}")
            if r:
                emit_free(r, f"{fnm.where(st)}  callees of: {text}")
            elif not d:
                instrs.append((".free []", f"{fnm.where(st)}  {text}"))
            for nm in inline:
                k = self.by_name[nm][0]
                mm, f2 = self.funcs[k]
                walk(mm, f2, f2.body, always)

        def walk(fnm: Mod, fn: ast.AST, stmts: list[ast.stmt], always: bool) -> None:
            for st in stmts:
                if isinstance(st, (ast.FunctionDef, ast.AsyncFunctionDef, ast.ClassDef, ast.Import, ast.ImportFrom, ast.Pass, ast.Global)):
                    continue
                if isinstance(st, ast.Try):
                    for fst in st.finalbody:
                        for a in self.direct(fnm, fn, fst) + self.reach(self.called_names(fst)):
                            placed.add((a.comp, a.op, a.where))
                            instrs.append((f".defer {comp_index[a.comp]} ({a.op})", f"{a.where}  finally: {a.src}"))
                    walk(fnm, fn, st.body, always)
                    for h in st.handlers:
                        walk(fnm, fn, h.body, False)
                    walk(fnm, fn, st.orelse, False)
                elif isinstance(st, (ast.With, ast.AsyncWith)):
                    hdr = ast.Expr(value=ast.Tuple(elts=[i.context_expr for i in st.items], ctx=ast.Load()))
                    ast.copy_location(hdr, st)
                    hdr.end_lineno = st.items[-1].context_expr.end_lineno
                    simple(fnm, fn, hdr, always)
                    walk(fnm, fn, st.body, always)
                elif isinstance(st, (ast.For, ast.AsyncFor, ast.While)):
                    hdr = ast.Expr(value=st.iter if not isinstance(st, ast.While) else st.test)
                    ast.copy_location(hdr, st)
                    hdr.end_lineno = hdr.value.end_lineno
                    simple(fnm, fn, hdr, always)
                    walk(fnm, fn, st.body, False)
                    walk(fnm, fn, st.orelse, False)
                elif isinstance(st, ast.If):
                    if is_process_constant(st.test):
                        walk(fnm, fn, st.body, always)
                        walk(fnm, fn, st.orelse, always)
                    else:
                        hdr = ast.Expr(value=st.test)
                        ast.copy_location(hdr, st)
                        hdr.end_lineno = st.test.end_lineno
                        simple(fnm, fn, hdr, always)
                        walk(fnm, fn, st.body, False)
                        walk(fnm, fn, st.orelse, False)
                elif isinstance(st, ast.Match):
                    for c in st.cases:
                        walk(fnm, fn, c.body, False)
                else:
                    simple(fnm, fn, st, always)

        walk(m, entry, entry.body, True)
        # anything no statement of the entry point reaches (dead code, helpers of other entry points): may happen at any time
        rest = [a for accs in self.accesses.values() for a in accs if (a.comp, a.op, a.where) not in placed]
        if rest:
            pairs = []
            for a in rest:
                p = f"({comp_index[a.comp]}, {a.op})"
                if p not in pairs:
                    pairs.append(p)
            instrs.insert(0, (".free [" + ", ".join(pairs) + "]", "not reached from main(): " + "; ".join(sorted({a.where for a in rest}))[:160]))
        # drop phases that touch nothing (they only matter as places where a run may end, and it may end anywhere already)
        return [(i, c) for i, c in instrs if i != ".free []"]


# ---------------------------------------------------------------------------------------------------------------
# Globals: by execution

GLOBALS_PROBE = textwrap.dedent(
    """
    import gc, json, sys, types as pytypes
    import refurb.main as m
    import refurb.types as rtypes
    from refurb.settings import load_settings
    from refurb.loader import load_checks

    CONT = (set, list, dict, bytearray)
    try:
        from collections import defaultdict, deque, Counter, OrderedDict
        CONT = CONT + (defaultdict, deque, Counter, OrderedDict)
    except ImportError:
        pass

    def containers():
        out = {}
        for name, mod in list(sys.modules.items()):
            if not (name == "refurb" or name.startswith("refurb.")) or mod is None:
                continue
            for k, v in list(vars(mod).items()):
                if isinstance(v, CONT) and not k.startswith("__"):
                    out[f"{name}.{k}"] = v
        return out

    def snap():
        s = {}
        for k, v in containers().items():
            try:
                s[k] = (len(v), hash(repr(sorted(map(repr, v))) if not isinstance(v, (list, bytearray)) else repr(v)))
            except Exception:
                s[k] = (len(v), 0)
        return s

    def settings_now():
        return {"recursionlimit": sys.getrecursionlimit(), "int_max_str_digits": sys.get_int_max_str_digits() if hasattr(sys, "get_int_max_str_digits") else -1,
                "path_len_distinct": len(set(sys.path)), "switchinterval": sys.getswitchinterval()}

    plan = json.load(open(sys.argv[1]))
    out = {"runs": []}
    # import every check module first: what an import initialises is the start state, not a change
    load_checks(load_settings([*plan["good"], "--enable-all", "--quiet"]))
    if hasattr(sys, "set_int_max_str_digits"):
        sys.set_int_max_str_digits(5000)
    before = snap()
    s0 = settings_now()
    builtins_ids = []
    for argv in (plan["good"], plan["good"], plan["mypy_fails"], plan["check_raises"], plan["good"]):
        st = {"argv_kind": "good" if argv is plan["good"] else "bad"}
        try:
            errs = m.run_refurb(load_settings([*argv, "--enable-all", "--quiet"]))
            st["n"] = len(errs)
            del errs
        except BaseException as e:
            st["raised"] = type(e).__name__
        st["settings"] = settings_now()
        b = getattr(rtypes, "BUILTINS_MYPY_FILE", None)
        builtins_ids.append(id(b) if b is not None else 0)
        out["runs"].append(st)
        gc.collect()
    after = snap()
    out["settings_before"] = s0
    out["mutated"] = sorted(k for k in after if before.get(k) != after[k])
    out["new_containers"] = sorted(k for k in after if k not in before)
    out["grew"] = sorted(k for k in after if k in before and after[k][0] > before[k][0])
    out["only_ints"] = sorted(k for k, v in containers().items() if k in out["mutated"] and all(isinstance(x, int) for x in v))
    out["builtins_distinct_per_run"] = len(set(builtins_ids[:2])) == 2 and 0 not in builtins_ids[:2]
    json.dump(out, open(sys.argv[2], "w"))
    """
)

RAISING_PLUGIN = textwrap.dedent(
    """
    from dataclasses import dataclass
    from mypy.nodes import CallExpr
    from refurb.error import Error


    @dataclass
    class ErrorInfo(Error):
        prefix = "XYZ"
        code = 999
        msg: str = "boom"


    def check(node: CallExpr, errors: list[Error]) -> None:
        raise RuntimeError("a check that raises")
    """
)

PROBE_FILES = ["err_123.py", "err_140.py", "err_179.py", "err_185.py", "err_188.py", "err_120.py", "err_105.py", "err_109.py"]


def run_globals_probe() -> dict[str, Any]:
    with core.scratch("rv-c11g-") as d:
        (d / "pyproject.toml").write_text("")
        good = []
        for n in PROBE_FILES:
            src = core.REPO / "test" / "data" / n
            if src.exists():
                (d / f"p_{n}").write_bytes(src.read_bytes())
                good.append(f"p_{n}")
        (d / "broken.py").write_text("def broken(:\n")
        (d / "boom_plugin.py").write_text(RAISING_PLUGIN)
        plan = {"good": good, "mypy_fails": [good[0], "broken.py"], "check_raises": [good[0], "--load", "boom_plugin"]}
        (d / "_plan.json").write_text(json.dumps(plan))
        (d / "_gprobe.py").write_text(GLOBALS_PROBE)
        p = subprocess.run([core.PY, "_gprobe.py", "_plan.json", "_gout.json"], cwd=d, capture_output=True, text=True, timeout=600, env=core.py_env())
        if p.returncode != 0:
            raise RuntimeError("globals probe failed: " + p.stderr[-1500:])
        return json.loads((d / "_gout.json").read_text())


def globals_probe() -> dict[str, Any]:
    return core.cached_json("c11-globals-probe", ["refurb/**/*.py", "test/data/err_1[0-9][0-9].py"], run_globals_probe)


@extract.register("Globals")
def gen_globals() -> str:
    sc = Scan()
    layout = sc.layout()
    pr = globals_probe()
    names = list(sc.components)
    runs = pr["runs"]
    s0 = pr["settings_before"]
    good_runs = [r for r in runs if r["argv_kind"] == "good"]
    limit_kept = all(r["settings"]["recursionlimit"] == s0["recursionlimit"] for r in runs)
    switch_kept = all(r["settings"]["switchinterval"] == s0["switchinterval"] for r in runs)
    digits_reset = all(r["settings"]["int_max_str_digits"] in (0, -1) for r in good_runs)
    failing_seen = sorted({r.get("raised", "returned") for r in runs if r["argv_kind"] == "bad"})
    out = [HEADER, "import RefurbVerif.Model.History\n", "namespace RefurbVerif.Generated\nopen RefurbVerif.History\n\n"]
    out.append("/-- the process-global components of refurb found by the scan of /repo/refurb (index = component number) -/\n")
    out.append("def globalNames : List String := [\n" + ",\n".join(f"  {lstr(n)}" for n in names) + "]\n\n")
    out.append("/-- where each lives and why it is listed -/\n")
    out.append("def globalWhere : List String := [\n" + ",\n".join(f"  {lstr(sc.components[n]['where'] + ': ' + sc.components[n]['how'])}" for n in names) + "]\n\n")
    out.append("/-- `main()` with `run_refurb()` laid out statement by statement: the accesses of the components above, in source order -/\n")
    out.append("def globalsScript : Script := [\n")
    for i, (ins, comment) in enumerate(layout):
        out.append(f"  {ins}{',' if i + 1 < len(layout) else ''}  -- {comment}\n")
    out.append("]\n\n")
    out.append("def globalsTable : GlobalsTable := { names := globalNames, script := globalsScript }\n\n")
    out.append(f"/-- module-level containers of refurb that no function body stores into ({len(sc.const_tables)}): constants -/\n")
    out.append("def constTables : List String := [\n" + ",\n".join(f"  {lstr(n)}" for n in sc.const_tables) + "]\n\n")
    out.append("/-! ### by execution (one worker process: two good runs over " + str(len(PROBE_FILES)) + " idiom files, a run mypy refuses, a run in which a loaded check raises, a good run) -/\n\n")
    out.append("/-- module-level containers of `refurb.*` whose content differs after the runs from what it was after import -/\n")
    out.append("def dynamicMutated : List String := [" + ", ".join(lstr(n) for n in pr["mutated"]) + "]\n\n")
    out.append("/-- of those, the ones that hold nothing but `int`s (object addresses) -/\n")
    out.append("def dynamicOnlyInts : List String := [" + ", ".join(lstr(n) for n in pr["only_ints"]) + "]\n\n")
    out.append(f"/-- how the failing runs ended: {failing_seen} -/\n")
    out.append("def probeFailingRunsSeen : Nat := %d\n\n" % len([r for r in runs if r["argv_kind"] == "bad"]))
    out.append("/-- `sys.getrecursionlimit()` and `sys.getswitchinterval()` after every one of the five runs are what they were before the first -/\n")
    out.append(f"def probeLimitsKept : Bool := {lbool(limit_kept and switch_kept)}\n\n")
    out.append("/-- `sys.get_int_max_str_digits()` is 0 after every good run although it was set to 5000 before the first -/\n")
    out.append(f"def probeDigitsOverwritten : Bool := {lbool(digits_reset)}\n\n")
    out.append("/-- `types.BUILTINS_MYPY_FILE` is a different object after the second good run than after the first -/\n")
    out.append(f"def probeBuiltinsReplaced : Bool := {lbool(pr['builtins_distinct_per_run'])}\n\n")
    for n in sc.notes:
        out.append(f"-- note: {n}\n")
    out.append("\nend RefurbVerif.Generated\n")
    return "".join(out)
