"""C13 — report contract: one line per diagnostic, formats agree, exit 1 iff any.

Lean: Props/C13.lean over Model/Report.lean (colour only adds escapes; one line per item; lines of
the report = items in order; plain/GitHub renderings parse back to the fields; hint iff; exit iff).
Correspondence: model `format`/`sort` vs refurb.main.format_errors / sorted(key=sort_errors) in-process
on generated diagnostic lists (messages with 0-6 back-ticks, %, ::, commas, non-ASCII, quotes, ESC,
backslashes; odd file names; zero/negative/large positions).
Oracle (CLI, end to end): the plain, GitHub and coloured (through a pty) renderings of the same run
parse back to the same (file, line, col, code, message) tuples in the same order; the hint appears iff
there is a diagnostic and --quiet is off; exit status is 1 iff a diagnostic or error line was printed.
"""

from __future__ import annotations

import json
import os
import pty
import re
import subprocess
from concurrent.futures import ThreadPoolExecutor
from pathlib import Path
from typing import Any

from .. import core, settings_io

GENERATED: list[str] = []

ANSI = re.compile(r"\x1b\[[0-9;]*m")
GH_RE = re.compile(r"^::error line=(-?\d+),col=(-?\d+),title=Refurb ([A-Z]{3,4})(\d+),file=(.*?)::(.*)$")

MSG_ATOMS = ["Replace `x` with `y`", "Use `a.b()` instead of `c`", "`", "``", "100%", "%s", "a::b", "x, y", "ünï©ode", "\"q\"", "'q'", "\x1b[31m", "\\1", "\\g<2>", "tab\there", " ", "", "long " * 40, "`a` `b` `c`", "{x}", "日本語", "two  spaces", "x \t y", "nb\u00a0sp", "\u3000wide", "str(\"Hello,   world\")", " lead", "trail  "]
FILES = ["a.py", "sub/b c.py", "ünï.py", "x:y.py", "deep/er/f.py", "a,b.py", "w::z.py"]


def gen_items(rng, n: int) -> list[dict[str, Any]]:
    items = []
    for _ in range(n):
        if rng.random() < 0.12:
            items.append({"k": "text", "s": rng.choice(["refurb: something", "f.py:1: error: bad", "MypyFile:1(\n  x)", "", "ünï"])})
            continue
        msg = "".join(rng.choice(MSG_ATOMS) for _ in range(rng.randint(1, 3)))
        items.append(
            {
                "k": "diag",
                "file": rng.choice(FILES),
                "line": rng.choice([1, 1, 2, 3, 10, 0, -1, 99999, rng.randint(1, 30)]),
                "col": rng.choice([0, 0, 1, 4, -10, 120, rng.randint(0, 40)]),
                "prefix": rng.choice(["FURB", "FURB", "XYZ", "ABCD"]),
                "code": rng.choice([100, 101, 123, 999, 7]),
                "msg": msg,
            }
        )
    return items


def to_errors(items: list[dict[str, Any]]) -> list[Any]:
    from refurb.error import Error

    out: list[Any] = []
    for it in items:
        if it["k"] == "text":
            out.append(it["s"])
        else:
            cls = type("E", (Error,), {"prefix": it["prefix"], "code": it["code"]})
            out.append(cls(it["line"], it["col"], it["msg"], it["file"]))
    return out


def from_errors(errs: list[Any]) -> list[dict[str, Any]]:
    out = []
    for e in errs:
        if isinstance(e, str):
            out.append({"k": "text", "s": e})
        else:
            out.append({"k": "diag", "file": e.filename, "line": e.line, "col": e.column, "prefix": e.prefix, "code": e.code, "msg": e.msg})
    return out


def run_pty(argv: list[str], cwd: Path) -> tuple[int, str]:
    master, slave = pty.openpty()
    env = {k: v for k, v in core.py_env().items() if k != "NO_COLOR"}
    p = subprocess.Popen([core.PY, "-m", "refurb", *argv], cwd=cwd, stdout=slave, stderr=subprocess.PIPE, env=env, close_fds=True)
    os.close(slave)
    chunks = []
    while True:
        try:
            b = os.read(master, 65536)
        except OSError:
            break
        if not b:
            break
        chunks.append(b)
    p.wait()
    os.close(master)
    return p.returncode, b"".join(chunks).decode("utf8", "replace").replace("\r\n", "\n")


def parse_rendering(kind: str, out: str) -> tuple[list[tuple], list[str], bool]:
    """-> (diagnostic tuples in order, other lines, hint present)"""
    hint = core.HINT in out
    body = out.replace("\n\n" + core.HINT, "")
    tuples, other = [], []
    for line in body.split("\n"):
        if kind == "color":
            line = ANSI.sub("", line)
        if kind == "github":
            m = GH_RE.match(line)
            if m:
                tuples.append((m.group(5), int(m.group(1)), int(m.group(2)), m.group(3) + m.group(4), m.group(6)))
            elif line:
                other.append(line)
        else:
            m = core.DIAG_RE.match(line)
            if m:
                tuples.append((m.group("file"), int(m.group("line")), int(m.group("col")), m.group("prefix") + m.group("code"), m.group("msg")))
            elif line:
                other.append(line)
    return tuples, other, hint


PROBE_FILES = {
    "b.py": "x = int(0)\ny = list()\nprint(\"\")\n",
    "a.py": "import os\n\ns = str(\"%d`\")\nz = not not int(1)  \n",
    "sub/c.py": "def f(p):\n    with open(p) as fh:\n        return fh.read()\n\nt = bool(True)\n",
    "clean.py": "x = 1\n",
    "broken.py": "def f(:\n",
    # non-ASCII text to the LEFT of the diagnosed nodes: every format must print the same column
    "uni.py": 'd\u00e9j\u00e0 = 1\nok = "\u20ac\u20ac" and (d\u00e9j\u00e0 == 1 or d\u00e9j\u00e0 == 2)\ns = "\u65e5\u672c" + str("x"); t = int(0)\n',
    "tab.py": 'if True:\n\tv = "\u00fc" or int(0)\n',
}


def run(ctx) -> None:
    res = ctx.res
    rng = ctx.rng("c13")
    from refurb.main import format_errors, sort_errors
    from refurb.settings import Settings
    from functools import partial

    n_lists = 400 if ctx.quick else 5000
    res.rule = (
        "in-process cases: generated item lists (0-8 items; messages from 21 atoms incl. 0-6 back-ticks, %, ::, ESC, backslash groups; 7 file "
        "names; positions incl. 0/negative/large) x {plain, color, github} x {quiet, not} for format_errors, x {filename, error} for sorting; "
        "non-trivial = the list has at least one diagnostic; distinct = distinct (items, format, quiet|sort). End-to-end: 5 probe files x "
        "file-subset scenarios x {plain, github, colour via pty} x {quiet} x {sort}"
    )
    reqs, expect, meta = [], [], []
    with core.scratch("rv-c13-") as d:
        with settings_io.Cwd(d):
            for _ in range(n_lists):
                items = gen_items(rng, rng.randint(0, 8))
                # --- sort
                by = rng.choice(["filename", "error"])
                try:
                    s = Settings(sort_by=by)
                    sorted_impl = from_errors(sorted(to_errors(items), key=partial(sort_errors, settings=s)))
                except TypeError:
                    sorted_impl = None  # text item vs diagnostic with an empty key component: unreachable in refurb
                if sorted_impl is not None:
                    reqs.append({"verb": "sort", "items": items, "by": by})
                    expect.append(sorted_impl)
                    meta.append(("sort", items, by))
                # --- format
                for fmt in ("plain", "color", "github"):
                    quiet = rng.random() < 0.5
                    its = [it for it in items if not (fmt == "github" and it["k"] == "diag" and it["file"].startswith(("/", "..")))]
                    s = Settings(format="github" if fmt == "github" else None, quiet=quiet)
                    s.color = fmt == "color"
                    out = format_errors(to_errors(its), s)
                    rel = [[f, str(Path(f).resolve().relative_to(Path.cwd()))] for f in FILES]
                    reqs.append({"verb": "format", "items": its, "format": fmt, "quiet": quiet, "rel": rel})
                    expect.append({"out": out, "exit": 1 if its else 0})
                    meta.append(("format", its, (fmt, quiet)))
            # ---- the property itself, on the implementation's own functions (no model involved): stripping the SGR
            # escapes from the coloured rendering gives the plain rendering, item by item and in order
            import re as _re

            sgr = _re.compile("\x1b\\[[0-9;]*m")
            seen_viol = 0
            for kind, its, _param in [m for m in meta if m[0] == "format" and m[2][0] == "plain"]:
                sp = Settings(quiet=True)
                sp.color = False
                sc = Settings(quiet=True)
                sc.color = True
                plain = format_errors(to_errors(its), sp)
                colour = format_errors(to_errors(its), sc)
                res.bump("colour_vs_plain_in_process")
                if sgr.sub("", colour) != sgr.sub("", plain) and seen_viol < 3:
                    seen_viol += 1
                    bad = next((it for it in its if sgr.sub("", format_errors(to_errors([it]), sc)) != sgr.sub("", format_errors(to_errors([it]), sp))), its)
                    res.violate(
                        "the coloured rendering is not the plain rendering plus escape sequences",
                        {"kind": "colour-changes-text"},
                        {
                            "items": [bad] if isinstance(bad, dict) else bad,
                            "plain": format_errors(to_errors([bad] if isinstance(bad, dict) else bad), sp),
                            "colour": format_errors(to_errors([bad] if isinstance(bad, dict) else bad), sc),
                            "how": "build refurb.error.Error subclasses with the given prefix/code/line/column/msg/filename and call refurb.main.format_errors twice: Settings(quiet=True) with color False and True; strip \\x1b[...m",
                        },
                    )
            # ---- the property itself for the GitHub rendering, on the implementation's own function: the annotation of one diagnostic
            # carries that diagnostic's line, column (1-based), code, file (relative to the working directory) and its message VERBATIM
            gh_viol = 0
            sg = Settings(format="github", quiet=True)
            sc_one = Settings(quiet=True)
            sc_one.color = True
            seen_items: set[str] = set()
            for kind, its, _param in [m for m in meta if m[0] == "format" and m[2][0] == "github"]:
                for it in its:
                    key = json.dumps(it, sort_keys=True)
                    if it["k"] != "diag" or key in seen_items:
                        continue
                    seen_items.add(key)
                    res.bump("github_vs_item_in_process")
                    out1 = format_errors(to_errors([it]), sg)
                    relf = str(Path(it["file"]).resolve().relative_to(Path.cwd()))
                    plain1 = format_errors(to_errors([it]), Settings(quiet=True))
                    problems = []
                    if not out1.endswith("::" + it["msg"]):
                        problems.append("message")
                    if not out1.startswith(f"::error line={it['line']},col={it['col'] + 1},title=Refurb {it['prefix']}{it['code']},"):
                        problems.append("line/col/code")
                    if f",file={relf}::" not in out1:
                        problems.append("file")
                    if "\n" in out1:
                        problems.append("more than one line")
                    # ... and so does the plain line (same code spelling, same 1-based column, message verbatim)
                    if not (plain1.startswith(f"{it['file']}:{it['line']}:{it['col'] + 1} [{it['prefix']}{it['code']}]: ") and plain1.endswith(it["msg"])):
                        problems.append("plain rendering")
                    colour1 = sgr.sub("", format_errors(to_errors([it]), sc_one))
                    if not (colour1.startswith(f"{it['file']}:{it['line']}:{it['col'] + 1} [{it['prefix']}{it['code']}]: ")):
                        problems.append("coloured rendering")
                    if problems and gh_viol < 3:
                        gh_viol += 1
                        res.violate(
                            f"the renderings of one diagnostic do not carry the same fields ({', '.join(problems)} differ from the diagnostic's own line / column / code / message)",
                            {"kind": "github-differs-from-plain", "what": problems},
                            {"item": it, "plain": plain1, "github": out1,
                             "how": "build a refurb.error.Error subclass instance with the given prefix/code/line/column/msg/filename and call refurb.main.format_errors([e], Settings(format='github', quiet=True)) and format_errors([e], Settings(quiet=True))"},
                        )
            # ---- the same diagnostic rendered again after the working directory changed (several runs in one process): the
            # annotation's file is relative to the directory in force NOW, the plain rendering does not change at all
            import os as _os

            base_ = Path.cwd()
            (base_ / "pkg" / "inner").mkdir(parents=True, exist_ok=True)
            absf = str((base_ / "pkg" / "inner" / "mod.py").resolve())
            it_abs = {"k": "diag", "file": absf, "line": 3, "col": 4, "prefix": "FURB", "code": 123, "msg": "m"}
            seen_gh = []
            try:
                for cwd_, want_rel in ((base_, "pkg/inner/mod.py"), (base_ / "pkg", "inner/mod.py"), (base_ / "pkg" / "inner", "mod.py"), (base_, "pkg/inner/mod.py")):
                    _os.chdir(cwd_)
                    g_ = format_errors(to_errors([it_abs]), Settings(format="github", quiet=True))
                    p_ = format_errors(to_errors([it_abs]), Settings(quiet=True))
                    seen_gh.append((str(cwd_.relative_to(base_)), g_))
                    res.bump("github_after_chdir")
                    if f",file={want_rel}::" not in g_ or not p_.startswith(absf + ":3:5 "):
                        res.violate(
                            f"after the working directory changed to {cwd_.relative_to(base_) or '.'} the GitHub annotation names `{g_.split(',file=')[-1].split('::')[0]}` for {absf} (relative to the directory in force: {want_rel})",
                            {"kind": "github-file-stale-after-chdir"},
                            {"sequence": seen_gh, "plain": p_, "how": "in ONE process: os.chdir(BASE); refurb.main.format_errors([Error(filename=BASE/pkg/inner/mod.py, ...)], Settings(format='github')); os.chdir(BASE/pkg); again; os.chdir(BASE/pkg/inner); again"},
                        )
                        break
            finally:
                _os.chdir(base_)
            # ---- the hint rule on the implementation's own function: present iff at least one diagnostic and not quiet —
            # whatever else is in the list (mypy/refurb text lines, --debug dumps) and in whatever position
            for kind, its, _param in [m for m in meta if m[0] == "format" and m[2][0] == "plain"][: 150 if ctx.quick else 2000]:
                for quiet in (False, True):
                    for colour in (False, True):
                        sq = Settings(quiet=quiet)
                        sq.color = colour
                        outp = format_errors(to_errors(its), sq)
                        has_hint = outp.endswith(core.HINT)
                        want = (not quiet) and any(it["k"] == "diag" for it in its)
                        res.bump("hint_rule_in_process")
                        if has_hint != want and seen_viol < 6:
                            seen_viol += 1
                            res.violate(
                                f"--explain hint {'missing' if want else 'printed'} for a list with {sum(1 for it in its if it['k'] == 'diag')} diagnostic(s) and {sum(1 for it in its if it['k'] == 'text')} text line(s), quiet={quiet}",
                                {"kind": "hint-in-process", "want": want, "quiet": quiet},
                                {"items": its, "quiet": quiet, "color": colour, "output_tail": outp[-200:], "how": "refurb.main.format_errors(items as Error objects / strings, Settings(quiet=...)); the hint is the last paragraph"},
                            )
        if ctx.driver.available():
            answers = ctx.driver.batch(reqs)
            for a, e, m in zip(answers, expect, meta):
                res.case((m[0], json.dumps(m[1], sort_keys=True), m[2]), nontrivial=any(it["k"] == "diag" for it in m[1]))
                res.bump(m[0])
                if a != e:
                    res.disagree(m[0], {"items": m[1], "param": m[2]}, a, e)
        else:
            res.disagreements.append({"where": "driver", "reason": "driver executable not built"})
        if meta:
            res.sample({"verb": meta[1][0], "items": meta[1][1], "param": meta[1][2], "impl": expect[1]})

        # ---- end to end
        for rel_, src in PROBE_FILES.items():
            p = d / rel_
            p.parent.mkdir(parents=True, exist_ok=True)
            p.write_text(src)
        (d / "pyproject.toml").write_text("")
        scenarios = [
            ("three-files", ["b.py", "a.py", "sub/c.py"]),
            ("clean", ["clean.py"]),
            ("mixed", ["clean.py", "a.py"]),
            ("syntax-error", ["broken.py"]),
            ("missing", ["nope.py"]),
            ("debug-clean", ["clean.py", "--debug"]),
            ("debug-diag", ["a.py", "--debug"]),
            ("non-ascii-columns", ["uni.py", "tab.py"]),
            ("dir", ["sub"]),
        ]
        jobs = []
        for name, files in scenarios:
            for quiet in ([], ["--quiet"]):
                for sort in ([], ["--sort", "error"]):
                    if ctx.quick and name not in ("three-files", "debug-clean", "debug-diag") and (quiet or sort):
                        continue
                    jobs.append((name, files, quiet, sort))

        def one(job):
            name, files, quiet, sort = job
            base = [*files, *quiet, *sort, "--enable-all"]
            rc_p, out_p, err_p = core.refurb_cli(base, cwd=d)
            rc_g, out_g, err_g = core.refurb_cli([*base, "--format", "github"], cwd=d)
            rc_c, out_c = run_pty(base, d)
            return job, (rc_p, out_p, err_p), (rc_g, out_g, err_g), (rc_c, out_c)

        with ThreadPoolExecutor(12) as ex:
            results = list(ex.map(one, jobs))
    for (name, files, quiet, sort), (rc_p, out_p, err_p), (rc_g, out_g, err_g), (rc_c, out_c) in results:
        res.case(("e2e", name, tuple(quiet), tuple(sort)))
        res.bump("e2e_runs", 3)
        argv = [*files, *quiet, *sort, "--enable-all"]
        how = "write harness/props/c13.py:PROBE_FILES into an empty directory (plus an empty pyproject.toml) and run python -m refurb with argv; colour needs a tty"
        tp, op, hp = parse_rendering("plain", out_p.rstrip("\n"))
        tg, og, hg = parse_rendering("github", out_g.rstrip("\n"))
        tc, oc, hc = parse_rendering("color", out_c.rstrip("\n"))
        if err_p.strip() or err_g.strip():
            res.violate(f"stderr output / traceback in scenario {name}", {"kind": "stderr", "scenario": name}, {"argv": argv, "stderr": (err_p or err_g)[-600:], "how": how})
            continue
        if not (tp == tg == tc):
            res.violate(
                f"plain, GitHub and coloured renderings disagree on the diagnostics or their order (scenario {name})",
                {"kind": "formats-disagree", "scenario": name, "quiet": bool(quiet), "sort": bool(sort)},
                {"argv": argv, "plain": tp[:8], "github": tg[:8], "color": tc[:8], "how": how},
            )
        if "\x1b" not in out_c and tc:
            res.notes.append("pty run produced no colour; colour rendering not exercised end to end")
        want_hint = bool(tp) and not quiet
        for kind, h in (("plain", hp), ("github", hg), ("color", hc)):
            if h != want_hint:
                res.violate(f"--explain hint {'missing' if want_hint else 'printed'} in {kind} output (scenario {name})", {"kind": "hint", "scenario": name, "format": kind, "quiet": bool(quiet)}, {"argv": argv, "how": how})
        is_debug = "--debug" in files
        err_lines = [l for l in op if l.startswith("refurb: ") or re.match(r"^[^ ]+:\d+:(\d+:)? error: ", l)]
        want_rc = 1 if (tp or err_lines) else 0
        for kind, rc in (("plain", rc_p), ("github", rc_g), ("color", rc_c)):
            if rc != want_rc:
                res.violate(
                    f"exit status {rc} but {'no ' if not want_rc else ''}diagnostic or error line was reported (scenario {name}, {kind})",
                    {"kind": "exit-status", "scenario": name, "debug": is_debug},
                    {"argv": argv, "format": kind, "rc": rc, "diagnostics": len(tp), "error_lines": err_lines[:3], "stdout_head": out_p[:300], "how": how},
                )
                break
        # every diagnostic is exactly one line
        n_lines = len([l for l in out_p.rstrip("\n").replace("\n\n" + core.HINT, "").split("\n") if l]) if not is_debug else None
        if n_lines is not None and n_lines != len(tp) + len(op):
            res.violate("plain output has a different number of lines than items", {"kind": "line-count", "scenario": name}, {"argv": argv, "how": how})

    # ---- GitHub format for a file outside the working directory (Path.relative_to)
    with core.scratch("rv-c13b-") as d2:
        (d2 / "sub").mkdir()
        (d2 / "f.py").write_text("x = int(0)\n")
        rc, out, err = core.refurb_cli(["../f.py", "--format", "github", "--quiet"], cwd=d2 / "sub")
        res.case(("e2e", "github-outside-cwd"))
        tg, og, _ = parse_rendering("github", out.rstrip("\n"))
        if err.strip() or rc not in (0, 1) or not tg:
            res.violate(
                "`--format github` on a file outside the working directory does not produce an annotation",
                {"kind": "github-outside-cwd"},
                {"cwd": "sub/", "argv": ["../f.py", "--format", "github", "--quiet"], "rc": rc, "stdout": out[:300], "stderr": err[-500:], "how": "mkdir sub; write f.py (`x = int(0)`); cd sub; python -m refurb ../f.py --format github"},
            )
    # ---- the three renderings name the same FILE: also outside the working directory, in a sibling whose name starts like it
    with core.scratch("rv-c13c-") as d3:
        for rel in ("app/in.py", "app_tests/t.py", "apple/u.py", "other/v.py"):
            (d3 / rel).parent.mkdir(parents=True, exist_ok=True)
            (d3 / rel).write_text("x = int(0)\ny = list()\n")
        (d3 / "app" / "pyproject.toml").write_text("")
        cwd3 = d3 / "app"
        argv3 = ["in.py", "../app_tests/t.py", "../apple/u.py", "../other/v.py", "--quiet"]
        rc_p, out_p, err_p = core.refurb_cli(argv3, cwd=cwd3)
        rc_g, out_g, err_g = core.refurb_cli([*argv3, "--format", "github"], cwd=cwd3)
        tp3, _, _ = parse_rendering("plain", out_p.rstrip("\n"))
        tg3, _, _ = parse_rendering("github", out_g.rstrip("\n"))
        res.case(("e2e", "github-sibling-prefix"))
        norm = lambda ts: sorted((str((cwd3 / t[0]).resolve()), *t[1:]) for t in ts)  # noqa: E731
        if err_p.strip() or err_g.strip() or not tp3 or norm(tp3) != norm(tg3):
            res.violate(
                "plain and GitHub renderings name different files for a file outside the working directory (sibling directory with a common name prefix)",
                {"kind": "formats-disagree", "scenario": "github-sibling-prefix", "quiet": True, "sort": False},
                {"tree": ["app/in.py", "app_tests/t.py", "apple/u.py", "other/v.py"], "cwd": "app/", "argv": argv3, "plain": [t[0] for t in tp3], "github": [t[0] for t in tg3], "stderr": (err_p or err_g)[-300:],
                 "how": "each file is `x = int(0)\\ny = list()`; cd app; python -m refurb <argv> with and without --format github; resolve the printed file names against app/"},
            )
    res.assumptions += [
        "colour is exercised through a pty (sys.stdout.isatty() true); ANSI SGR sequences are the only escapes refurb emits",
        "in the in-process correspondence GitHub paths are made relative with pathlib exactly as main.py does (the model takes the relative path as an input)",
    ]


def replay(path) -> int:
    print(Path(path).read_text())
    return 0
