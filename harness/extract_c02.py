"""Translator for C02: the Unicode table `repr(str)` consults (`str.isprintable`), from the running interpreter.

Generated/Printable.lean holds the inclusive ranges of code points that are NOT printable; `_stringify` escapes
string literals with `repr(value)[1:-1]`, whose `\\x../\\u..../\\U........` escapes are chosen by this table.
"""

from __future__ import annotations

import sys

from . import extract


@extract.register("Printable")
def gen_printable() -> str:
    ranges: list[list[int]] = []
    for c in range(sys.maxunicode + 1):
        if not chr(c).isprintable():
            if ranges and ranges[-1][1] == c - 1:
                ranges[-1][1] = c
            else:
                ranges.append([c, c])
    return (
        extract.HEADER
        + "namespace RefurbVerif.Generated\n\n"
        + "/-- inclusive ranges of code points for which `str.isprintable()` is false (what `repr` escapes) -/\n"
        + "def nonPrintableRanges : List (Nat × Nat) := %s\n" % extract.llist(["(%d, %d)" % (a, b) for a, b in ranges])
        + "\nend RefurbVerif.Generated\n"
    )
