"""C14 — CLI and config file are equivalent, merge as documented, and fail cleanly.

Lean: Props/C14.lean over Model/Settings.lean (option equivalence, merge laws, files commute with
options, no-crash theorems for the command line and — under a stated guard — for the config file).
Correspondence: model `load_settings` vs refurb.settings.load_settings in-process on generated
(argv, config text) pairs: type-directed configs, an ill-typed stream (every key x every TOML kind,
`tool`/`tool.refurb` of every kind, amend shapes, bad strings), raw undecodable / syntactically
invalid files, option sequences with files interleaved, malformed argument vectors.
Oracle on the implementation: a malformed input must give exit status 1, exactly one stdout line
starting `refurb: `, empty stderr (confirmed through the CLI for every kind of failure seen);
scalar options take the CLI value; moving file arguments among options changes nothing; each option
behaves the same in either place.
"""

from __future__ import annotations

import datetime as dt
import json
import math
from concurrent.futures import ThreadPoolExecutor
from pathlib import Path
from typing import Any

from .. import core, settings_io

GENERATED = ["Unicode"]


# ------------------------------------------------------------------------------------------
# TOML emitter for the value subset we generate (inline forms only)


def toml_value(v: Any) -> str:
    if isinstance(v, bool):
        return "true" if v else "false"
    if isinstance(v, int):
        return str(v)
    if isinstance(v, float):
        if math.isnan(v):
            return "nan"
        if math.isinf(v):
            return "inf" if v > 0 else "-inf"
        return repr(v)
    if isinstance(v, str):
        return json.dumps(v)
    if isinstance(v, (dt.datetime, dt.date, dt.time)):
        return v.isoformat()
    if isinstance(v, list):
        return "[" + ", ".join(toml_value(x) for x in v) + "]"
    if isinstance(v, dict):
        return "{" + ", ".join(f"{json.dumps(k)} = {toml_value(x)}" for k, x in v.items()) + "}"
    raise TypeError(type(v))


def toml_doc(doc: dict[str, Any]) -> str:
    return "".join(f"{json.dumps(k)} = {toml_value(v)}\n" for k, v in doc.items())


KINDS: dict[str, Any] = {
    "str": "s",
    "empty-str": "",
    "int": 7,
    "zero": 0,
    "float": 1.5,
    "zero-float": 0.0,
    "true": True,
    "false": False,
    "datetime": dt.datetime(2024, 1, 2, 3, 4, 5),
    "date": dt.date(2024, 1, 2),
    "array": [1],
    "empty-array": [],
    "table": {"k": 1},
    "empty-table": {},
}
KEYS = ["load", "quiet", "disable_all", "enable_all", "color", "enable", "disable", "ignore", "mypy_args", "python_version", "format", "sort_by", "amend"]
GOOD: dict[str, list[Any]] = {
    "load": [["mod_a"], ["mod_a", "mod_b"]],
    "quiet": [True, False],
    "disable_all": [True, False],
    "enable_all": [True, False],
    "color": [True, False],
    "enable": [["FURB100"], [101, "#pathlib"], ["XYZ100"]],
    "disable": [["FURB100"], [102], ["#string"]],
    "ignore": [[100, "FURB101"], ["#readability"]],
    "mypy_args": [["--strict"], ["--x", "y"]],
    "python_version": ["3.8", "3.12"],
    "format": ["text", "github"],
    "sort_by": ["filename", "error"],
    "amend": [[{"path": "src", "ignore": ["FURB123", 120]}], [{"path": "./a//b/", "ignore": ["#pathlib"]}, {"path": "/abs", "ignore": []}]],
}
BAD_STRINGS = {
    "enable": [["12"], ["FURB12"], ["abcd123"], ["#"], ["FURB١٢٣"], ["123\n"], ["AB123"], ["ABCDE123"], ["furb123"], [""], ["1234"], [1000], [-1], [1.5], [True], [[1]]],
    "ignore": [["x"], ["FURB123 "], [12]],
    "disable": [["FURB"], ["٣٣٣"]],
    "python_version": ["3", "3.x", "²³.1", "3.10.1", "", ".", "3.", "٣.١٠", "3.-1", " 3.8", "3.½", "3.9\n", "3.9 ", "\n3.9", "3.9\r", "3\n.9", "+3.9", "3.+9", "3_0.9", "3.9\x0c"],
    "format": ["json", "", "GitHub"],
    "sort_by": ["file", ""],
    "amend": [
        [{"ignore": ["FURB100"]}],
        [{"path": "x"}],
        [{"path": 1, "ignore": []}],
        [{"path": "x", "ignore": "FURB100"}],
        [{"path": "x", "ignore": ["FURB100"], "enable": ["FURB101"]}],
        [{"path": "x", "ignore": ["nope"]}],
        [1],
        ["s"],
        [[]],
        {"path": "x", "ignore": []},
        "s",
        5,
    ],
    "load": [[1], [True], [["x"]], [{"a": 1}]],
    "mypy_args": [[1, 2.5, True]],
}
RAW_FILES = [
    b"[tool.refurb\n",
    b"tool = \n",
    b"[tool.refurb]\nquiet = tru\n",
    b"[tool.refurb]\nquiet = true\nquiet = false\n",
    b"\xff\xfe[tool.refurb]\n",
    b"[tool.refurb]\nload = ['\xe9']\n",
    b"[tool.refurb]\nunknown_key = 1\nother = 2\n",
    b"",
    b"# only a comment\n",
    b"[tool]\n",
    b"[tool.other]\nx = 1\n",
]

OPTION_ARGV: dict[str, Any] = {
    # config (key, value) -> the same option on the command line
    ("quiet", True): ["--quiet"],
    ("enable_all", True): ["--enable-all"],
    ("disable_all", True): ["--disable-all"],
    ("color", False): ["--no-color"],
    ("load", ("mod_a",)): ["--load", "mod_a"],
    ("load", ("mod_a", "mod_b")): ["--load", "mod_a", "--load", "mod_b"],
    ("enable", ("FURB100",)): ["--enable", "FURB100"],
    ("enable", (101, "#pathlib")): ["--enable", "101,#pathlib"],
    ("disable", ("#string",)): ["--disable", "#string"],
    ("disable", (102,)): ["--disable", "102"],
    ("ignore", (100, "FURB101")): ["--ignore", "100", "--ignore", "FURB101"],
    ("ignore", ("#readability",)): ["--ignore", "#readability"],
    ("mypy_args", ("--strict",)): ["--", "--strict"],
    ("mypy_args", ("--x", "y")): ["--", "--x", "y"],
    ("python_version", "3.8"): ["--python-version", "3.8"],
    ("format", "github"): ["--format", "github"],
    ("sort_by", "error"): ["--sort", "error"],
}

VALUE_OPTS = ["--explain", "--ignore", "--enable", "--disable", "--load", "--config-file", "--python-version", "--format", "--sort", "--timing-stats"]
FLAG_OPTS = ["--debug", "--help", "-h", "--version", "--quiet", "--disable-all", "--enable-all", "--verbose", "-v", "--no-color"]
GOOD_VALUES = {
    "--explain": ["123", "FURB100", "XYZ100"],
    "--ignore": ["100", "FURB101,#x", "#pathlib"],
    "--enable": ["FURB120", "120,#string"],
    "--disable": ["100", "#pathlib"],
    "--load": ["mod_a"],
    "--config-file": ["pyproject.toml", "other.toml"],
    "--python-version": ["3.9", "3.12"],
    "--format": ["text", "github"],
    "--sort": ["filename", "error"],
    "--timing-stats": ["stats.json", "./a//b.json"],
}
BAD_VALUES = {
    "--explain": ["#cat", "12", "FURB", "١٢٣", "123\n", "123\n\n", "ABCDE100", ""],
    "--ignore": ["", "100,", ",", "FURB1000", "abc"],
    "--enable": ["x", "100,,101"],
    "--disable": ["FURB12"],
    "--config-file": ["missing.toml", ".", "", "f.py/x"],
    "--python-version": ["3", "²³.1", "3.x", "3.10.1", "", "٣.٨", "3.⅕", "3.9\n", "3.9 ", "\n3.9", " 3.9", "3.9\r", "+3.9", "3.+9", "3_0.9", "3.9\x0c"],
    "--format": ["json", ""],
    "--sort": ["code", ""],
}


def gen_argvs(rng, n: int) -> list[list[str]]:
    out: list[list[str]] = [[], ["gen"], ["gen", "x.py"], ["--help"], ["--help", "x.py"], ["x.py", "--version"], ["--version"], [""], ["a.py", ""], ["-x"], ["--bogus", "a.py"], ["--", "a", "b"], ["a.py", "--"], ["--no-color", "a.py"]]
    for o in VALUE_OPTS:
        out.append([o])
        out.append(["a.py", o])
        for v in GOOD_VALUES.get(o, []):
            out.append(["a.py", o, v])
            out.append([o, v, "a.py", "b.py"])
        for v in BAD_VALUES.get(o, []):
            out.append(["a.py", o, v])
    for f in FLAG_OPTS:
        out.append([f])
        out.append(["a.py", f])
    for _ in range(n):
        argv: list[str] = []
        for _ in range(rng.randint(1, 8)):
            r = rng.random()
            if r < 0.3:
                argv.append(rng.choice(["a.py", "b.py", "dir", "x y.py"]))
            elif r < 0.5:
                argv.append(rng.choice([f for f in FLAG_OPTS if f not in ("--help", "-h", "--version")]))
            elif r < 0.9:
                o = rng.choice(VALUE_OPTS)
                argv.append(o)
                if rng.random() < 0.95:
                    pool = GOOD_VALUES.get(o, ["v"]) if rng.random() < 0.85 else BAD_VALUES.get(o, ["v"])
                    argv.append(rng.choice(pool))
            elif r < 0.93:
                argv.append(rng.choice(["--help", "--version", "-x", "", "--"]))
            else:
                argv += ["--", "--strict"]
        out.append(argv)
    return out


def gen_configs(rng, n: int) -> list[tuple[str, bytes]]:
    """(label, file bytes)"""
    out: list[tuple[str, bytes]] = []
    for raw in RAW_FILES:
        out.append(("raw", raw))
    for kname, kv in KINDS.items():
        out.append((f"tool:{kname}", toml_doc({"tool": kv}).encode()))
        out.append((f"tool.refurb:{kname}", toml_doc({"tool": {"refurb": kv}}).encode()))
        for key in KEYS:
            out.append((f"{key}:{kname}", toml_doc({"tool": {"refurb": {key: kv}}}).encode()))
    for key, vals in BAD_STRINGS.items():
        for v in vals:
            out.append((f"bad:{key}", toml_doc({"tool": {"refurb": {key: v}}}).encode()))
    for key, vals in GOOD.items():
        for v in vals:
            out.append((f"good:{key}", toml_doc({"tool": {"refurb": {key: v}}}).encode()))
    for _ in range(n):
        cfg: dict[str, Any] = {}
        for key in rng.sample(KEYS, rng.randint(1, 6)):
            r = rng.random()
            if r < 0.8:
                cfg[key] = rng.choice(GOOD[key])
            elif r < 0.9 and key in BAD_STRINGS:
                cfg[key] = rng.choice(BAD_STRINGS[key])
            else:
                cfg[key] = rng.choice(list(KINDS.values()))
        if rng.random() < 0.1:
            cfg[rng.choice(["extra", "Quiet", "ignore_all"])] = 1
        if cfg.get("enable_all") is True and cfg.get("disable_all") is True and rng.random() < 0.5:
            cfg.pop("enable_all")
        out.append(("random", toml_doc({"tool": {"refurb": cfg}}).encode()))
    return out


def impl_load(argv: list[str]) -> dict[str, Any]:
    from refurb.settings import load_settings

    return settings_io.impl_outcome(load_settings, list(argv))


def cli_confirm(d: Path, idx: int, argv: list[str], cfg: bytes | None) -> dict[str, Any]:
    sub = d / f"cli{idx}"
    sub.mkdir()
    if cfg is not None:
        (sub / "pyproject.toml").write_bytes(cfg)
    (sub / "a.py").write_text("x = 1\n")
    rc, out, err = core.refurb_cli(argv, cwd=sub, timeout=120)
    return {"argv": argv, "config_bytes": None if cfg is None else cfg.decode("latin-1"), "rc": rc, "stdout": out[:500], "stderr": err[-700:]}


def malformed_python_version(argv: list[str], raw: bytes | None) -> str | None:
    """the python version the settings would be built from, if it is not `<decimal digits>.<decimal digits>` (harness's own
    statement of 'malformed'; deliberately not stricter than what refurb accepts today: any str.isdecimal() digits)"""
    vals = []
    opts = argv[: argv.index("--")] if "--" in argv else argv
    i = 0
    while i < len(opts):  # an option that takes a value consumes the next argument whatever it looks like
        if opts[i] in VALUE_OPTS:
            if opts[i] == "--python-version" and i + 1 < len(opts):
                vals.append(opts[i + 1])
            i += 2
        else:
            i += 1
    if not vals and raw and "--config-file" not in opts:
        try:
            import tomllib

            v = tomllib.loads(raw.decode("utf-8")).get("tool", {}).get("refurb", {}).get("python_version")
            if isinstance(v, str):
                vals.append(v)
        except Exception:  # noqa: BLE001
            return None
    for v in vals[-1:]:
        parts = v.split(".")
        if not (len(parts) == 2 and all(p.isdecimal() for p in parts)):
            return v
    return None


def clean_failure(v: dict[str, Any]) -> bool:
    lines = v["stdout"].split("\n")
    return v["rc"] == 1 and not v["stderr"] and len(lines) == 2 and lines[1] == "" and lines[0].startswith("refurb: ")


def site_of(label: str, argv: list[str], out: dict[str, Any]) -> dict[str, Any]:
    """Where a dirty failure comes from, as narrowly as the defect allows."""
    if label.startswith(("tool:", "tool.refurb:")):
        return {"site": "settings.parse_config_file", "toml_path": label.split(":")[0], "outcome": out["r"], "exc": out.get("kind")}
    if label == "raw":
        return {"site": "settings.load_settings:read/parse config", "outcome": out["r"], "exc": out.get("kind")}
    if label.startswith(("bad:", "good:", "random")) or ":" in label:
        return {"site": "settings.parse_config_file", "key": label.split(":")[1] if ":" in label else "?", "outcome": out["r"], "exc": out.get("kind")}
    opt = next((a for a in argv if a in VALUE_OPTS), None)
    return {"site": "settings.parse_command_line_args", "option": opt, "outcome": out["r"], "exc": out.get("kind")}


def run(ctx) -> None:
    res = ctx.res
    rng = ctx.rng("c14")
    n_cfg = 300 if ctx.quick else 4000
    n_argv = 400 if ctx.quick else 6000
    configs = gen_configs(rng, n_cfg)
    argvs = gen_argvs(rng, n_argv)
    res.rule = (
        "cases are (argv, config file bytes) pairs: every generated config with a plain argv, every generated argv with no config and "
        "with two fixed configs, plus random pairings; configs = raw undecodable/invalid files + every key x 14 TOML value kinds + tool / "
        "tool.refurb of every kind + bad strings + valid values + random type-directed documents; argvs = every option alone / without "
        "value / with good and bad values + random sequences with files interleaved. Non-trivial = the case carries at least one option "
        "or one config key (everything but the empty argv/empty file); distinct = distinct (argv, bytes)"
    )
    fixed_cfgs = [b"", b"[tool.refurb]\nenable = [\"FURB120\"]\ndisable_all = true\npython_version = \"3.8\"\nformat = \"github\"\nmypy_args = [\"--cfg\"]\nquiet = true\n"]
    cases: list[tuple[str, list[str], bytes | None]] = []
    for label, raw in configs:
        cases.append((label, ["a.py"], raw))
    for argv in argvs:
        cases.append(("argv", argv, None))
        for fc in fixed_cfgs[1:]:
            cases.append(("argv+cfg", argv, fc))
    for _ in range(n_cfg):
        label, raw = rng.choice(configs)
        cases.append((label, rng.choice(argvs), raw))

    impl: list[dict[str, Any]] = []
    files: list[dict[str, Any]] = []
    with core.scratch("rv-c14-") as d:
        with settings_io.Cwd(d):
            (d / "other.toml").write_text("[tool.refurb]\nquiet = true\n")
            last = object()
            for label, argv, raw in cases:
                if raw != last:
                    p = d / "pyproject.toml"
                    if raw is None:
                        p.unlink(missing_ok=True)
                    else:
                        p.write_bytes(raw)
                    last = raw
                impl.append(impl_load(argv))
                # which file does load_settings open?  (the model needs the outcome of reading it)
                cf = None
                it = iter(argv)
                for a in it:
                    if a == "--":
                        break
                    if a in VALUE_OPTS:
                        v = next(it, None)
                        if a == "--config-file" and v is not None:
                            cf = v
                files.append(settings_io.file_outcome(Path(cf or "pyproject.toml")))

            # ---- a law of the property on the implementation itself: the same options behave the same whether there is NO config
            # file or an EMPTY one (`[tool.refurb]` absent) — in particular a malformed command line is refused in both
            law_viol = 0
            seen_argv: set[tuple] = set()
            for (label, argv, raw), out0 in zip(list(cases), list(impl)):
                if raw is not None or "--config-file" in argv or tuple(argv) in seen_argv:
                    continue
                seen_argv.add(tuple(argv))
                (d / "pyproject.toml").write_bytes(b"")
                out1 = impl_load(argv)
                (d / "pyproject.toml").unlink()
                res.bump("law:no-config-equals-empty-config")
                if out0 != out1 and law_viol < 3:
                    law_viol += 1
                    kind = "accepted-without-config-refused-with-empty-config" if out0["r"] == "ok" and out1["r"] == "refurb" else "differs"
                    res.violate(
                        f"the command line {argv} is treated differently with no pyproject.toml ({out0['r']}) and with an empty pyproject.toml ({out1['r']}: {str(out1.get('msg'))[:80]})",
                        {"kind": "no-config-vs-empty-config", "how": kind},
                        {"argv": argv, "without_config": out0, "with_empty_config": out1,
                         "how": "in an empty directory holding a.py (`x = 1`): python -m refurb <argv>; then `touch pyproject.toml` and run it again"},
                    )
            # ---- a classifier is accepted in a list of the config file iff the command line accepts the same text after the
            # matching option (the config reads every element through str()): ill-formed ids, TOML integers, booleans, floats
            vals: list[Any] = [12, 7, 1234, -100, 0, 100, 999, True, False, 1.5, "12", "FURB12", "FURB1234", "furb123", "FURB123", "#", "#x", "XY123", "ABCDE123", "123 ", ""]
            for key_ in ("ignore", "enable", "disable"):
                for v_ in vals:
                    lit = "true" if v_ is True else "false" if v_ is False else json.dumps(v_)
                    (d / "pyproject.toml").write_bytes(f"[tool.refurb]\n{key_} = [{lit}]\n".encode())
                    o_cfg = impl_load(["a.py"])
                    (d / "pyproject.toml").write_bytes(b"")
                    o_cli = impl_load(["a.py", f"--{key_}", str(v_)])
                    res.bump("law:classifier-accepted-alike")
                    if (o_cfg["r"] == "ok") != (o_cli["r"] == "ok") and law_viol < 6:
                        law_viol += 1
                        res.violate(
                            f"`{key_} = [{lit}]` in [tool.refurb] is {'accepted' if o_cfg['r'] == 'ok' else 'refused'} while `--{key_} {str(v_)!r}` on the command line is {'accepted' if o_cli['r'] == 'ok' else 'refused'}",
                            {"kind": "classifier-accepted-differently", "key": key_},
                            {"config": f"[tool.refurb]\n{key_} = [{lit}]\n", "argv_with_config": ["a.py"], "argv_cli": ["a.py", f"--{key_}", str(v_)], "config_outcome": o_cfg, "cli_outcome": o_cli,
                             "how": "a.py (`x = 1`) in an empty directory; once with that pyproject.toml and `python -m refurb a.py`, once with an empty pyproject.toml and the command-line form"},
                        )
            (d / "pyproject.toml").unlink(missing_ok=True)
            last = object()
            for (label, argv, raw), out0 in zip(cases, impl):
                if out0["r"] == "ok" and out0["v"].get("enable_all") and out0["v"].get("disable_all") and law_viol < 6:
                    law_viol += 1
                    res.violate(
                        "contradictory switches (enable-all together with disable-all) are accepted instead of being refused with a refurb: error",
                        {"kind": "malformed-accepted", "option": "enable_all+disable_all"},
                        {"argv": argv, "config_bytes": None if raw is None else raw.decode("latin-1"), "settings": {k: out0["v"].get(k) for k in ("enable_all", "disable_all")},
                         "required": "refurb: error and exit status 1", "how": "write config_bytes (if any) to pyproject.toml and a.py (`x = 1`) in an empty directory; run python -m refurb with argv"},
                    )

        model: list[Any] = [None] * len(cases)
        if ctx.driver.available():
            reqs = [{"verb": "load_settings", "env_color": False, "args": argv, "file": fo} for (_, argv, _), fo in zip(cases, files)]
            model = [settings_io.model_outcome(a) for a in ctx.driver.batch(reqs)]
        else:
            res.disagreements.append({"where": "driver", "reason": "driver executable not built"})

        dirty: dict[str, tuple] = {}
        for i, (label, argv, raw) in enumerate(cases):
            res.case((tuple(argv), raw), nontrivial=bool(argv) or bool(raw))
            res.bump("outcome:" + impl[i]["r"])
            res.bump("stream:" + label.split(":")[0])
            if model[i] is not None and model[i] != impl[i]:
                res.disagree("load_settings", {"argv": argv, "config": None if raw is None else raw.decode("latin-1")}, model[i], impl[i])
            if impl[i]["r"] in ("foreign", "crash"):
                sig = site_of(label, argv, impl[i])
                key = json.dumps(sig, sort_keys=True)
                if key not in dirty or len(argv) + len(raw or b"") < len(dirty[key][1]) + len(dirty[key][2] or b""):
                    dirty[key] = (sig, argv, raw, impl[i])
            elif impl[i]["r"] == "refurb" and "\n" in impl[i]["msg"] and not any("\n" in a for a in argv) and b"\\n" not in (raw or b""):
                res.violate("a refurb: error message spans several lines", {"kind": "multiline-message", "argv": argv}, {"argv": argv, "msg": impl[i]["msg"]})
            elif impl[i]["r"] == "ok" and impl[i]["v"].get("python_version") is not None and (bad_pv := malformed_python_version(argv, raw)) is not None:
                res.violate(
                    f"a malformed python version {bad_pv!r} is accepted (settings are returned, no refurb: error)",
                    {"kind": "malformed-accepted", "option": "python_version", "shape": "trailing-newline" if bad_pv.endswith("\n") else "other"},
                    {"argv": argv, "config_bytes": None if raw is None else raw.decode("latin-1"), "python_version": impl[i]["v"].get("python_version"),
                     "required": "refurb: error and exit status 1 (a version is two runs of decimal digits separated by one dot, nothing else)"},
                )
            elif impl[i]["r"] == "ok" and not impl[i]["v"]["load_all_str"]:
                # a non-string slipped into `load`: only importing it (a real run) shows the crash
                sig = {"site": "settings.parse_config_file", "key": "load", "outcome": "accepted-non-string"}
                key = json.dumps(sig, sort_keys=True)
                dirty.setdefault(key, (sig, argv, raw, impl[i]))
        res.sample({"argv": cases[3][1], "config": (cases[3][2] or b"").decode("latin-1"), "impl": impl[3]["r"]})
        res.sample({"argv": cases[-1][1], "config": (cases[-1][2] or b"").decode("latin-1")[:200], "impl": impl[-1]["r"]})

        # ---- confirm each dirty failure through the CLI
        todo = list(dirty.values())
        refurb_errs = [(c, impl[i]) for i, c in enumerate(cases) if impl[i]["r"] == "refurb"]
        for c, o in rng.sample(refurb_errs, min(12 if ctx.quick else 60, len(refurb_errs))):
            todo.append(({"kind": "sample-clean-failure"}, c[1], c[2], o))
        with ThreadPoolExecutor(16) as ex:
            verdicts = list(ex.map(lambda t: cli_confirm(d, t[0], t[1][1], t[1][2]), list(enumerate(todo))))
    for (sig, argv, raw, out), v in zip(todo, verdicts):
        res.bump("cli_runs")
        if sig.get("kind") == "sample-clean-failure":
            echoed_newline = any("\n" in a for a in argv) or b"\\n" in (raw or b"")  # the message quotes the offending value
            if not clean_failure(v) and not (echoed_newline and v["rc"] == 1 and not v["stderr"] and v["stdout"].startswith("refurb: ")):
                res.violate("a refurb: error was not reported as one line with exit status 1", {"kind": "unclean-refurb-error", "argv": argv}, v)
            continue
        if clean_failure(v):
            continue  # in-process classification was too strict: the CLI behaves
        what = "traceback" if "Traceback" in v["stderr"] else ("message without the `refurb:` prefix" if v["rc"] == 1 else f"exit status {v['rc']}")
        res.violate(
            f"malformed input is not reported as a one-line `refurb:` error ({what}): {sig}",
            sig,
            {**v, "required": "exit 1, exactly one stdout line starting with `refurb: `, empty stderr", "how": "write config_bytes to pyproject.toml (latin-1 round trip) and a.py (`x = 1`) in an empty directory; run python -m refurb with argv"},
        )

    # ---- README merge rules and option equivalence, on the implementation
    from refurb.settings import Settings, parse_command_line_args, parse_config_file

    def merged(cfg: dict[str, Any], argv: list[str]) -> dict[str, Any]:
        text = toml_doc({"tool": {"refurb": cfg}}) if cfg else ""
        return settings_io.settings_json(Settings.merge(parse_config_file(text), parse_command_line_args(argv)))

    for (key, val), argv in OPTION_ARGV.items():
        v = list(val) if isinstance(val, tuple) else val
        a = merged({key: v}, ["a.py", "b.py"])
        b = merged({}, ["a.py", *([] if argv[0] == "--" else argv), "b.py", *(argv if argv[0] == "--" else [])])
        res.case(("option-equiv", key, str(val)))
        if a != b:
            diff = {k: (a[k], b[k]) for k in a if a[k] != b[k]}
            res.violate(
                f"`{key} = {v!r}` in [tool.refurb] does not behave like {argv} on the command line",
                {"kind": "option-equiv", "key": key, "value": str(val)},
                {"config": {key: v}, "argv": argv, "differs": diff},
            )
    scalar_cases = [("python_version", "3.8", ["--python-version", "3.11"], [3, 11]), ("format", "github", ["--format", "text"], "text"), ("sort_by", "error", ["--sort", "filename"], "filename"), ("mypy_args", ["--cfg"], ["--", "--cli"], ["--cli"])]
    for key, cfgv, argv, want in scalar_cases:
        got = merged({key: cfgv}, ["a.py", *argv])[key]
        res.case(("scalar-cli-wins", key))
        if got != want:
            res.violate(f"{key}: config {cfgv!r} + command line {argv} gives {got!r}, the command line should win", {"kind": "scalar-cli-wins", "key": key}, {"config": {key: cfgv}, "argv": argv, "got": got, "want": want})
    # a scalar value the command line refuses is refused in the config file too (and vice versa): "any option expressed in
    # [tool.refurb] behaves like the same option given on the command line" includes being malformed
    flag_of = {"python_version": "--python-version", "format": "--format", "sort_by": "--sort"}
    for key, flag in flag_of.items():
        for v in [x for x in BAD_STRINGS[key] if isinstance(x, str)] + ["3.9", "github", "error"]:
            def refused(f):
                try:
                    f()
                    return False
                except ValueError as e:
                    return str(e).startswith("refurb: ") or True

            try:
                text = toml_doc({"tool": {"refurb": {key: v}}})
            except Exception:  # noqa: BLE001  (a value this TOML writer cannot express)
                continue
            in_cfg = refused(lambda: Settings.merge(parse_config_file(text), parse_command_line_args(["a.py"])))
            on_cli = refused(lambda: parse_command_line_args(["a.py", flag, v]))
            res.case(("malformed-equiv", key, v))
            if in_cfg != on_cli:
                res.violate(
                    f"`{key} = {v!r}` is {'refused' if in_cfg else 'accepted'} in [tool.refurb] but {'refused' if on_cli else 'accepted'} as `{flag} {v!r}` on the command line",
                    {"kind": "malformed-config-vs-cli", "key": key, "empty": v == ""},
                    {"config": {key: v}, "argv": ["a.py", flag, v], "in_config_refused": in_cfg, "on_command_line_refused": on_cli,
                     "how": "refurb.settings.parse_config_file(toml) vs refurb.settings.parse_command_line_args(argv)"},
                )
    # "boolean options are or-ed": a switch the config file already sets changes nothing when it is given (first) on the
    # command line as well — whatever lists the two sides carry.  Checked on the implementation alone.
    bool_flags = {"quiet": "--quiet", "verbose": "--verbose", "enable_all": "--enable-all", "disable_all": "--disable-all"}
    codes = ["FURB100", "FURB105", "FURB109", "FURB120", "FURB123", "#pathlib", "#readability"]
    for _ in range(150 if ctx.quick else 2000):
        key = rng.choice(list(bool_flags))
        cfg: dict[str, Any] = {key: True}
        for lk in ("enable", "disable", "ignore", "load"):
            if rng.random() < 0.6:
                cfg[lk] = rng.sample(codes, rng.randint(1, 3)) if lk != "load" else rng.sample(["m1", "m2", "m3"], rng.randint(1, 2))
        argv: list[str] = ["a.py"]
        for opt in ("--enable", "--disable", "--ignore", "--load"):
            for _k in range(rng.randint(0, 2)):
                argv += [opt, rng.choice(codes) if opt != "--load" else rng.choice(["m1", "m4"])]
        res.case(("redundant-switch", key, json.dumps(cfg, sort_keys=True), tuple(argv)))
        try:
            a = merged(cfg, argv)
            b = merged(cfg, [bool_flags[key], *argv])
        except ValueError:
            continue  # enable_all + disable_all together: refused, covered elsewhere
        if a != b:
            res.violate(
                f"`{key} = true` in [tool.refurb]: giving {bool_flags[key]} on the command line as well changes the settings",
                {"kind": "redundant-switch", "key": key},
                {"config": cfg, "argv_without": argv, "argv_with": [bool_flags[key], *argv], "differs": {k: (a[k], b[k]) for k in a if a[k] != b[k]},
                 "how": "Settings.merge(parse_config_file(toml), parse_command_line_args(argv)) for both argument vectors"},
            )
    # files interleaved among options
    opt_groups = [["--quiet"], ["--enable", "FURB120"], ["--ignore", "100"], ["--python-version", "3.9"], ["--load", "m"], ["--disable-all"], ["--format", "github"]]
    for _ in range(60 if ctx.quick else 600):
        groups = rng.sample(opt_groups, rng.randint(1, 5))
        files_ = ["a.py", "b.py", "c.py"][: rng.randint(1, 3)]
        slots: list[list[str]] = [list(g) for g in groups]
        base = [x for g in slots for x in g] + files_
        pos = sorted(rng.randint(0, len(slots)) for _ in files_)
        inter: list[str] = []
        fi = 0
        for gi in range(len(slots) + 1):
            while fi < len(files_) and pos[fi] == gi:
                inter.append(files_[fi])
                fi += 1
            if gi < len(slots):
                inter += slots[gi]
        res.case(("interleave", tuple(inter)))
        a = settings_io.settings_json(parse_command_line_args(list(base)))
        b = settings_io.settings_json(parse_command_line_args(list(inter)))
        if a != b:
            res.violate("moving file arguments among the options changes the settings", {"kind": "files-commute", "argv": inter}, {"argv_a": base, "argv_b": inter, "differs": {k: (a[k], b[k]) for k in a if a[k] != b[k]}})
    res.assumptions += [
        "tomllib (parsing) and the file system are outside the model: the model receives the outcome of reading and parsing the config file",
        "int()'s 4300-digit limit on --python-version components is not modelled",
        "a newline inside an argument value or TOML string is allowed to make the error message span lines",
    ]


def replay(path) -> int:
    print(Path(path).read_text())
    return 0
