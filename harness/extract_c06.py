"""Translator for C06: the one configurable point of the `is_equivalent` model, read off the code by execution.

Does the NameExpr case compare `name` next to `fullname`?  Probed by calling refurb.checks.common.is_equivalent on
synthetic NameExpr nodes; the sanity probes make the extraction fail (an unproved obligation, not a silent default)
when the NameExpr case stops behaving like either variant the model knows.
"""

from __future__ import annotations

from . import extract
from .extract import HEADER, lbool


def fallback_sees_lines() -> bool:
    """is the `str()` fallback of is_equivalent sensitive to the line a node is on?  (two parsed `lambda: 1` on lines 1 and 2)"""
    from refurb.checks.common import is_equivalent

    from . import astjson

    a, b = astjson.parse_only("(lambda: 1)\n(lambda: 1)\n")
    c, d = astjson.parse_only("(lambda: 1)\n(lambda: 2)\n")
    if is_equivalent(c.expr, d.expr) or not is_equivalent(a.expr, a.expr):
        raise RuntimeError("the fallback of is_equivalent no longer tells `lambda: 1` from `lambda: 2`")
    return not is_equivalent(a.expr, b.expr)


def common_cross_only() -> bool:
    """does get_common_expr_positions only pair an operand of the first half with one of the second half?  (q, q, p, r) -> None"""
    from mypy.nodes import NameExpr

    from refurb.checks.common import get_common_expr_positions

    def nm(name: str) -> NameExpr:
        n = NameExpr(name)
        n.fullname = "m." + name
        return n

    got = get_common_expr_positions(nm("q"), nm("q"), nm("p"), nm("r"))
    sanity = [
        ((nm("p"), nm("q"), nm("p"), nm("r")), (0, 2)),
        ((nm("p"), nm("q"), nm("r"), nm("q")), (1, 3)),
        ((nm("p"), nm("q"), nm("q"), nm("p")), (0, 3)),  # first operand first: (0, 3) comes before (1, 2) in both search orders
        ((nm("p"), nm("q"), nm("r"), nm("s")), None),
    ]
    for args, want in sanity:
        if get_common_expr_positions(*args) != want:
            raise RuntimeError(f"get_common_expr_positions({', '.join(a.name for a in args)}) is no longer {want}")
    if got not in (None, (0, 1)):
        raise RuntimeError(f"get_common_expr_positions(q, q, p, r) = {got}: not a search order the model knows")
    return got is None


@extract.register("EquivCfg")
def gen_equiv_cfg() -> str:
    from mypy.nodes import NameExpr

    from refurb.checks.common import is_equivalent

    def nm(name: str, fullname: str) -> NameExpr:
        n = NameExpr(name)
        n.fullname = fullname
        return n

    same_obj_other_name = bool(is_equivalent(nm("a", "m.x"), nm("b", "m.x")))
    sanity = [
        (nm("a", "m.a"), nm("a", "m.a"), True),
        (nm("a'", "m.a'"), nm("a", "m.a"), True),  # redefinition suffixes are dropped on both fields
        (nm("a", "m.a"), nm("a", "n.a"), False),
        (nm("a", "m.a"), nm("b", "m.b"), False),
    ]
    for x, y, want in sanity:
        if bool(is_equivalent(x, y)) != want:
            raise RuntimeError(f"is_equivalent(NameExpr({x.name} [{x.fullname}]), NameExpr({y.name} [{y.fullname}])) is no longer {want}")
    unresolved_differ = bool(is_equivalent(nm("a", ""), nm("b", "")))
    if unresolved_differ != same_obj_other_name:
        raise RuntimeError("the NameExpr case treats unresolved names differently from resolved ones: not a variant the model knows")
    return (
        HEADER
        + "import RefurbVerif.Model.Equiv\n"
        + "namespace RefurbVerif.Generated\n\n"
        + "/-- by execution of refurb.checks.common.is_equivalent on synthetic NameExpr nodes: two nodes with different `name`\n"
        + "    and equal `fullname` are equivalent iff `cmpName` is false; get_common_expr_positions(q, q, p, r) is None iff `crossOnly` -/\n"
        + "def equivCfg : RefurbVerif.Equiv.Cfg := { cmpName := %s, crossOnly := %s }\n\n" % (lbool(not same_obj_other_name), lbool(common_cross_only()))
        + "/-- the text the fallback compares still carries mypy's line tags (`LambdaExpr:14(`); when false the harness strips\n"
        + "    them from the `sc` it feeds the model (informational on the Lean side) -/\n"
        + "def equivFallbackSeesLines : Bool := %s\n" % lbool(fallback_sees_lines())
        + "\nend RefurbVerif.Generated\n"
    )
