/-
Lemmas about the check matchers of Model/CheckAst.lean (C01): the substitution lemma of the value semantics, and, per check,
that every hit whose verdict names a row of Model/Rules.lean is justified — the row is in the table, the flagged node READS
(`denRoot`) as the row's `old` pattern with the hit's operands substituted, and the operands' annotated classes are the
classes the row declares.  The statements users read are in Props/C01.lean.
-/
import RefurbVerif.Model.CheckAst

namespace RefurbVerif.C01
open RefurbVerif.Py RefurbVerif.CheckAst

deriving instance DecidableEq for Rule

set_option linter.unusedSimpArgs false
set_option linter.unusedVariables false

/-! ### substitution -/

/-- the environment in which a rule's variables stand for the values of the operand expressions -/
def envOfOperands (env : Env) (σ : String → PyExpr) : Env := fun v =>
  match eval env (σ v) with
  | .ok val => some val
  | .error _ => none

/-- **substitution lemma**: evaluating a pattern with operand EXPRESSIONS put in for its variables is evaluating the pattern in the
    environment that binds each variable to its operand's VALUE — provided every operand the pattern mentions evaluates (the
    property's premise: operands do not raise; they are evaluated by a pure `eval`, so how often and in which order does not matter) -/
theorem eval_instantiate (env : Env) (σ : String → PyExpr) (e : PyExpr)
    (h : ∀ v ∈ fv e, ∃ val, eval env (σ v) = .ok val) :
    eval env (instantiate σ e) = eval (envOfOperands env σ) e := by
  induction e with
  | var n =>
    obtain ⟨val, hv⟩ := h n (by simp [fv])
    simp [instantiate, eval, envOfOperands, hv]
  | lit v => rfl
  | _ => simp_all [instantiate, eval, fv, List.mem_append, or_imp, forall_and]

/-! ### what a justified hit is -/

/-- the trusted meaning of the `is_equivalent` oracle (C06's subject): expressions it accepts read alike -/
def EqvSound (o : Oracle) (nm : Expr → String) : Prop := ∀ a b, o.eqv a b = true → den nm a = den nm b

/-- every variable of the row is bound to an operand, and an operand whose class the row declares is annotated with that class
    (`is_same_type(get_mypy_type(operand), <class>)` holds) -/
def ClassesOK (r : Rule) (σ : List (String × Expr)) : Prop :=
  ∀ p ∈ r.vars, ∃ e, σ.lookup p.1 = some e ∧
    (match p.2 with
     | some t => classOfSame e.ann.ty.same = some t
     | none => True)

def InTable (r : Rule) : Prop := r ∈ rules ∨ r ∈ guardedRules ∨ r ∈ refutedRules

/-- a hit is justified when its verdict, if it names a row, names a row OF THE TABLE for the same check, the flagged node reads
    as the row's `old` with the hit's operands put in, and the operands carry the classes the row declares -/
def Justified (nm : Expr → String) (node : Expr) (h : Hit) : Prop :=
  match h.verdict with
  | .row r σ => InTable r ∧ r.code = h.code ∧ denRoot nm node = instantiate (opSubst nm σ) r.old ∧ ClassesOK r σ
  | .outside _ => True

macro "in_table" : tactic => `(tactic| first
  | (apply Or.inl; simp [rules]; done)
  | (apply Or.inr; apply Or.inl; simp [guardedRules]; done)
  | (apply Or.inr; apply Or.inr; simp [refutedRules]; done))

macro "den_simp" r:ident : tactic => `(tactic| simp [$r:ident, denRoot, den, denL, denName, denDisplay, denUnary, denOp, denCompare, denCmp, denIndex, denCall, denCall1,
  denTypeCmp, typeOperand, isTypeNonePos, classOfName, radixOfName, instantiate, opSubst, List.lookup, x, y, z, w, lInt, lTrue, lFalse, lNone, lStrEmpty,
  lListEmpty, lTupleEmpty, lOne, lFloatZero, vInt, vBool, vNone, *])

/-- discharges `ClassesOK` of a concrete row and operand list (class facts among the hypotheses) -/
macro "classes_ok" r:ident : tactic => `(tactic| (intro p hp; simp [$r:ident] at hp; rcases hp with rfl | rfl | rfl | rfl <;> simp_all [List.lookup, anyS, classOfSame]))

/-- a hit whose verdict is the concrete row `r`: in the table, same code, the node reads as `r.old` over the operands, classes fit -/
macro "justify" r:ident : tactic => `(tactic| (exact ⟨by in_table, rfl, by den_simp $r, by classes_ok $r⟩))

theorem fullnameOf_some {e : Expr} {fn : String} (h : fullnameOf e = some fn) : ∃ a n, e = .name a n fn := by
  cases e <;> simp [fullnameOf] at h
  subst h
  exact ⟨_, _, rfl⟩

theorem outside_justified (nm : Expr → String) (node : Expr) (h : Hit) (why : String) (hv : h.verdict = .outside why) :
    Justified nm node h := by simp [Justified, hv]

/-! ### common.py -/

theorem extractBinaryOper_whole {oper : String} {node l r : Expr} (h : extractBinaryOper oper node = some (l, r, true)) :
    ∃ a, node = .op a oper l r := by
  unfold extractBinaryOper at h
  split at h
  · rename_i a o lhs rhs
    split at h
    · rename_i ho
      have ho' : o = oper := by simpa using ho
      split at h
      · split at h <;> simp at h
      · simp only [Option.some.injEq, Prod.mk.injEq, and_true] at h
        obtain ⟨rfl, rfl⟩ := h
        exact ⟨a, by rw [ho']⟩
    · simp at h
  · simp at h

theorem commonChain_whole {o : Oracle} {oper cmp : String} {node a b c d : Expr} {i j : Nat}
    (h : commonChain o oper cmp node = some (a, b, c, d, i, j, true)) :
    ∃ an a1 a2, node = .op an oper (.compare a1 [cmp] [a, b]) (.compare a2 [cmp] [c, d]) ∧ commonPositions o a b c d = some (i, j) := by
  unfold commonChain at h
  split at h
  · rename_i a1 lo a' b' a2 ro c' d' whole hx
    split at h
    · rename_i hops
      split at h
      · rename_i i' j' hp
        simp only [Option.some.injEq, Prod.mk.injEq] at h
        obtain ⟨rfl, rfl, rfl, rfl, rfl, rfl, rfl⟩ := h
        obtain ⟨an, rfl⟩ := extractBinaryOper_whole hx
        simp only [Bool.and_eq_true, beq_iff_eq] at hops
        obtain ⟨rfl, rfl⟩ := hops
        exact ⟨an, a1, a2, rfl, hp⟩
      · simp at h
    · simp at h
  · simp at h

theorem commonPositions_02 {o : Oracle} {a b c d : Expr} (h : commonPositions o a b c d = some (0, 2)) : o.eqv a c = true := by
  unfold commonPositions at h
  cases h1 : o.eqv a c <;> cases h2 : o.eqv a d <;> cases h3 : o.eqv b c <;> cases h4 : o.eqv b d <;> simp_all

theorem commonPositions_03 {o : Oracle} {a b c d : Expr} (h : commonPositions o a b c d = some (0, 3)) : o.eqv a d = true := by
  unfold commonPositions at h
  cases h1 : o.eqv a c <;> cases h2 : o.eqv a d <;> cases h3 : o.eqv b c <;> cases h4 : o.eqv b d <;> simp_all

theorem commonPositions_12 {o : Oracle} {a b c d : Expr} (h : commonPositions o a b c d = some (1, 2)) : o.eqv b c = true := by
  unfold commonPositions at h
  cases h1 : o.eqv a c <;> cases h2 : o.eqv a d <;> cases h3 : o.eqv b c <;> cases h4 : o.eqv b d <;> simp_all

/-! ### the checks -/

theorem match108_justified (o : Oracle) (nm : Expr → String) (hs : EqvSound o nm) (node : Expr) (h : Hit)
    (hm : h ∈ match108 o node) : Justified nm node h := by
  unfold match108 at hm
  split at hm
  · rename_i a b c d i j whole hc
    simp only [List.mem_singleton] at hm
    subst hm
    cases whole with
    | false => simp [Justified, hit, notWhole]
    | true =>
      obtain ⟨an, a1, a2, rfl, hp⟩ := commonChain_whole hc
      by_cases hij : (i == 0 && j == 2) = true
      · simp only [Bool.and_eq_true, beq_iff_eq] at hij
        obtain ⟨rfl, rfl⟩ := hij
        have hac := hs _ _ (commonPositions_02 hp)
        simp only [Justified, hit, Bool.not_true, Bool.false_eq_true, ↓reduceIte, beq_self_eq_true, Bool.and_self]
        justify r108_eq_or_eq
      · simp [Justified, hit, hij]
  · simp at hm

theorem match124for_justified (o : Oracle) (nm : Expr → String) (hs : EqvSound o nm) (cmp : String) (node : Expr) (h : Hit)
    (hm : h ∈ match124for o cmp node) : Justified nm node h := by
  unfold match124for at hm
  split at hm
  · rename_i a b c d i j whole hc
    simp only [List.mem_singleton] at hm
    subst hm
    cases whole with
    | false => simp [Justified, hit, notWhole]
    | true =>
      obtain ⟨an, a1, a2, rfl, hp⟩ := commonChain_whole hc
      by_cases hcmp : cmp = "=="
      · subst hcmp
        simp only [Justified, hit, Bool.not_true, Bool.false_eq_true, ↓reduceIte, bne_self_eq_false]
        by_cases h02 : (i == 0 && j == 2) = true
        · simp only [Bool.and_eq_true, beq_iff_eq] at h02
          obtain ⟨rfl, rfl⟩ := h02
          have hac := hs _ _ (commonPositions_02 hp)
          simp only [beq_self_eq_true, Bool.and_self, ↓reduceIte]
          justify r124_eq_and_eq
        · by_cases h03 : (i == 0 && j == 3) = true
          · simp only [Bool.and_eq_true, beq_iff_eq] at h03
            obtain ⟨rfl, rfl⟩ := h03
            have hac := hs _ _ (commonPositions_03 hp)
            simp only [h02, beq_self_eq_true, Bool.and_self, ↓reduceIte, Bool.false_eq_true]
            justify r124_eq_and_eq_rev
          · by_cases h12 : (i == 1 && j == 2) = true
            · simp only [Bool.and_eq_true, beq_iff_eq] at h12
              obtain ⟨rfl, rfl⟩ := h12
              have hac := hs _ _ (commonPositions_12 hp)
              simp only [h02, h03, beq_self_eq_true, Bool.and_self, ↓reduceIte, Bool.false_eq_true]
              justify r124_eq_and_eq_mid
            · simp [h02, h03, h12]
      · have : (cmp != "==") = true := by simpa using hcmp
        simp [Justified, hit, this]
  · simp at hm

theorem match124_justified (o : Oracle) (nm : Expr → String) (hs : EqvSound o nm) (node : Expr) (h : Hit)
    (hm : h ∈ match124 o node) : Justified nm node h := by
  unfold match124 at hm
  rcases List.mem_append.mp hm with hm | hm <;> exact match124for_justified o nm hs _ node h hm

theorem match109_justified (nm : Expr → String) (node : Expr) (h : Hit) (hm : h ∈ match109 node) : Justified nm node h := by
  unfold match109 at hm
  split at hm
  · rename_i a oper lhs al items
    split at hm
    · simp only [List.mem_singleton] at hm
      subst hm
      by_cases hop : oper = "in"
      · subst hop
        rcases items with _ | ⟨y, _ | ⟨z, _ | ⟨w, _ | ⟨v, rest⟩⟩⟩⟩ <;>
          simp only [Justified, hit, bne_self_eq_false, Bool.false_eq_true, ↓reduceIte]
        · justify r109_in_list1
        · justify r109_in_list
        · justify r109_in_list3
      · have : (oper != "in") = true := by simpa using hop
        simp [Justified, hit, this]
    · simp at hm
  · split at hm
    · simp only [List.mem_map, List.mem_filter] at hm
      obtain ⟨s, _, rfl⟩ := hm
      simp [Justified, hit]
    · simp at hm
  · simp at hm
theorem match110_justified (o : Oracle) (nm : Expr → String) (hs : EqvSound o nm) (node : Expr) (h : Hit)
    (hm : h ∈ match110 o node) : Justified nm node h := by
  unfold match110 at hm
  split at hm
  · split at hm
    · rename_i a t c e heq
      simp only [List.mem_singleton] at hm
      subst hm
      have htc := hs t c heq
      justify r110_if_else_or
    · simp at hm
  · simp at hm

theorem match114_justified (nm : Expr → String) (node : Expr) (h : Hit) (hm : h ∈ match114 node) : Justified nm node h := by
  unfold match114 at hm
  split at hm
  · split at hm
    · rename_i a o a2 o2 x' heq
      simp only [List.mem_singleton] at hm
      subst hm
      simp only [Bool.and_eq_true, beq_iff_eq] at heq
      obtain ⟨rfl, rfl⟩ := heq
      justify r114_not_not
    · simp at hm
  · simp at hm

/-! FURB115 -/

theorem row115_spec {oper : String} {num : Int} {cls : String} {r : Rule} (h : row115 oper num cls = some r) :
    (oper, num, cls, r) ∈ [("==", 0, "str", r115_len_eq_0_str), ("==", 0, "list", r115_len_eq_0_list), ("==", 0, "tuple", r115_len_eq_0_tuple),
      (">=", 1, "list", r115_len_ge_1_list), (">", 0, "tuple", r115_len_gt_0_tuple), (">", 0, "str", r115_len_gt_0_str),
      ("!=", 0, "str", r115_len_ne_0_str), ("!=", 0, "list", r115_len_ne_0_list)] := by
  unfold row115 at h
  repeat' split at h
  all_goals simp_all

theorem cmp115_justified (nm : Expr → String) (node : Expr) (h : Hit) (hm : h ∈ cmp115 node) : Justified nm node h := by
  unfold cmp115 at hm
  split at hm
  · rename_i a oper ac an1 an2 fn arg kinds names ai num
    split at hm
    · rename_i hlen
      split at hm
      · simp at hm
      · rename_i truthy hl
        simp only [List.mem_singleton] at hm
        subst hm
        by_cases hk : (kinds == [ArgKind.pos] && names == [none] && isSimple115 arg) = true
        · have hfn : fn = "builtins.len" := by
            simp [isLenCall] at hlen
            exact hlen.1
          cases hr : row115 oper num arg.ann.ty.same with
          | none => simp [Justified, hit, hk, hr]
          | some r =>
            simp only [Justified, hit, hk, hr, ↓reduceIte]
            simp only [Bool.and_eq_true, beq_iff_eq] at hk
            obtain ⟨⟨rfl, rfl⟩, _⟩ := hk
            subst hfn
            have := row115_spec hr
            simp only [List.mem_cons, Prod.mk.injEq, List.mem_nil_iff, or_false] at this
            rcases this with ⟨rfl, rfl, hc, rfl⟩ | ⟨rfl, rfl, hc, rfl⟩ | ⟨rfl, rfl, hc, rfl⟩ | ⟨rfl, rfl, hc, rfl⟩ | ⟨rfl, rfl, hc, rfl⟩ |
              ⟨rfl, rfl, hc, rfl⟩ | ⟨rfl, rfl, hc, rfl⟩ | ⟨rfl, rfl, hc, rfl⟩
            · justify r115_len_eq_0_str
            · justify r115_len_eq_0_list
            · justify r115_len_eq_0_tuple
            · justify r115_len_ge_1_list
            · justify r115_len_gt_0_tuple
            · justify r115_len_gt_0_str
            · justify r115_len_ne_0_str
            · justify r115_len_ne_0_list
        · simp [Justified, hit, hk]
    · simp at hm
  · split at hm
    · simp only [List.mem_singleton] at hm
      subst hm
      simp [Justified, hit]
    · simp at hm
  · simp at hm

theorem walk115_justified (nm : Expr → String) (root : Expr) (h : Hit) (hm : h ∈ walk115 root) : ∃ node, Justified nm node h := by
  fun_induction walk115 root with
  | case1 a o l r hor ihl ihr =>
    rcases List.mem_append.mp hm with hm | hm
    · exact ihl hm
    · exact ihr hm
  | case2 => simp at hm
  | case3 a o e ih => exact ih hm
  | case4 a ops operands => exact ⟨_, cmp115_justified nm _ h hm⟩
  | case5 a callee args kinds names hl =>
    simp only [List.mem_singleton] at hm
    subst hm
    exact ⟨.absent, by simp [Justified, hit]⟩
  | case6 => simp at hm
  | case7 => simp at hm

/-! FURB121 -/

theorem row121_spec {t u xc : String} {r : Rule} (h : row121 t u xc = some r) :
    (t = "builtins.int" ∧ u = "builtins.str" ∧ r = r121_int_str) ∨ (t = "builtins.bool" ∧ u = "builtins.float" ∧ r = r121_bool_float) ∨
    (t = "builtins.list" ∧ u = "builtins.tuple" ∧ xc = "list" ∧ r = r121_list_tuple) := by
  unfold row121 at h
  repeat' split at h
  all_goals simp_all

theorem match121_justified (o : Oracle) (nm : Expr → String) (hs : EqvSound o nm) (node : Expr) (h : Hit)
    (hm : h ∈ match121 o node) : Justified nm node h := by
  unfold match121 at hm
  split at hm
  · rename_i al an1 ln lfn l0 l1 lk lnm ar an2 rn rfn r0 r1 rk rnm whole hx
    split at hm
    · rename_i hg
      simp only [List.mem_singleton] at hm
      subst hm
      cases whole with
      | false => simp [Justified, hit, notWhole]
      | true =>
        obtain ⟨an, rfl⟩ := extractBinaryOper_whole hx
        simp only [Bool.and_eq_true, beq_iff_eq, Bool.or_eq_true] at hg
        obtain ⟨⟨hfn, _⟩, heq⟩ := hg
        have h01 := hs _ _ heq
        by_cases hk : (lfn == "builtins.isinstance" && o.py310 && lk == [ArgKind.pos, ArgKind.pos] && rk == [ArgKind.pos, ArgKind.pos]
              && lnm == [none, none] && rnm == [none, none]) = true
        · simp only [Justified, hit, hk, Bool.not_true, Bool.false_eq_true, ↓reduceIte]
          simp only [Bool.and_eq_true, beq_iff_eq] at hk
          obtain ⟨⟨⟨⟨⟨rfl, _⟩, rfl⟩, rfl⟩, rfl⟩, rfl⟩ := hk
          subst hfn
          cases ht : fullnameOf l1 with
          | none => simp [ht]
          | some t =>
            cases hu : fullnameOf r1 with
            | none => simp [hu]
            | some u =>
              obtain ⟨at1, tn1, rfl⟩ := fullnameOf_some ht
              obtain ⟨at2, tn2, rfl⟩ := fullnameOf_some hu
              cases hr : row121 t u l0.ann.ty.same with
              | none => simp [hr, fullnameOf]
              | some r =>
                simp only [hr, fullnameOf]
                rcases row121_spec hr with ⟨rfl, rfl, rfl⟩ | ⟨rfl, rfl, rfl⟩ | ⟨rfl, rfl, hc, rfl⟩
                · justify r121_int_str
                · justify r121_bool_float
                · justify r121_list_tuple
        · simp [Justified, hit, hk]
    · simp at hm
  · simp at hm

/-! FURB123 -/

theorem row123_spec {fn : String} {r : Rule} (h : row123 fn = some r) :
    (fn = "builtins.int" ∧ r = r123_int) ∨ (fn = "builtins.str" ∧ r = r123_str) ∨ (fn = "builtins.bool" ∧ r = r123_bool) ∨
    (fn = "builtins.list" ∧ r = r123_list) ∨ (fn = "builtins.tuple" ∧ r = r123_tuple) := by
  unfold row123 at h
  repeat' split at h
  all_goals simp_all

theorem match123_justified (nm : Expr → String) (node : Expr) (h : Hit) (hm : h ∈ match123 node) : Justified nm node h := by
  unfold match123 at hm
  split at hm
  · rename_i a an n fn arg names
    split at hm
    · rename_i suffix expected hl
      split at hm
      · simp only [List.mem_singleton] at hm
        subst hm
        cases hr : row123 fn with
        | none => simp [Justified, hit, hr]
        | some r =>
          by_cases hn : (names == [none] && classOfSame arg.ann.ty.same == (r.vars.headD ("", none)).2) = true
          · simp only [Justified, hit, hr, hn, ↓reduceIte]
            simp only [Bool.and_eq_true, beq_iff_eq] at hn
            obtain ⟨rfl, hc⟩ := hn
            rcases row123_spec hr with ⟨rfl, rfl⟩ | ⟨rfl, rfl⟩ | ⟨rfl, rfl⟩ | ⟨rfl, rfl⟩ | ⟨rfl, rfl⟩
            · simp [r123_int] at hc; justify r123_int
            · simp [r123_str] at hc; justify r123_str
            · simp [r123_bool] at hc; justify r123_bool
            · simp [r123_list] at hc; justify r123_list
            · simp [r123_tuple] at hc; justify r123_tuple
          · simp only [Justified, hit, hr, if_neg hn]
      · simp at hm
    · simp at hm
  · simp at hm

/-! FURB136 -/

theorem row136_spec {oper lc rc : String} {r : Rule} (h : row136 oper lc rc = some r) :
    (oper, lc, rc, r) ∈ [(">", "int", "int", r136_max_int), ("<", "int", "int", r136_min_int), (">=", "int", "int", r136_max_ge_int),
      ("<=", "int", "int", r136_min_le_int), (">", "str", "str", r136_max_str), ("<", "str", "str", r136_min_str),
      (">", "bool", "int", x136_max_bool_int)] := by
  unfold row136 at h
  repeat' split at h
  all_goals simp_all

theorem row136swapped_spec {oper lc rc : String} {r : Rule} (h : row136swapped oper lc rc = some r) :
    (oper, lc, rc, r) ∈ [(">", "int", "int", r136_min_swapped_int), ("<", "int", "int", r136_max_swapped_int)] := by
  unfold row136swapped at h
  repeat' split at h
  all_goals simp_all

theorem match136_justified (o : Oracle) (nm : Expr → String) (hs : EqvSound o nm) (node : Expr) (h : Hit)
    (hm : h ∈ match136 o node) : Justified nm node h := by
  unfold match136 at hm
  split at hm
  · rename_i a ifE ac oper lhs rhs elseE
    rcases List.mem_append.mp hm with hm | hm
    · split at hm
      · rename_i hg
        split at hm
        · simp only [List.mem_singleton] at hm
          subst hm
          simp only [Bool.and_eq_true] at hg
          have h1 := hs _ _ hg.1
          have h2 := hs _ _ hg.2
          cases hr : row136 oper lhs.ann.ty.same rhs.ann.ty.same with
          | none => simp [Justified, hit, hr]
          | some r =>
            simp only [Justified, hit, hr]
            have := row136_spec hr
            simp only [List.mem_cons, Prod.mk.injEq, List.mem_nil_iff, or_false] at this
            rcases this with ⟨rfl, hl, hrc, rfl⟩ | ⟨rfl, hl, hrc, rfl⟩ | ⟨rfl, hl, hrc, rfl⟩ | ⟨rfl, hl, hrc, rfl⟩ | ⟨rfl, hl, hrc, rfl⟩ |
              ⟨rfl, hl, hrc, rfl⟩ | ⟨rfl, hl, hrc, rfl⟩
            · justify r136_max_int
            · justify r136_min_int
            · justify r136_max_ge_int
            · justify r136_min_le_int
            · justify r136_max_str
            · justify r136_min_str
            · justify x136_max_bool_int
        · simp at hm
      · simp at hm
    · split at hm
      · rename_i hg
        split at hm
        · simp only [List.mem_singleton] at hm
          subst hm
          simp only [Bool.and_eq_true] at hg
          have h1 := hs _ _ hg.1
          have h2 := hs _ _ hg.2
          cases hr : row136swapped oper lhs.ann.ty.same rhs.ann.ty.same with
          | none => simp [Justified, hit, hr]
          | some r =>
            simp only [Justified, hit, hr]
            have := row136swapped_spec hr
            simp only [List.mem_cons, Prod.mk.injEq, List.mem_nil_iff, or_false] at this
            rcases this with ⟨rfl, hl, hrc, rfl⟩ | ⟨rfl, hl, hrc, rfl⟩
            · justify r136_min_swapped_int
            · justify r136_max_swapped_int
        · simp at hm
      · simp at hm
  · simp at hm

/-! FURB143 -/

theorem row143_spec {rhs : Expr} {cls : String} {r : Rule} (h : row143 rhs cls = some r) :
    (∃ a v, rhs = .str a v ∧ cls = "str" ∧ r = r143_or_empty_str) ∨ (∃ a v, rhs = .int a v ∧ cls = "int" ∧ r = r143_or_zero_int) ∨
    (∃ a v, rhs = .list a v ∧ cls = "list" ∧ r = r143_or_empty_list) ∨ (∃ a n fn, rhs = .name a n fn ∧ cls = "bool" ∧ r = r143_or_false_bool) ∨
    (∃ a v, rhs = .tuple a v ∧ cls = "tuple" ∧ r = r143_or_empty_tuple) ∨ (∃ a v, rhs = .float a v ∧ cls = "float" ∧ r = x143_or_zero_float) := by
  cases rhs <;> simp only [row143] at h <;> (try (split at h <;> simp at h)) <;> (try simp at h) <;> simp_all

theorem match143_justified (nm : Expr → String) (node : Expr) (h : Hit) (hm : h ∈ match143 node) : Justified nm node h := by
  unfold match143 at hm
  split at hm
  · rename_i lhs rhs whole hx
    split at hm
    · rename_i hg
      simp only [List.mem_singleton] at hm
      subst hm
      cases whole with
      | false => simp [Justified, hit, notWhole]
      | true =>
        obtain ⟨an, rfl⟩ := extractBinaryOper_whole hx
        simp only [Bool.and_eq_true] at hg
        obtain ⟨⟨hd, _⟩, _⟩ := hg
        simp only [Justified, hit, Bool.not_true, Bool.false_eq_true, ↓reduceIte]
        cases hr : row143 rhs lhs.ann.ty.same with
        | none => simp [hr]
        | some r =>
          simp only [hr]
          rcases row143_spec hr with ⟨a, v, rfl, hc, rfl⟩ | ⟨a, v, rfl, hc, rfl⟩ | ⟨a, v, rfl, hc, rfl⟩ | ⟨a, n, fn, rfl, hc, rfl⟩ |
            ⟨a, v, rfl, hc, rfl⟩ | ⟨a, v, rfl, hc, rfl⟩
          · simp [isDefault143] at hd; subst hd; justify r143_or_empty_str
          · simp [isDefault143] at hd; subst hd; justify r143_or_zero_int
          · rcases v with _ | ⟨v0, vs⟩ <;> simp [isDefault143] at hd
            justify r143_or_empty_list
          · simp [isDefault143] at hd; subst hd; justify r143_or_false_bool
          · rcases v with _ | ⟨v0, vs⟩ <;> simp [isDefault143] at hd
            justify r143_or_empty_tuple
          · simp [isDefault143] at hd; subst hd; justify x143_or_zero_float
    · simp at hm
  · simp at hm

/-! FURB145 -/

theorem match145_justified (nm : Expr → String) (node : Expr) (h : Hit) (hm : h ∈ match145 node) : Justified nm node h := by
  unfold match145 at hm
  split at hm
  · rename_i a base as
    simp only at hm
    split at hm
    · simp only [List.mem_singleton] at hm
      subst hm
      by_cases hl : base.ann.ty.same = "list"
      · simp only [Justified, hit, hl, beq_self_eq_true, ↓reduceIte]
        justify r145_slice_copy_list
      · by_cases ht : base.ann.ty.same = "tuple"
        · simp only [Justified, hit, ht, beq_self_eq_true, ↓reduceIte]
          simp
          justify x145_slice_copy_tuple
        · simp [Justified, hit, hl, ht]
    · simp at hm
  · simp at hm

/-! FURB149 -/

theorem row149_spec {oper lit : String} {r : Rule} (h : row149 oper lit = some r) :
    (oper, lit, r) ∈ [("==", "builtins.True", r149_eq_true), ("is", "builtins.True", r149_is_true), ("!=", "builtins.True", r149_ne_true),
      ("is not", "builtins.True", r149_is_not_true), ("==", "builtins.False", r149_eq_false), ("is", "builtins.False", r149_is_false),
      ("!=", "builtins.False", r149_ne_false), ("is not", "builtins.False", r149_is_not_false)] := by
  unfold row149 at h
  repeat' split at h
  all_goals simp_all

theorem match149_justified (nm : Expr → String) (node : Expr) (h : Hit) (hm : h ∈ match149 node) : Justified nm node h := by
  unfold match149 at hm
  split at hm
  · rename_i a oper lhs rhs
    split at hm
    · split at hm
      · split at hm
        · simp only [List.mem_singleton] at hm
          subst hm
          simp [Justified, hit]
        · split at hm
          · split at hm
            · simp only [List.mem_singleton] at hm
              subst hm
              simp [Justified, hit]
            · simp at hm
          · simp at hm
      · rename_i rn hl hrn
        split at hm
        · rename_i hb
          simp only [List.mem_singleton] at hm
          subst hm
          cases hr : (fullnameOf rhs).bind (row149 oper) with
          | none => simp [Justified, hit, hr]
          | some r =>
            simp only [Justified, hit, hr]
            cases hf : fullnameOf rhs with
            | none => simp [hf] at hr
            | some fn =>
              obtain ⟨ar, nr, rfl⟩ := fullnameOf_some hf
              simp only [fullnameOf, Option.bind_some] at hr
              have hb' : lhs.ann.ty.same = "bool" := by simpa using hb
              have := row149_spec hr
              simp only [List.mem_cons, Prod.mk.injEq, List.mem_nil_iff, or_false] at this
              rcases this with ⟨rfl, rfl, rfl⟩ | ⟨rfl, rfl, rfl⟩ | ⟨rfl, rfl, rfl⟩ | ⟨rfl, rfl, rfl⟩ | ⟨rfl, rfl, rfl⟩ | ⟨rfl, rfl, rfl⟩ |
                ⟨rfl, rfl, rfl⟩ | ⟨rfl, rfl, rfl⟩
              · justify r149_eq_true
              · justify r149_is_true
              · justify r149_ne_true
              · justify r149_is_not_true
              · justify r149_eq_false
              · justify r149_is_false
              · justify r149_ne_false
              · justify r149_is_not_false
        · simp at hm
      · simp at hm
    · simp at hm
  · simp at hm

/-! FURB161 -/

theorem binFunc161_spec (recv : Expr) :
    (∃ ai base asl ai2, recv = .index ai base (.slice asl (.int ai2 2) .absent .absent) ∧ binFunc161 recv = base) ∨ binFunc161 recv = recv := by
  unfold binFunc161
  split
  · rename_i ai base asl ai2 two
    by_cases h2 : two = 2
    · subst h2
      exact Or.inl ⟨ai, base, asl, ai2, rfl, by simp⟩
    · exact Or.inr (by simp [h2])
  · exact Or.inr rfl

theorem match161_justified (o : Oracle) (nm : Expr → String) (node : Expr) (h : Hit) (hm : h ∈ match161 o node) : Justified nm node h := by
  unfold match161 at hm
  split at hm
  · rename_i a am recv m mf as one kinds names
    split at hm
    · simp at hm
    · split at hm
      · rename_i hmo
        split at hm
        · rename_i ab abn bn fn arg bk bnm hbf
          split at hm
          · rename_i hfn
            simp only [List.mem_singleton] at hm
            subst hm
            by_cases hk : (kinds == [ArgKind.pos] && names == [none] && bk == [ArgKind.pos] && bnm == [none] && arg.ann.ty.same == "int") = true
            · simp only [Justified, hit, hk, ↓reduceIte]
              simp only [Bool.and_eq_true, beq_iff_eq] at hk hmo hfn
              obtain ⟨⟨⟨⟨rfl, rfl⟩, rfl⟩, rfl⟩, hc⟩ := hk
              obtain ⟨rfl, rfl⟩ := hmo
              subst hfn
              rcases binFunc161_spec recv with ⟨ai, base, asl, ai2, rfl, hb⟩ | hb
              · rw [hb] at hbf
                subst hbf
                simp only [isIndexExpr, ↓reduceIte]
                justify r161_bit_count_sliced
              · rw [hb] at hbf
                subst hbf
                simp only [isIndexExpr, Bool.false_eq_true, ↓reduceIte]
                justify r161_bit_count
            · simp only [Justified, hit, if_neg hk]
          · simp at hm
        · simp at hm
      · simp at hm
  · simp at hm

theorem isTypeNonePos_spec {e : Expr} (h : isTypeNonePos e = true) :
    ∃ a a1 n1 a2 n2 names, e = .call a (.name a1 n1 "builtins.type") [.name a2 n2 "builtins.None"] [.pos] names := by
  unfold isTypeNonePos at h
  split at h
  · simp only [Bool.and_eq_true, beq_iff_eq] at h
    obtain ⟨rfl, rfl⟩ := h
    exact ⟨_, _, _, _, _, _, rfl⟩
  · simp at h

/-! FURB168 -/

theorem match168_justified (nm : Expr → String) (node : Expr) (h : Hit) (hm : h ∈ match168 node) : Justified nm node h := by
  unfold match168 at hm
  split at hm
  · rename_i a an n fn x' ty kinds names
    split at hm
    · rename_i hfn
      have hfn' : fn = "builtins.isinstance" := by simpa using hfn
      subst hfn'
      split at hm
      · simp only [List.mem_singleton] at hm
        subst hm
        by_cases hk : (kinds == [ArgKind.pos, ArgKind.pos] && names == [none, none] && isTypeNonePos ty) = true
        · simp only [Justified, hit, hk, ↓reduceIte]
          simp only [Bool.and_eq_true, beq_iff_eq] at hk
          obtain ⟨⟨rfl, rfl⟩, htn⟩ := hk
          obtain ⟨ta, ta1, tn1, ta2, tn2, tnames, rfl⟩ := isTypeNonePos_spec htn
          justify r168_isinstance_none
        · simp only [Justified, hit, if_neg hk]
      · split at hm
        · split at hm
          · simp at hm
          · simp only [List.mem_singleton] at hm
            subst hm
            simp [Justified, hit]
        · split at hm
          · split at hm
            · simp at hm
            · simp only [List.mem_singleton] at hm
              subst hm
              simp [Justified, hit]
          · simp at hm
    · simp at hm
  · simp at hm

/-! FURB169 -/

theorem row169_spec {oper : String} {r : Rule} (h : row169 oper = some r) :
    (oper = "is" ∧ r = r169_type_is_none) ∨ (oper = "==" ∧ r = r169_type_eq_none) ∨ (oper = "!=" ∧ r = r169_type_ne_none) ∨
    (oper = "is not" ∧ r = r169_type_is_not_none) := by
  unfold row169 at h
  repeat' split at h
  all_goals simp_all

theorem match169_justified (nm : Expr → String) (node : Expr) (h : Hit) (hm : h ∈ match169 node) : Justified nm node h := by
  unfold match169 at hm
  split at hm
  · rename_i a oper ac an n fn arg kinds names rhs
    split at hm
    · rename_i hg
      simp only [List.mem_singleton] at hm
      subst hm
      by_cases hk : (kinds == [ArgKind.pos] && isTypeNonePos rhs) = true
      · simp only [Bool.and_eq_true, beq_iff_eq] at hg
        obtain ⟨⟨_, rfl⟩, _⟩ := hg
        cases hr : row169 oper with
        | none => simp [Justified, hit, hk, hr]
        | some r =>
          simp only [Justified, hit, hk, hr, ↓reduceIte]
          simp only [Bool.and_eq_true, beq_iff_eq] at hk
          obtain ⟨rfl, htn⟩ := hk
          obtain ⟨ta, ta1, tn1, ta2, tn2, tnames, rfl⟩ := isTypeNonePos_spec htn
          rcases row169_spec hr with ⟨rfl, rfl⟩ | ⟨rfl, rfl⟩ | ⟨rfl, rfl⟩ | ⟨rfl, rfl⟩
          · justify r169_type_is_none
          · justify r169_type_eq_none
          · justify r169_type_ne_none
          · justify r169_type_is_not_none
      · simp only [Justified, hit, if_neg hk]
    · simp at hm
  · simp at hm

/-! FURB171 -/

theorem match171_justified (nm : Expr → String) (node : Expr) (h : Hit) (hm : h ∈ match171 node) : Justified nm node h := by
  unfold match171 at hm
  split at hm
  · rename_i a oper lhs c
    split at hm
    · rename_i hop
      simp only at hm
      split at hm
      · simp only [List.mem_singleton] at hm
        subst hm
        by_cases hin : oper = "in"
        · subst hin
          simp only [Justified, hit, beq_self_eq_true, ↓reduceIte]
          justify r171_in_single
        · have hni : oper = "not in" := by simpa [hin] using hop
          subst hni
          simp only [Justified, hit]
          simp
          justify r171_not_in_single
      · simp only [List.mem_singleton] at hm
        subst hm
        by_cases hin : oper = "in"
        · subst hin
          simp only [Justified, hit, beq_self_eq_true, ↓reduceIte]
          justify r171_in_single_list
        · have : (oper == "in") = false := by simpa using hin
          simp [Justified, hit, this]
      · simp only [List.mem_singleton] at hm
        subst hm
        simp [Justified, hit]
      · simp at hm
    · simp at hm
  · simp at hm

/-! FURB183 -/

theorem match183_justified (nm : Expr → String) (node : Expr) (h : Hit) (hm : h ∈ match183 node) : Justified nm node h := by
  unfold match183 at hm
  split at hm
  · rename_i a am as fmt m mf arg asp spec kinds names
    split at hm
    · rename_i hg
      split at hm
      · simp at hm
      · simp only [List.mem_singleton] at hm
        subst hm
        by_cases hk : (kinds == [ArgKind.pos, ArgKind.pos] && names == [none, none]) = true
        · simp only [Justified, hit, hk, ↓reduceIte]
          simp only [Bool.and_eq_true, beq_iff_eq] at hk hg
          obtain ⟨rfl, rfl⟩ := hk
          obtain ⟨⟨rfl, rfl⟩, rfl⟩ := hg
          justify r183_fstring
        · simp only [Justified, hit, if_neg hk]
    · simp at hm
  · simp at hm

/-! FURB188 -/

/-- when `does_expr_match_slice_amount` accepts a `len(…)` bound, the affix and the argument of `len` are equivalent -/
theorem sliceAmountOK_prefix_len {o : Oracle} {arg : Expr} {as al an1 : Ann} {ln lf : String} {lenArg : Expr} {ks : List ArgKind} {ns : List (Option String)} {st : Expr}
    (h : sliceAmountOK o "startswith" arg (.slice as (.call al (.name an1 ln lf) [lenArg] ks ns) .absent st) = true) : o.eqv arg lenArg = true := by
  unfold sliceAmountOK at h
  simp only [beq_self_eq_true, ↓reduceIte, Bool.or_eq_true, Bool.and_eq_true] at h
  rcases h with h | h
  · first | (split at h <;> simp at h) | simp at h | exact h.elim
  · exact h.2

theorem sliceAmountOK_suffix_len {o : Oracle} {arg : Expr} {as au al an1 : Ann} {m ln lf : String} {lenArg : Expr} {ks : List ArgKind} {ns : List (Option String)} {st : Expr}
    (h : sliceAmountOK o "endswith" arg (.slice as .absent (.unary au m (.call al (.name an1 ln lf) [lenArg] ks ns)) st) = true) : o.eqv arg lenArg = true := by
  unfold sliceAmountOK at h
  simp only [show ("endswith" == "startswith") = false by decide, Bool.false_eq_true, beq_self_eq_true, ↓reduceIte, Bool.or_eq_true, Bool.and_eq_true] at h
  rcases h with h | h
  · first | (split at h <;> simp at h) | simp at h | exact h.elim
  · exact h.2

theorem verdict188_row {fname : String} {x' y' sl : Expr} {fk : List ArgKind} {fnm : List (Option String)} {r : Rule} {σ : List (String × Expr)}
    (h : verdict188 fname x' y' sl fk fnm = .row r σ) :
    fk = [.pos] ∧ fnm = [none] ∧ σ = [("x", x'), ("y", y')] ∧
    ((∃ asl al an1 ln lenArg, sl = .slice asl (.call al (.name an1 ln "builtins.len") [lenArg] [.pos] [none]) .absent .absent ∧ fname = "startswith" ∧
        ((x'.ann.ty.same = "str" ∧ y'.ann.ty.same = "str" ∧ r = r188_removeprefix) ∨ r = r188_removeprefix_any)) ∨
     (∃ asl au al an1 ln lenArg, sl = .slice asl .absent (.unary au "-" (.call al (.name an1 ln "builtins.len") [lenArg] [.pos] [none])) .absent ∧
        fname = "endswith" ∧ x'.ann.ty.same = "str" ∧ y'.ann.ty.same = "str" ∧ r = g188_removesuffix)) := by
  unfold verdict188 at h
  split at h
  · rename_i hk
    simp only [Bool.and_eq_true, beq_iff_eq] at hk
    obtain ⟨rfl, rfl⟩ := hk
    split at h
    · split at h
      · rename_i hc
        simp only [Bool.and_eq_true, beq_iff_eq] at hc
        obtain ⟨rfl, rfl⟩ := hc
        split at h
        · rename_i hs
          simp only [Bool.and_eq_true, beq_iff_eq] at hs
          simp only [Verdict.row.injEq] at h
          obtain ⟨rfl, rfl⟩ := h
          exact ⟨rfl, rfl, rfl, Or.inl ⟨_, _, _, _, _, rfl, rfl, Or.inl ⟨hs.1, hs.2, rfl⟩⟩⟩
        · simp only [Verdict.row.injEq] at h
          obtain ⟨rfl, rfl⟩ := h
          exact ⟨rfl, rfl, rfl, Or.inl ⟨_, _, _, _, _, rfl, rfl, Or.inr rfl⟩⟩
      · simp at h
    · split at h
      · rename_i hc
        simp only [Bool.and_eq_true, beq_iff_eq] at hc
        obtain ⟨⟨rfl, rfl⟩, rfl⟩ := hc
        split at h
        · rename_i hs
          simp only [Bool.and_eq_true, beq_iff_eq] at hs
          simp only [Verdict.row.injEq] at h
          obtain ⟨rfl, rfl⟩ := h
          exact ⟨rfl, rfl, rfl, Or.inr ⟨_, _, _, _, _, _, rfl, rfl, hs.1, hs.2, rfl⟩⟩
        · simp at h
      · simp at h
    · simp at h
  · simp at h

theorem match188_justified (o : Oracle) (nm : Expr → String) (hs : EqvSound o nm) (node : Expr) (h : Hit)
    (hm : h ∈ match188 o node) : Justified nm node h := by
  unfold match188 at hm
  split at hm
  · rename_i a ai sliceLhs asl sb se ac am funcLhs fname mf funcArg fk fnm ifFalse
    split at hm
    · simp at hm
    · split at hm
      · rename_i hg
        simp only [List.mem_singleton] at hm
        subst hm
        simp only [Bool.and_eq_true] at hg
        obtain ⟨⟨⟨hfn, h1⟩, h2⟩, hsl⟩ := hg
        have e1 := hs _ _ h1
        have e2 := hs _ _ h2
        cases hv : verdict188 fname sliceLhs funcArg (.slice asl sb se .absent) fk fnm with
        | outside why => simp [Justified, hit, hv]
        | row r σ =>
          simp only [Justified, hit, hv]
          obtain ⟨rfl, rfl, rfl, hcase⟩ := verdict188_row hv
          rcases hcase with ⟨asl', al, an1, ln, lenArg, hsl', rfl, hr⟩ | ⟨asl', au, al, an1, ln, lenArg, hsl', rfl, hx, hy, rfl⟩
          · simp only [Expr.slice.injEq] at hsl'
            obtain ⟨rfl, rfl, rfl, _⟩ := hsl'
            have e3 := hs _ _ (sliceAmountOK_prefix_len hsl)
            rcases hr with ⟨hx, hy, rfl⟩ | rfl
            · justify r188_removeprefix
            · justify r188_removeprefix_any
          · simp only [Expr.slice.injEq] at hsl'
            obtain ⟨rfl, rfl, rfl, _⟩ := hsl'
            have e3 := hs _ _ (sliceAmountOK_suffix_len hsl)
            justify g188_removesuffix
      · simp at hm
  · simp at hm

/-! FURB192 -/

theorem zeroIndex192_spec {idx : Expr} {b : Bool} (h : zeroIndex192 idx = some b) :
    (b = true ∧ ∃ a, idx = .int a 0) ∨ (b = false ∧ ∃ a a2, idx = .unary a "-" (.int a2 1)) := by
  unfold zeroIndex192 at h
  split at h
  · rename_i a v
    split at h
    · rename_i hv
      simp only [Option.some.injEq] at h
      have hv' : v = 0 := by simpa using hv
      subst hv'
      exact Or.inl ⟨h.symm, _, rfl⟩
    · simp at h
  · split at h
    · rename_i hv
      simp only [Bool.and_eq_true, beq_iff_eq] at hv
      obtain ⟨rfl, rfl⟩ := hv
      simp only [Option.some.injEq] at h
      exact Or.inr ⟨h.symm, _, _, rfl⟩
    · simp at h
  · simp at h

/-- with a `reverse=` keyword the scan only goes through when its value is the literal `True` -/
theorem scan192_reverse {a : Expr} {rev : Bool} {key : String} {res : Bool × String}
    (h : scan192 [some "reverse"] [a] rev key = some res) : ∃ an n, a = .name an n "builtins.True" := by
  simp only [scan192, beq_self_eq_true, ↓reduceIte] at h
  cases ht : isTrueLiteral a with
  | false => simp [ht] at h
  | true =>
    unfold isTrueLiteral at ht
    split at ht
    · have := beq_iff_eq.mp ht
      subst this
      exact ⟨_, _, rfl⟩
    · simp at ht

theorem verdict192_row {arg1 : Expr} {args : List Expr} {kinds : List ArgKind} {n0 : Option String} {argNames : List (Option String)}
    {isZero : Bool} {r : Rule} {σ : List (String × Expr)} (h : verdict192 arg1 args kinds n0 argNames isZero = .row r σ) :
    arg1.ann.ty.same = "list" ∧ σ = [("x", arg1)] ∧ n0 = none ∧
    ((args = [] ∧ kinds = [.pos] ∧ argNames = [] ∧ ((isZero = true ∧ r = r192_sorted_0_ints) ∨ (isZero = false ∧ r = g192_sorted_last))) ∨
     (kinds = [.pos, .named] ∧ argNames = [some "reverse"] ∧ args.length = 1 ∧
        ((isZero = true ∧ r = r192_sorted_rev_0_ints) ∨ (isZero = false ∧ r = g192_sorted_rev_last)))) := by
  unfold verdict192 at h
  split at h
  · simp at h
  · rename_i hc
    have hc' : arg1.ann.ty.same = "list" := by simpa using hc
    split at h
    · rename_i hk
      simp only [Bool.and_eq_true, beq_iff_eq, List.isEmpty_iff] at hk
      obtain ⟨⟨⟨rfl, rfl⟩, rfl⟩, rfl⟩ := hk
      cases isZero <;> simp only [Bool.false_eq_true, ↓reduceIte, Verdict.row.injEq] at h <;> obtain ⟨rfl, rfl⟩ := h <;> simp [hc']
    · split at h
      · rename_i hk
        simp only [Bool.and_eq_true, beq_iff_eq] at hk
        obtain ⟨⟨⟨rfl, rfl⟩, rfl⟩, hlen⟩ := hk
        cases isZero <;> simp only [Bool.false_eq_true, ↓reduceIte, Verdict.row.injEq] at h <;> obtain ⟨rfl, rfl⟩ := h <;> simp [hc', hlen]
      · simp at h

theorem match192_justified (nm : Expr → String) (node : Expr) (h : Hit) (hm : h ∈ match192 node) : Justified nm node h := by
  unfold match192 at hm
  split at hm
  · rename_i a ac an n fn arg1 args kinds n0 argNames idx
    split at hm
    · rename_i isZero hz
      split at hm
      · rename_i hfn
        have hfn' : fn = "builtins.sorted" := by simpa using hfn
        subst hfn'
        split at hm
        · rename_i isReversed key hscan
          simp only [List.mem_singleton] at hm
          subst hm
          cases hv : verdict192 arg1 args kinds n0 argNames isZero with
          | outside why => simp [Justified, hit, hv]
          | row r σ =>
            simp only [Justified, hit, hv]
            obtain ⟨hc, rfl, rfl, hcase⟩ := verdict192_row hv
            rcases hcase with ⟨rfl, rfl, rfl, hr⟩ | ⟨rfl, rfl, hlen, hr⟩
            · rcases hr with ⟨rfl, rfl⟩ | ⟨rfl, rfl⟩
              · rcases zeroIndex192_spec hz with ⟨_, ai, rfl⟩ | ⟨hf, _⟩
                · justify r192_sorted_0_ints
                · simp at hf
              · rcases zeroIndex192_spec hz with ⟨hf, _⟩ | ⟨_, ai, ai2, rfl⟩
                · simp at hf
                · justify g192_sorted_last
            · rcases args with _ | ⟨ra, _ | ⟨rb, rest⟩⟩ <;> simp at hlen
              obtain ⟨ran, rn, rfl⟩ := scan192_reverse hscan
              rcases hr with ⟨rfl, rfl⟩ | ⟨rfl, rfl⟩
              · rcases zeroIndex192_spec hz with ⟨_, ai, rfl⟩ | ⟨hf, _⟩
                · justify r192_sorted_rev_0_ints
                · simp at hf
              · rcases zeroIndex192_spec hz with ⟨hf, _⟩ | ⟨_, ai, ai2, rfl⟩
                · simp at hf
                · justify g192_sorted_rev_last
        · simp at hm
      · simp at hm
    · simp at hm
  · simp at hm

/-! ### every hit carries the code of its check -/

macro "hit_code" f:ident : tactic => `(tactic| (unfold $f at *; (repeat' split at *) <;> simp_all [hit]))

theorem match108_code (o : Oracle) (node : Expr) (h : Hit) (hm : h ∈ match108 o node) : h.code = 108 := by hit_code match108
theorem match109_code (node : Expr) (h : Hit) (hm : h ∈ match109 node) : h.code = 109 := by
  unfold match109 at hm
  (repeat' split at hm) <;> simp_all [hit]
  obtain ⟨s, _, rfl⟩ := hm
  rfl
theorem match110_code (o : Oracle) (node : Expr) (h : Hit) (hm : h ∈ match110 o node) : h.code = 110 := by hit_code match110
theorem match114_code (node : Expr) (h : Hit) (hm : h ∈ match114 node) : h.code = 114 := by hit_code match114
theorem cmp115_code (node : Expr) (h : Hit) (hm : h ∈ cmp115 node) : h.code = 115 := by hit_code cmp115
theorem match121_code (o : Oracle) (node : Expr) (h : Hit) (hm : h ∈ match121 o node) : h.code = 121 := by hit_code match121
theorem match123_code (node : Expr) (h : Hit) (hm : h ∈ match123 node) : h.code = 123 := by hit_code match123
theorem match124_code (o : Oracle) (node : Expr) (h : Hit) (hm : h ∈ match124 o node) : h.code = 124 := by
  unfold match124 at hm
  rcases List.mem_append.mp hm with hm | hm <;> (unfold match124for at hm; (repeat' split at hm) <;> simp_all [hit])
theorem match136_code (o : Oracle) (node : Expr) (h : Hit) (hm : h ∈ match136 o node) : h.code = 136 := by
  unfold match136 at hm
  split at hm
  · rcases List.mem_append.mp hm with hm | hm <;> ((repeat' split at hm) <;> simp_all [hit])
  · simp at hm
theorem match143_code (node : Expr) (h : Hit) (hm : h ∈ match143 node) : h.code = 143 := by hit_code match143
theorem match145_code (node : Expr) (h : Hit) (hm : h ∈ match145 node) : h.code = 145 := by hit_code match145
theorem match149_code (node : Expr) (h : Hit) (hm : h ∈ match149 node) : h.code = 149 := by hit_code match149
theorem match161_code (o : Oracle) (node : Expr) (h : Hit) (hm : h ∈ match161 o node) : h.code = 161 := by hit_code match161
theorem match168_code (node : Expr) (h : Hit) (hm : h ∈ match168 node) : h.code = 168 := by hit_code match168
theorem match169_code (node : Expr) (h : Hit) (hm : h ∈ match169 node) : h.code = 169 := by hit_code match169
theorem match171_code (node : Expr) (h : Hit) (hm : h ∈ match171 node) : h.code = 171 := by hit_code match171
theorem match183_code (node : Expr) (h : Hit) (hm : h ∈ match183 node) : h.code = 183 := by hit_code match183
theorem match188_code (o : Oracle) (node : Expr) (h : Hit) (hm : h ∈ match188 o node) : h.code = 188 := by hit_code match188
theorem match192_code (node : Expr) (h : Hit) (hm : h ∈ match192 node) : h.code = 192 := by hit_code match192
/-! ### which rows a check can name -/

theorem match123_rows (node : Expr) (h : Hit) (hm : h ∈ match123 node) (r : Rule) (σ : List (String × Expr)) (hv : h.verdict = .row r σ) :
    r ∈ [r123_int, r123_str, r123_bool, r123_list, r123_tuple] := by
  unfold match123 at hm
  split at hm
  · rename_i a an n fn arg names
    split at hm
    · split at hm
      · simp only [List.mem_singleton] at hm
        subst hm
        simp only [hit] at hv
        cases hr : row123 fn with
        | none => simp [hr] at hv
        | some r' =>
          simp only [hr] at hv
          split at hv
          · simp only [Verdict.row.injEq] at hv
            obtain ⟨rfl, _⟩ := hv
            rcases row123_spec hr with ⟨_, rfl⟩ | ⟨_, rfl⟩ | ⟨_, rfl⟩ | ⟨_, rfl⟩ | ⟨_, rfl⟩ <;> simp
          · simp at hv
      · simp at hm
    · simp at hm
  · simp at hm

theorem match136_rows (o : Oracle) (node : Expr) (h : Hit) (hm : h ∈ match136 o node) (r : Rule) (σ : List (String × Expr))
    (hv : h.verdict = .row r σ) :
    r ∈ [r136_max_int, r136_min_int, r136_max_ge_int, r136_min_le_int, r136_max_str, r136_min_str, r136_min_swapped_int, r136_max_swapped_int] ∨
    r = x136_max_bool_int := by
  unfold match136 at hm
  split at hm
  · rename_i a ifE ac oper lhs rhs elseE
    rcases List.mem_append.mp hm with hm | hm
    · split at hm
      · split at hm
        · simp only [List.mem_singleton] at hm
          subst hm
          simp only [hit] at hv
          cases hr : row136 oper lhs.ann.ty.same rhs.ann.ty.same with
          | none => simp [hr] at hv
          | some r' =>
            simp only [hr, Verdict.row.injEq] at hv
            obtain ⟨rfl, _⟩ := hv
            have := row136_spec hr
            simp only [List.mem_cons, Prod.mk.injEq, List.mem_nil_iff, or_false] at this
            rcases this with ⟨_, _, _, rfl⟩ | ⟨_, _, _, rfl⟩ | ⟨_, _, _, rfl⟩ | ⟨_, _, _, rfl⟩ | ⟨_, _, _, rfl⟩ | ⟨_, _, _, rfl⟩ | ⟨_, _, _, rfl⟩ <;> simp
        · simp at hm
      · simp at hm
    · split at hm
      · split at hm
        · simp only [List.mem_singleton] at hm
          subst hm
          simp only [hit] at hv
          cases hr : row136swapped oper lhs.ann.ty.same rhs.ann.ty.same with
          | none => simp [hr] at hv
          | some r' =>
            simp only [hr, Verdict.row.injEq] at hv
            obtain ⟨rfl, _⟩ := hv
            have := row136swapped_spec hr
            simp only [List.mem_cons, Prod.mk.injEq, List.mem_nil_iff, or_false] at this
            rcases this with ⟨_, _, _, rfl⟩ | ⟨_, _, _, rfl⟩ <;> simp
        · simp at hm
      · simp at hm
  · simp at hm

theorem match143_rows (node : Expr) (h : Hit) (hm : h ∈ match143 node) (r : Rule) (σ : List (String × Expr)) (hv : h.verdict = .row r σ) :
    r ∈ [r143_or_empty_str, r143_or_zero_int, r143_or_empty_list, r143_or_false_bool, r143_or_empty_tuple] ∨ r = x143_or_zero_float := by
  unfold match143 at hm
  split at hm
  · rename_i lhs rhs whole hx
    split at hm
    · simp only [List.mem_singleton] at hm
      subst hm
      simp only [hit] at hv
      cases whole with
      | false => simp [notWhole] at hv
      | true =>
        simp only [Bool.not_true, Bool.false_eq_true, ↓reduceIte] at hv
        cases hr : row143 rhs lhs.ann.ty.same with
        | none => simp [hr] at hv
        | some r' =>
          simp only [hr, Verdict.row.injEq] at hv
          obtain ⟨rfl, _⟩ := hv
          rcases row143_spec hr with ⟨_, _, _, _, rfl⟩ | ⟨_, _, _, _, rfl⟩ | ⟨_, _, _, _, rfl⟩ | ⟨_, _, _, _, _, rfl⟩ | ⟨_, _, _, _, rfl⟩ | ⟨_, _, _, _, rfl⟩ <;> simp
    · simp at hm
  · simp at hm

theorem match145_rows (node : Expr) (h : Hit) (hm : h ∈ match145 node) (r : Rule) (σ : List (String × Expr)) (hv : h.verdict = .row r σ) :
    (r = r145_slice_copy_list ∧ ∃ e, σ = [("x", e)] ∧ e.ann.ty.same = "list") ∨
    (r = x145_slice_copy_tuple ∧ ∃ e, σ = [("x", e)] ∧ e.ann.ty.same = "tuple") := by
  unfold match145 at hm
  split at hm
  · rename_i a base as
    simp only at hm
    split at hm
    · simp only [List.mem_singleton] at hm
      subst hm
      simp only [hit] at hv
      by_cases hl : base.ann.ty.same = "list"
      · simp only [hl, beq_self_eq_true, ↓reduceIte, Verdict.row.injEq] at hv
        obtain ⟨rfl, rfl⟩ := hv
        exact Or.inl ⟨rfl, base, rfl, hl⟩
      · by_cases ht : base.ann.ty.same = "tuple"
        · simp [ht] at hv
          obtain ⟨rfl, rfl⟩ := hv
          exact Or.inr ⟨rfl, base, rfl, ht⟩
        · simp [hl, ht] at hv
    · simp at hm
  · simp at hm

theorem match188_rows (o : Oracle) (node : Expr) (h : Hit) (hm : h ∈ match188 o node) (r : Rule) (σ : List (String × Expr))
    (hv : h.verdict = .row r σ) : r = r188_removeprefix ∨ r = r188_removeprefix_any ∨ r = g188_removesuffix := by
  unfold match188 at hm
  split at hm
  · split at hm
    · simp at hm
    · split at hm
      · simp only [List.mem_singleton] at hm
        subst hm
        simp only [hit] at hv
        obtain ⟨_, _, _, hcase⟩ := verdict188_row hv
        rcases hcase with ⟨_, _, _, _, _, _, _, hr⟩ | ⟨_, _, _, _, _, _, _, _, _, _, rfl⟩
        · rcases hr with ⟨_, _, rfl⟩ | rfl <;> simp
        · simp
      · simp at hm
  · simp at hm

theorem match192_rows (node : Expr) (h : Hit) (hm : h ∈ match192 node) (r : Rule) (σ : List (String × Expr)) (hv : h.verdict = .row r σ) :
    r ∈ [r192_sorted_0_ints, r192_sorted_rev_0_ints, g192_sorted_last, g192_sorted_rev_last] := by
  unfold match192 at hm
  split at hm
  · split at hm
    · split at hm
      · split at hm
        · simp only [List.mem_singleton] at hm
          subst hm
          simp only [hit] at hv
          obtain ⟨_, _, _, hcase⟩ := verdict192_row hv
          rcases hcase with ⟨_, _, _, hr⟩ | ⟨_, _, _, hr⟩ <;> rcases hr with ⟨_, rfl⟩ | ⟨_, rfl⟩ <;> simp
        · simp at hm
      · simp at hm
    · simp at hm
  · simp at hm

end RefurbVerif.C01
