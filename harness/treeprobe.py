"""Worker: run refurb's real pipeline on some files with recording checks and describe what happened.

    python -m harness.treeprobe OUT.json FILE...        (cwd = directory of the files; fresh process)

Produces (JSON):
  trees[file]    the mypy tree of each file, serialised along the REFERENCE child edges
                 (= what mypy's own mypy.traverser.TraverserVisitor follows, tabulated by execution),
                 every node with a run-unique id, its class name and position
  visits[file]   for every node object handed to a check by RefurbVisitor: [id, class, line, column]
                 in call order (all node types are subscribed by a recording check)
  refurb_edges / mypy_edges
                 per (class, field): [min, max] multiplicity with which the visit method of refurb's
                 TraverserVisitor (resp. RefurbVisitor for its overrides, resp. mypy's traverser)
                 handed over a child stored in that field, over all occurrences in the corpus
  unplaced       children handed over that are stored in no field of the node (should be empty)
"""

from __future__ import annotations

import json
import sys
from collections import defaultdict
from typing import Any


def node_fields(node: Any) -> dict[str, list[Any]]:
    """field name -> Node objects stored in it (directly, or inside lists/tuples/dicts, one level of nesting each)."""
    from mypy.nodes import Node
    from mypy.patterns import Pattern

    out: dict[str, list[Any]] = {}
    # mypy's node classes are compiled (no __slots__/__dict__ to inspect): go through dir()
    names = [n for n in dir(node) if not n.startswith("_")]

    def collect(v: Any, acc: list[Any], depth: int = 0) -> None:
        if isinstance(v, (Node, Pattern)):
            acc.append(v)
        elif isinstance(v, (list, tuple)) and depth < 3:
            for x in v:
                collect(x, acc, depth + 1)
        elif isinstance(v, dict) and depth < 3:
            for x in v.values():
                collect(x, acc, depth + 1)

    for name in names:
        try:
            v = getattr(node, name)
        except Exception:  # noqa: BLE001  (unset native attributes raise AttributeError)
            continue
        if callable(v) and not isinstance(v, (Node, Pattern)):
            continue
        acc: list[Any] = []
        collect(v, acc)
        if acc:
            out[name] = acc
    # Argument objects are not Nodes: look through them (FuncItem.arguments[i].initializer / .variable)
    if hasattr(node, "arguments") and node.arguments:
        inits = [a.initializer for a in node.arguments if a.initializer is not None]
        if inits:
            out["arguments.initializer"] = inits
        out["arguments.variable"] = [a.variable for a in node.arguments]
    return out


def place(node: Any, child: Any, fields: dict[str, list[Any]]) -> str | None:
    for name, vals in fields.items():
        if any(v is child for v in vals):
            return name
    return None


def main() -> None:
    out_path, files = sys.argv[1], sys.argv[2:]
    import os

    # alias fields (Model/Tree.lean: aliasFields), passed by the caller: not part of the reference tree
    alias = {tuple(x) for x in json.loads(os.environ.get("RV_ALIAS_FIELDS", "[]"))}
    import mypy.traverser
    import refurb.main as rmain
    from mypy.nodes import Node
    from mypy.patterns import Pattern
    from refurb.settings import Settings
    from refurb.visitor import METHOD_NODE_MAPPINGS, RefurbVisitor, TraverserVisitor

    captured: dict[str, Any] = {}
    real_build = rmain.build

    def build(*a: Any, **k: Any) -> Any:
        res = real_build(*a, **k)
        captured["result"] = res
        return res

    rmain.build = build
    visits_raw: list[Any] = []

    def make_check(ty: Any) -> Any:
        def recording_check(node: Node, errors: list) -> None:  # type: ignore[type-arg]
            visits_raw.append((ty.__name__, node))

        recording_check.__annotations__ = {"node": Node, "errors": list, "return": None}
        return recording_check

    all_types = set(METHOD_NODE_MAPPINGS.values())
    rmain.load_checks = lambda settings: defaultdict(list, {t: [make_check(t)] for t in all_types})

    errors = rmain.run_refurb(Settings(files=files, quiet=True))
    crashed = [e for e in errors if isinstance(e, str)]
    result = captured.get("result")
    if result is None:
        json.dump({"error": crashed}, open(out_path, "w"))
        return

    # ---- reference edges: mypy's own traverser, tabulated by execution on every node of the corpus
    ids: dict[int, int] = {}
    keep: list[Any] = []  # keep objects alive so id() stays unique

    def nid(o: Any) -> int:
        if id(o) not in ids:
            ids[id(o)] = len(ids)
            keep.append(o)
        return ids[id(o)]

    def make_rec(name: str) -> Any:
        def rec(self: Any, o: Any) -> None:
            self.got.append(o)

        return rec

    # mypy's own traverser cannot be subclassed from interpreted code (compiled trait), so its
    # child edges are read off its shipped source: per visit_* method, the attributes of the node
    # parameter it touches, in order of first use.
    import ast
    import inspect

    src = open(mypy.traverser.__file__.replace(".cpython-312-x86_64-linux-gnu.so", ".py") if mypy.traverser.__file__.endswith(".so") else mypy.traverser.__file__).read()
    mod = ast.parse(src)
    mypy_schema: dict[str, list[str]] = {}
    for cls in mod.body:
        if isinstance(cls, ast.ClassDef) and cls.name == "TraverserVisitor":
            for fn in cls.body:
                if isinstance(fn, ast.FunctionDef) and fn.name.startswith("visit_") and len(fn.args.args) == 2:
                    param = fn.args.args[1].arg
                    ann = fn.args.args[1].annotation
                    cname = ann.attr if isinstance(ann, ast.Attribute) else getattr(ann, "id", None)
                    fields: list[str] = []
                    for n in ast.walk(fn):
                        if isinstance(n, ast.Attribute) and isinstance(n.value, ast.Name) and n.value.id == param and n.attr not in fields:
                            fields.append(n.attr)
                    if cname:
                        mypy_schema[cname] = fields
    # FuncDef / LambdaExpr delegate to visit_func (FuncItem)
    for sub in ("FuncDef", "LambdaExpr"):
        mypy_schema[sub] = mypy_schema.get("FuncItem", [])

    def schema_fields(node: Any) -> list[str] | None:
        for klass in type(node).__mro__:
            if klass.__name__ in mypy_schema:
                return mypy_schema[klass.__name__]
        return None

    class RefurbRecorder(TraverserVisitor):
        def __init__(self) -> None:
            self.got: list[Any] = []

    for name in dir(TraverserVisitor):
        if name.startswith("visit_") and name != "visit_func":  # visit_func is a helper, not a dispatch target
            setattr(RefurbRecorder, name, make_rec(name))

    def children_via(visitor_cls: Any, recorder_cls: Any, method: str, node: Any) -> list[Any]:
        rec = recorder_cls()
        getattr(visitor_cls, method)(rec, node)
        return rec.got

    inv = {}
    for mname, klass in METHOD_NODE_MAPPINGS.items():
        inv.setdefault(klass, mname)

    def method_for(node: Any, mapping_owner: Any) -> str | None:
        """the visit method refurb's `accept` dispatches to for this node (exact class)"""
        return inv.get(type(node))

    mypy_edges: dict[tuple[str, str], list[int]] = {}
    refurb_edges: dict[tuple[str, str], list[int]] = {}
    unplaced: list[Any] = []
    no_method: set[str] = set()
    shared: set[tuple[str, str, str]] = set()

    def tally(table: dict[tuple[str, str], list[int]], node: Any, got: list[Any], fields: dict[str, list[Any]], who: str) -> None:
        """multiplicity with which each child stored in a field was handed over; a child stored in
        several fields is attributed to the first reference-schema field holding it"""
        sf = schema_fields(node) or []
        order: list[str] = []
        for f in sf:
            order += ["arguments.initializer", "arguments.variable"] if f == "arguments" else [f]
        order += [f for f in fields if f not in order]
        owner: dict[int, str] = {}
        for fname in order:
            for v in fields.get(fname, []):
                owner.setdefault(id(v), fname)
        counts: dict[int, int] = defaultdict(int)
        for c in got:
            counts[id(c)] += 1
            if id(c) not in owner:
                unplaced.append([who, type(node).__name__, type(c).__name__])
        done: set[int] = set()
        for fname in order:
            for v in fields.get(fname, []):
                if id(v) in done or owner[id(v)] != fname:
                    continue
                done.add(id(v))
                m = counts.get(id(v), 0)
                if m == 0 and fname not in [x for f in sf for x in (["arguments.initializer", "arguments.variable"] if f == "arguments" else [f])]:
                    continue  # a reference field nobody traverses: not an edge
                key = (type(node).__name__, fname)
                lo_hi = table.setdefault(key, [m, m])
                lo_hi[0] = min(lo_hi[0], m)
                lo_hi[1] = max(lo_hi[1], m)

    # RefurbVisitor's effective per-node behaviour: its class-level overrides win over the base
    refurb_effective = RefurbVisitor

    trees: dict[str, Any] = {}
    visits: dict[str, Any] = {}
    kinds_seen: set[str] = set()

    def expand(fields: dict[str, list[Any]], fname: str) -> list[tuple[str, Any]]:
        if fname == "arguments":
            return [("arguments.initializer", c) for c in fields.get("arguments.initializer", [])] + [
                ("arguments.variable", c) for c in fields.get("arguments.variable", [])
            ]
        return [(fname, c) for c in fields.get(fname, [])]

    def serialise(node: Any, seen: set[int]) -> Any:
        """along the reference child edges (mypy's traverser fields), guarding against revisits"""
        kinds_seen.add(type(node).__name__)
        fields = node_fields(node)
        sf = schema_fields(node)
        if sf is None:
            no_method.add(type(node).__name__)
            sf = []
        ref_children: list[tuple[str, Any]] = []
        mine: set[int] = set()
        for fname in sf:
            for fn2, c in expand(fields, fname):
                if id(c) in mine:
                    shared.add((type(node).__name__, next(f for f, c2 in ref_children if c2 is c), fn2))
                    continue  # one child object stored in two fields of this node: attributed to the first
                if (type(node).__name__, fn2) in alias:
                    continue
                mine.add(id(c))
                ref_children.append((fn2, c))
        for fname, c in ref_children:
            key = (type(node).__name__, fname)
            mypy_edges.setdefault(key, [1, 1])
        meth = method_for(node, None)
        if meth is not None and hasattr(refurb_effective, meth):
            rec = RefurbRecorder()
            fn = getattr(refurb_effective, meth)
            try:
                rec.checks = defaultdict(list)  # type: ignore[attr-defined]
                rec.run_check = lambda *a, **k: None  # type: ignore[attr-defined]
                fn(rec, node)
                tally(refurb_edges, node, rec.got, {k: v for k, v in fields.items() if k != "arguments"}, "refurb")
            except Exception as e:  # noqa: BLE001
                unplaced.append(["refurb-exception", type(node).__name__, repr(e)[:200]])
        else:
            no_method.add("refurb:" + type(node).__name__)
        kids: list[Any] = []
        for fname, c in ref_children:
            if id(c) in seen:
                kids.append([fname, {"dup": nid(c)}])
                continue
            seen.add(id(c))
            kids.append([fname, serialise(c, seen)])
        return {"id": nid(node), "kind": type(node).__name__, "line": getattr(node, "line", -1), "col": getattr(node, "column", -1), "kids": kids}

    sys.setrecursionlimit(20000)
    # visits were recorded for all files in order; split them per file by membership in the tree
    file_nodes: dict[str, set[int]] = {}
    for path in files:
        state = next((st for st in result.graph.values() if st.path == path or (st.xpath == path)), None)
        if state is None or state.tree is None:
            continue
        seen: set[int] = {id(state.tree)}
        trees[path] = serialise(state.tree, seen)
        file_nodes[path] = seen
    for path, seen in file_nodes.items():
        visits[path] = []
    stray = []
    for ty, v in visits_raw:
        owner = next((p for p, seen in file_nodes.items() if id(v) in seen), None)
        rec = [nid(v), type(v).__name__, getattr(v, "line", -1), getattr(v, "column", -1), ty]
        if owner is None:
            stray.append(rec)
        else:
            visits[owner].append(rec)

    json.dump(
        {
            "trees": trees,
            "visits": visits,
            "stray_visits": stray,
            "refurb_edges": [[k[0], k[1], v[0], v[1]] for k, v in sorted(refurb_edges.items())],
            "mypy_edges": [[k[0], k[1], v[0], v[1]] for k, v in sorted(mypy_edges.items())],
            "mypy_schema": mypy_schema,
            "unplaced": unplaced[:50],
            "shared_children": sorted(shared),
            "no_method": sorted(no_method),
            "kinds_seen": sorted(kinds_seen),
            "errors": crashed,
        },
        open(out_path, "w"),
    )


if __name__ == "__main__":
    main()
