"""Translator for C05: `SIMPLE_TYPES` and FURB123's `FUNC_NAME_MAPPING`, read from the imported modules (runtime values)."""

from __future__ import annotations

import typing
from typing import Any

from . import extract
from .extract import HEADER, llist, lstr


def expected_to_lean(v: Any) -> str:
    """a member of refurb's `TypeLike` (type | str | object | None) as a Lean `Expected`"""
    if v is None:
        return ".pyNone"
    if v is typing.Any:
        return ".pyAny"
    if isinstance(v, str):
        return ".named " + lstr(v)
    if isinstance(v, type):
        name = v.__qualname__ if v.__module__ == "builtins" else f"{v.__module__}.{v.__qualname__}"
        return ".pyType " + lstr(name)
    raise TypeError(f"cannot express {v!r} as an `Expected`")


def expected_to_json(v: Any) -> Any:
    """the same, in the wire format of Wire/Types.lean"""
    if v is None:
        return {"e": "none"}
    if v is typing.Any:
        return {"e": "any"}
    if isinstance(v, str):
        return {"e": "named", "name": v}
    if isinstance(v, type):
        name = v.__qualname__ if v.__module__ == "builtins" else f"{v.__module__}.{v.__qualname__}"
        return {"e": "type", "name": name}
    raise TypeError(f"cannot express {v!r} as an `Expected`")


@extract.register("SimpleTypes")
def gen_simple_types() -> str:
    from refurb.checks import common
    from refurb.checks.readability import no_unnecessary_cast as c123

    rows = ["(%s, %s)" % (lstr(k), expected_to_lean(v)) for k, v in common.SIMPLE_TYPES.items()]
    fnm = []
    for k, v in c123.FUNC_NAME_MAPPING.items():
        suffix, *expected = v
        fnm.append("(%s, %s, %s)" % (lstr(k), lstr(suffix), llist([expected_to_lean(e) for e in expected])))
    return (
        HEADER
        + "import RefurbVerif.Model.Types\n"
        + "namespace RefurbVerif.Generated\nopen RefurbVerif.Types\n\n"
        + "/-- `refurb.checks.common.SIMPLE_TYPES` (runtime value, in dict order) -/\n"
        + "def simpleTypes : SimpleTypes := [\n  " + ",\n  ".join(rows) + "\n]\n\n"
        + "/-- FURB123's `FUNC_NAME_MAPPING`: callee fullname ↦ (suffix, expected types) -/\n"
        + "def funcNameMapping : FuncNameMapping := [\n  " + ",\n  ".join(fnm) + "\n]\n"
        + "\nend RefurbVerif.Generated\n"
    )
