"""C19 — `refurb gen` output is a loadable, working check for any node selection.

Lean: Props/C19.lean over Model/Gen.lean, Generated/NodeTypes.lean (one row per entry of gen.NODES, regenerated
each run) and Generated/Catalogue.lean.
Correspondence: `gen.main()` is run with the three fzf prompts stubbed (in a helper process, scratch cwd); the
file it writes must be byte-identical to the model's `render`; the model's token-level reading of the written
file must agree with Python's own `ast`; the model's loader verdict must agree with refurb.loader on the
imported module; the model's per-class firing count must agree with the diagnostics of a CLI run.
Oracle (on the implementation): every written file parses, is accepted by `--load` (no TypeError line), fires on
the nodes of exactly the selected types (reference: an independent probe plugin subscribed to every valid node
type, plus a reflective walk of mypy's tree), carries prefix + next free code, is found by `--explain`; target
path handling (.py suffix, parent creation, __init__.py files, loading by module and by package).
"""

from __future__ import annotations

import ast
import collections
import itertools
import json
import os
import stat
import subprocess
from concurrent.futures import ThreadPoolExecutor
from pathlib import Path
from typing import Any

from .. import core, extract, extract_c19

GENERATED = ["Catalogue", "NodeTypes"]

# A file with (at least) one node of every kind the parser + semantic analyser produce from source text.
CORPUS = '''\
from __future__ import annotations
import os, sys as _sys
import os.path
from typing import *
from typing import NamedTuple, NewType, TypedDict, TypeVar, ParamSpec, TypeVarTuple, cast, overload, assert_type, reveal_type
from enum import Enum
from os import *

T = TypeVar("T")
P = ParamSpec("P")
Ts = TypeVarTuple("Ts")
NT = NamedTuple("NT", [("a", int)])
UserId = NewType("UserId", int)
TD = TypedDict("TD", {"a": int})
Color = Enum("Color", "RED GREEN")
Alias = list[int]
Alias2 = List[int]
gen_alias = Alias2
x: int = 1
y = 2.5
z = 3j
s = "str"
b = b"bytes"
e = ...
lst = [1, 2, *[3]]
tup = (1, 2)
st = {1, 2}
dct = {"a": 1, **{}}
c = cast(int, x)
assert_type(x, int)
reveal_type(x)
n = -x
o = x + 1
cmp = x < 2 < 3
cond = 1 if x else 2
idx = lst[0]
sl = lst[1:2:1]
app = List[int]()
mem = os.path
lam = lambda a, b=1: a
lc = [i for i in lst if i]
sc = {i for i in lst}
dc = {i: i for i in lst}
ge = (i for i in lst)
(w := 5)
x += 1
del idx
assert x, "msg"
print(f"{x!r:>{o}}")


def func(a: int, *args: int, k: int = 3, **kw: int) -> Iterator[int]:
    global x
    yield a
    yield from [1]
    return


async def co() -> None:
    await co()
    async for i in agen():
        pass
    async with ctx() as cm:
        pass


def outer() -> None:
    v = 1

    def inner() -> None:
        nonlocal v
        v = 2


@overload
def ov(a: int) -> int: ...
@overload
def ov(a: str) -> str: ...
def ov(a):
    return a


@staticmethod
def deco() -> None:
    pass


class Base:
    attr: int = 0

    def meth(self) -> None:
        super().meth()

    @property
    def prop(self) -> int:
        return 1


class Gen(Generic[T], Base, metaclass=type):
    pass


for i in lst:
    if i:
        break
    elif i == 2:
        continue
    else:
        pass
else:
    pass

while x:
    x -= 1
else:
    pass

try:
    raise ValueError("x") from None
except (ValueError, TypeError) as err:
    pass
else:
    pass
finally:
    pass

with open("f") as fh, open("g"):
    pass

match x:
    case 1:
        pass
    case "a" | "b":
        pass
    case [1, *rest]:
        pass
    case {"k": 1, **kws}:
        pass
    case Base(attr=1) as bb:
        pass
    case None | True:
        pass
    case os.sep:
        pass
    case _:
        pass
'''

# Independent probe: subscribes to every valid node type and reports the class (and MRO) of every node it is
# handed; for the MypyFile it also walks mypy's tree by reflection over the node classes' attributes.
PROBE = '''\
from dataclasses import dataclass
import collections, functools, json, operator
from mypy.nodes import MypyFile, Node, TypeInfo
from refurb.error import Error
from refurb.loader import VALID_NODE_TYPES


@dataclass
class ErrorInfo(Error):
    prefix = "PRB"
    code = 999
    msg: str = ""


ALL = functools.reduce(operator.or_, sorted(VALID_NODE_TYPES, key=lambda t: t.__name__))


def walk(root):
    seen, count, stack = set(), collections.Counter(), [root]
    while stack:
        o = stack.pop()
        if isinstance(o, Node):
            if id(o) in seen or isinstance(o, TypeInfo) or (isinstance(o, MypyFile) and o is not root):
                continue
            seen.add(id(o))
            count[type(o).__name__] += 1
            for cls in type(o).__mro__:
                for name in getattr(cls, "__mypyc_attrs__", ()) or getattr(cls, "__slots__", ()) or ():
                    if name in ("node", "info"):
                        continue
                    try:
                        stack.append(getattr(o, name))
                    except AttributeError:
                        pass
        elif isinstance(o, (list, tuple)):
            stack.extend(o)
        elif isinstance(o, dict):
            stack.extend(o.values())
    return count


def check(node: ALL, errors: list[Error]) -> None:
    e = ErrorInfo.from_node(node)
    e.msg = "NODE|%s|%d|%s" % (type(node).__name__, id(node), ",".join(c.__name__ for c in type(node).__mro__))
    errors.append(e)
    if isinstance(node, MypyFile):
        t = ErrorInfo.from_node(node)
        t.msg = "TREE|" + json.dumps(walk(node), sort_keys=True)
        errors.append(t)
'''

# Helper process: runs gen.main() with the prompts stubbed, then imports what was written and asks the loader.
RUNNER = r'''
import contextlib, importlib.util, io, json, os, sys, traceback
from pathlib import Path
from refurb import gen, loader
from refurb.error import ErrorCode

jobs = json.load(sys.stdin)
orig = (gen.fzf, gen.node_type_prompt, gen.filename_prompt, gen.prefix_prompt)
out = []
ids = []
for m in loader.get_modules([]):
    e = loader.get_error_class(m)
    if e:
        ids.append([e.prefix, e.code])
for k, job in enumerate(jobs):
    os.chdir(job["cwd"])
    path0 = list(sys.path)
    gen.fzf, gen.node_type_prompt, gen.filename_prompt, gen.prefix_prompt = orig
    answers = {"type> ": "\n".join(job["raw"]), "filename> ": job["file"], "prefix> ": job["prefix"]}
    if job.get("stub") == "prompts":
        gen.node_type_prompt = lambda: sorted(job["raw"])
        gen.filename_prompt = lambda: Path(job["file"])
        gen.prefix_prompt = lambda: job["prefix"]
    else:
        gen.fzf = lambda data, args: answers[args[1]]
    buf = io.StringIO()
    res = {"rc": 0, "exc": None}
    try:
        with contextlib.redirect_stdout(buf):
            gen.main()
    except SystemExit as e:
        res["rc"] = e.code
    except BaseException as e:
        res["exc"] = "%s: %s" % (type(e).__name__, e)
    res["stdout"] = buf.getvalue()
    target = Path(job["file"])
    if res["rc"] == 0 and res["exc"] is None and target.is_file():
        try:
            spec = importlib.util.spec_from_file_location("rv_gen_%d" % k, target)
            mod = importlib.util.module_from_spec(spec)
            spec.loader.exec_module(mod)
            err = loader.get_error_class(mod)
            res["error_class"] = err.__name__ if err else None
            if err:
                res["prefix"], res["code"] = err.prefix, err.code
                res["str"] = str(ErrorCode.from_error(err))
            try:
                res["types"] = {"ok": [t.__name__ for t in loader.extract_function_types(mod.check)]}
                res["types_identical"] = all(
                    t is gen.NODES.get(t.__name__) for t in loader.extract_function_types(mod.check)
                )
            except TypeError as e:
                res["types"] = {"error": str(e)}
        except BaseException as e:
            res["import_exc"] = "%s: %s" % (type(e).__name__, e)
    sys.path[:] = path0
    out.append(res)
json.dump({"ids": ids, "results": out}, sys.stdout)
'''

FAKE_FZF = '''#!{py}
import json, os, sys
args = sys.argv[1:]
prompt = args[args.index("--prompt") + 1]
ans = json.load(open(os.environ["RV_FZF_ANSWERS"]))[prompt]
sys.stdout.write(ans["out"])
sys.exit(ans.get("rc", 0))
'''


def run_gen_jobs(jobs: list[dict[str, Any]], env_extra: dict[str, str] | None = None) -> dict[str, Any]:
    env = core.py_env()
    if env_extra:
        for k, v in env_extra.items():
            env[k] = v + (os.pathsep + env[k] if k == "PYTHONPATH" and env.get(k) else "")
    p = subprocess.run([core.PY, "-c", RUNNER], input=json.dumps(jobs), capture_output=True, text=True, env=env, timeout=1200)
    if p.returncode != 0:
        raise RuntimeError("gen runner failed: " + p.stderr[-2000:])
    return json.loads(p.stdout)


def py_reading(text: str) -> dict[str, Any]:
    """What Python's own parser says the file contains (the reference for the model's token reading)."""
    tree = ast.parse(text)
    imports, classes, prefix, code, params, pattern = [], [], None, None, None, None
    for st in tree.body:
        if isinstance(st, ast.ImportFrom):
            imports += [[st.module, a.name] for a in st.names]
        elif isinstance(st, ast.ClassDef):
            if len(st.bases) == 1 and isinstance(st.bases[0], ast.Name):
                classes.append([st.name, st.bases[0].id])
            for b in st.body:
                if isinstance(b, ast.Assign) and isinstance(b.targets[0], ast.Name) and isinstance(b.value, ast.Constant):
                    if b.targets[0].id == "prefix":
                        prefix = b.value.value
                    if b.targets[0].id == "code":
                        code = str(b.value.value)
        elif isinstance(st, ast.FunctionDef) and st.name == "check":
            params = [[a.arg, ast.unparse(a.annotation).replace(" ", "")] for a in st.args.args]
            for sub in ast.walk(st):
                if isinstance(sub, ast.match_case):
                    alts = sub.pattern.patterns if isinstance(sub.pattern, ast.MatchOr) else [sub.pattern]
                    pattern = [ast.unparse(a.cls) for a in alts if isinstance(a, ast.MatchClass) and not a.patterns and not a.kwd_patterns]
    return {"imports": imports, "classes": classes, "prefix": prefix, "code": code, "params": params, "pattern": pattern}


def model_reading(ans: dict[str, Any]) -> dict[str, Any]:
    def ann(toks: list[dict[str, str]]) -> str:
        return "".join(t.get("w", t.get("p", "")) for t in toks)

    return {
        "imports": ans["imports"],
        "classes": ans["classes"],
        "prefix": ans["prefix"],
        "code": ans["code"],
        "params": None if ans["params"] is None else [[n, ann(t)] for n, t in ans["params"]],
        "pattern": ans["pattern"],
    }


def fresh_prefix(i: int) -> str:
    """distinct prefixes that no check uses: Q + two letters (+ one more when needed)"""
    a, b = divmod(i, 26)
    a, c = a % 26, a // 26
    s = "Q" + chr(65 + a) + chr(65 + b)
    return s + (chr(65 + c - 1) if c else "")


def parse_probe(stdout: str) -> tuple[list[dict[str, Any]], dict[str, int]]:
    diags, _ = core.parse_plain(stdout)
    nodes: dict[str, dict[str, Any]] = {}
    handed: collections.Counter = collections.Counter()
    tree: dict[str, int] = {}
    for d in diags:
        if d["prefix"] != "PRB":
            continue
        kind, _, rest = d["msg"].partition("|")
        if kind == "TREE":
            tree = json.loads(rest)
        elif kind == "NODE":
            cls, nid, mro = rest.split("|")
            handed[cls] += 1
            nodes.setdefault(nid, {"cls": cls, "mro": mro.split(","), "line": d["line"], "col": d["col"]})
    return list(nodes.values()), tree


def run(ctx) -> None:
    res = ctx.res
    rng = ctx.rng("c19")
    from refurb import gen as rgen

    rows = extract_c19.node_rows()
    names = [r["name"] for r in rows]
    supers = {r["name"]: set(r["supers"]) for r in rows}
    n_pairs_all = len(names) * (len(names) - 1) // 2
    res.rule = (
        "one case per (selection, prefix scenario, target path): all %d singletons; pairs (thorough: all %d, quick: every pair that "
        "involves a class with offered sub/superclasses + a random sample); random selections of 3..83 types; prefixes: a fresh one "
        "(distinct per selection, so a whole batch loads in one refurb run), FURB, the prefix of an entry-point plugin; target paths: "
        "top level, nested, absolute, outside the cwd, six non-.py names. Non-trivial = the corpus file contains a node the selection "
        "must fire on; distinct = distinct (sorted selection, scenario, path)" % (len(names), n_pairs_all)
    )
    res.assumptions += [
        "fzf is replaced by a stub (in-process `gen.fzf`, and for a few cases a fake `fzf` executable on PATH driven through `refurb gen`); "
        "real fzf is assumed to print `query\\n` for the two --print-query prompts and the selected lines for --multi",
        "the firing reference is what an independent probe plugin (subscribed to every VALID_NODE_TYPE) is handed on a corpus file with "
        "every node kind the parser/analyser produces from source; diagnostics are compared as multisets of (line, column)",
        "prefixes are 3-4 upper-case letters (docs/adding-new-checks.md); node names are keys of gen.NODES",
    ]
    res.not_proved += [
        "that the rendered text is valid Python for the full grammar: the Lean reading is a token-level grammar of the template's "
        "shape; `ast.parse` succeeds on every file written in the run, and the reading is compared with `ast` on each",
        "which nodes the visitor hands over at all (C04): ten offered node types are never visited (see known findings / oracle)",
        "what fzf prints (stubbed)",
    ]

    # ------------------------------------------------------------------ selections
    related = [n for n in names if supers[n]] + sorted({s for v in supers.values() for s in v})
    sels: list[tuple[str, ...]] = [(n,) for n in names]
    all_pairs = list(itertools.combinations(names, 2))
    if ctx.quick:
        must = [p for p in all_pairs if p[0] in related and p[1] in related]
        rest = [p for p in all_pairs if p not in set(must)]
        pairs = must + rng.sample(rest, 260)
    else:
        pairs = all_pairs
    sels += pairs
    n_big = 60 if ctx.quick else 500
    for _ in range(n_big):
        k = rng.choice([3, 3, 4, 5, 6, 8, 12, 20, 40, len(names)])
        sels.append(tuple(rng.sample(names, k)))
    sels += [tuple(related), tuple(names)]
    # order in which the (stubbed) multi-select returns the lines: shuffled, gen sorts
    raws = []
    for s in sels:
        r = list(s)
        rng.shuffle(r)
        raws.append(r)

    kinds_present: set[str] = set()

    with core.scratch("rv-c19-") as d:
        # -------------------------------------------------------------- probe run (reference)
        pd = d / "probe"
        pd.mkdir()
        (pd / "corpus.py").write_text(CORPUS)
        (pd / "rv_probe.py").write_text(PROBE)
        rc, out, err = core.refurb_cli(["corpus.py", "--load", "rv_probe", "--disable-all", "--enable", "PRB999", "--quiet"], cwd=pd)
        nodes, tree = parse_probe(out)
        if err.strip() or not nodes:
            raise RuntimeError("probe run failed: " + (err or out)[-1500:])
        by_class = collections.Counter(n["cls"] for n in nodes)
        kinds_present = set(by_class)
        res.distribution["corpus_node_kinds_handed_over"] = len(by_class)
        res.distribution["corpus_nodes"] = len(nodes)
        res.distribution["corpus_kinds_in_mypy_tree"] = len([k for k in tree if k in names])

        def expected_positions(sel: tuple[str, ...]) -> collections.Counter:
            c: collections.Counter = collections.Counter()
            for n in nodes:
                if set(n["mro"]) & set(sel):
                    c[(n["line"], n["col"])] += 1
            return c

        # -------------------------------------------------------------- batches with fresh prefixes
        B = 64
        batches = [list(range(i, min(i + B, len(sels)))) for i in range(0, len(sels), B)]
        jobs: list[dict[str, Any]] = []
        meta: list[dict[str, Any]] = []
        for bi, idxs in enumerate(batches):
            cwd = d / f"b{bi}"
            cwd.mkdir()
            (cwd / "corpus.py").write_text(CORPUS)
            for j, si in enumerate(idxs):
                pfx = fresh_prefix(si)
                file = f"plg/m{j}.py"
                jobs.append({"cwd": str(cwd), "raw": raws[si], "file": file, "prefix": pfx, "stub": "fzf" if si % 2 == 0 else "prompts"})
                meta.append({"si": si, "batch": bi, "cwd": cwd, "file": file, "prefix": pfx, "scenario": "fresh", "module": f"plg.m{j}"})

        # -------------------------------------------------------------- FURB + entry-point plugin scenarios (one run each)
        site = d / "site"
        (site / "rv_epplug").mkdir(parents=True)
        (site / "rv_epplug" / "__init__.py").write_text("")
        for code in (105, 107, 108):  # the two highest are consecutive, the others are not
            (site / "rv_epplug" / f"c{code}.py").write_text(
                "from dataclasses import dataclass\nfrom mypy.nodes import PassStmt\nfrom refurb.error import Error\n\n\n"
                f"@dataclass\nclass ErrorInfo(Error):\n    \"\"\"doc\"\"\"\n\n    prefix = \"EPP\"\n    code = {code}\n    msg: str = \"ep\"\n\n\n"
                "def check(node: PassStmt, errors: list[Error]) -> None:\n    pass\n"
            )
        # a plugin family whose highest code is below 100 (`--enable LOWW007` is how it is selected): the next one is 8
        (site / "rv_epplug" / "low7.py").write_text(
            "from dataclasses import dataclass\nfrom mypy.nodes import PassStmt\nfrom refurb.error import Error\n\n\n"
            "@dataclass\nclass ErrorInfo(Error):\n    \"\"\"doc\"\"\"\n\n    prefix = \"LOWW\"\n    code = 7\n    msg: str = \"low\"\n\n\n"
            "def check(node: PassStmt, errors: list[Error]) -> None:\n    pass\n"
        )
        di = site / "rv_epplug-1.0.dist-info"
        di.mkdir()
        (di / "METADATA").write_text("Metadata-Version: 2.1\nName: rv-epplug\nVersion: 1.0\n")
        (di / "entry_points.txt").write_text("[refurb.plugins]\nrv = rv_epplug\n")
        scen_sels = [("CallExpr",), ("FuncItem",), ("AsPattern", "NameExpr"), ("CastExpr", "IntExpr", "OrPattern"), tuple(related)]
        if not ctx.quick:
            scen_sels += [tuple(rng.sample(names, k)) for k in (1, 2, 2, 3, 5, 9, 30)]
        jobs_furb, meta_furb, jobs_ep, meta_ep = [], [], [], []
        for k, s in enumerate(scen_sels):
            for scen, jl, ml in (("FURB", jobs_furb, meta_furb), ("EPP", jobs_ep, meta_ep)):
                cwd = d / f"s{scen}{k}"
                cwd.mkdir()
                (cwd / "corpus.py").write_text(CORPUS)
                raw = list(s)
                rng.shuffle(raw)
                jl.append({"cwd": str(cwd), "raw": raw, "file": "my/checks/new_check.py", "prefix": scen, "stub": "fzf"})
                ml.append({"sel": s, "raw": raw, "cwd": cwd, "file": "my/checks/new_check.py", "prefix": scen, "scenario": scen, "module": "my.checks.new_check"})
                if k < 2:
                    # a NEW prefix that is a proper string-prefix (FUR, EPP -> EP is too short, so EPPX extends instead) of one in use:
                    # it has no codes of its own and must start at 100
                    near = "FUR" if scen == "FURB" else "EPPX"
                    cwd2 = d / f"s{near}{k}"
                    cwd2.mkdir()
                    (cwd2 / "corpus.py").write_text(CORPUS)
                    jl.append({"cwd": str(cwd2), "raw": raw, "file": "my/checks/new_check.py", "prefix": near, "stub": "fzf"})
                    ml.append({"sel": s, "raw": raw, "cwd": cwd2, "file": "my/checks/new_check.py", "prefix": near, "scenario": near, "module": "my.checks.new_check"})
                if k < 2 and scen == "EPP":
                    cwd3 = d / f"sLOWW{k}"
                    cwd3.mkdir()
                    (cwd3 / "corpus.py").write_text(CORPUS)
                    jl.append({"cwd": str(cwd3), "raw": raw, "file": "my/checks/new_check.py", "prefix": "LOWW", "stub": "fzf"})
                    ml.append({"sel": s, "raw": raw, "cwd": cwd3, "file": "my/checks/new_check.py", "prefix": "LOWW", "scenario": "LOWW", "module": "my.checks.new_check"})

        # -------------------------------------------------------------- target path handling
        outside = d / "outside"
        outside.mkdir()
        path_cases = [
            ("top.py", True), ("a/b/c/deep.py", True), ("./pk/dot.py", True), ("pk2//dbl.py", True), ("ABS/abs/in.py", True),
            ("OUT/x/out.py", True), ("pk3/trail.py/", True),
            # the target folder (or part of it) exists already, without __init__.py files
            ("PRE/plugins/perf/calls.py", True), ("PRE/half/way/there/deep.py", True),
            ("noext", False), ("a/x.txt", False), ("x.py.bak", False), (".py", False), ("a/.py", False), ("x.PY", False), ("x.py.", False), ("dir.py/x", False),
        ]
        jobs_path, meta_path = [], []
        for k, (p, ok) in enumerate(path_cases):
            cwd = d / f"p{k}"
            cwd.mkdir()
            (cwd / "corpus.py").write_text(CORPUS)
            if p.startswith("PRE/"):
                p = p[4:]
                pre = (cwd / p).parent if "half" not in p else (cwd / "half" / "way")
                pre.mkdir(parents=True)
            file = p.replace("ABS/", str(cwd) + "/").replace("OUT/", str(outside) + "/")
            jobs_path.append({"cwd": str(cwd), "raw": ["WhileStmt", "IfStmt"], "file": file, "prefix": "PTH", "stub": "fzf"})
            meta_path.append({"label": p, "ok": ok, "cwd": cwd, "file": file})

        # two checks generated one after the other with the same new prefix into a plugin folder that is only `--load`ed
        dup = d / "dup"
        dup.mkdir()
        jobs_dup = [{"cwd": str(dup), "raw": ["IfStmt"], "file": f"plg/{n}.py", "prefix": "DUP", "stub": "fzf"} for n in ("first", "second")]

        # the same destination twice: the second `refurb gen` must leave a check for the SECOND selection and prefix there
        regen = d / "regen"
        regen.mkdir()
        jobs_regen = [
            {"cwd": str(regen), "raw": ["CallExpr"], "file": "plg/again.py", "prefix": "RGA", "stub": "fzf"},
            {"cwd": str(regen), "raw": ["NameExpr", "StrExpr"], "file": "plg/again.py", "prefix": "RGB", "stub": "fzf"},
            {"cwd": str(regen), "raw": ["IfStmt"], "file": "plg/sub/other.py", "prefix": "RGC", "stub": "fzf"},
            {"cwd": str(regen), "raw": ["WhileStmt", "ForStmt"], "file": "./plg/sub/../sub/other.py", "prefix": "RGC", "stub": "fzf"},
        ]

        r_main = run_gen_jobs(jobs + jobs_furb + jobs_path + jobs_dup + jobs_regen)
        r_ep = run_gen_jobs(jobs_ep, {"PYTHONPATH": str(site)})
        ids = r_main["ids"]
        ids_ep = r_ep["ids"]
        results = r_main["results"][: len(jobs)]
        results_furb = r_main["results"][len(jobs) : len(jobs) + len(jobs_furb)]
        results_path = r_main["results"][len(jobs) + len(jobs_furb) : len(jobs) + len(jobs_furb) + len(jobs_path)]
        results_dup = r_main["results"][-2 - len(jobs_regen) : -len(jobs_regen)]
        results_regen = r_main["results"][-len(jobs_regen) :]
        for jb, rr in zip(jobs_regen, results_regen):
            res.case(("regen", jb["file"], tuple(jb["raw"])))
            res.bump("regenerate_over_existing")
            got_types = sorted((rr.get("types") or {}).get("ok") or [])
            if rr.get("rc") != 0 or rr.get("exc") or got_types != sorted(jb["raw"]) or rr.get("prefix") != jb["prefix"]:
                res.violate(
                    f"`refurb gen` into {jb['file']} (selection {sorted(jb['raw'])}, prefix {jb['prefix']}) leaves a check there that the loader reads as types {got_types}, prefix {rr.get('prefix')} (the destination was written by an earlier `gen`)"
                    if jb is not jobs_regen[0] and jb is not jobs_regen[2] else
                    f"`refurb gen` into {jb['file']} (selection {sorted(jb['raw'])}, prefix {jb['prefix']}) is read back by the loader as types {got_types}, prefix {rr.get('prefix')}",
                    {"kind": "regenerate-over-existing", "step": jobs_regen.index(jb)},
                    {"steps": [{k: v for k, v in j.items() if k != "cwd"} for j in jobs_regen[: jobs_regen.index(jb) + 1]], "result": {k: rr.get(k) for k in ("rc", "exc", "types", "prefix", "code", "stdout")},
                     "how": "in an empty directory answer the three prompts of `refurb gen` (node types, file name, prefix) with each step in turn; import the file and apply refurb.loader.extract_function_types / get_error_class"},
                )
                break
        res.notes.append(
            "get_next_error_id only sees built-in checks and entry-point plugins: two checks generated in a row with the new prefix DUP "
            "into a folder that is only `--load`ed got the codes %s (documented as best effort: 'if it cannot find it, it will default to 100')"
            % [r.get("code") for r in results_dup]
        )
        results_ep = r_ep["results"]

        cat_ids = sorted([r["prefix"], r["code"]] for r in extract.catalogue_rows())
        if sorted(ids) != cat_ids:
            res.disagree("catalogue", "ids seen by get_next_error_id vs Generated/Catalogue", cat_ids[:5], sorted(ids)[:5])
        if not any(p == "EPP" for p, _ in ids_ep):
            raise RuntimeError("entry-point plugin fixture was not picked up by get_modules([])")

        # -------------------------------------------------------------- model answers
        all_meta = (
            [dict(m, raw=raws[m["si"]], sel=sels[m["si"]], ids=ids, res=r) for m, r in zip(meta, results)]
            + [dict(m, ids=ids, res=r) for m, r in zip(meta_furb, results_furb)]
            + [dict(m, ids=ids_ep, res=r) for m, r in zip(meta_ep, results_ep)]
        )
        texts: list[str | None] = []
        for m in all_meta:
            f = Path(m["cwd"]) / m["file"]
            texts.append(f.read_bytes().decode("utf8") if f.is_file() else None)
        reqs: list[dict[str, Any]] = []
        for m, t in zip(all_meta, texts):
            reqs.append({"verb": "gen.main", "raw": m["raw"], "file": m["file"], "prefix": m["prefix"], "ids": m["ids"]})
            reqs.append({"verb": "gen.read", "text": t or "", "kinds": names})
        for pm in meta_path:
            reqs.append({"verb": "gen.main", "raw": ["WhileStmt", "IfStmt"], "file": pm["file"], "prefix": "PTH", "ids": ids})
            reqs.append({"verb": "gen.suffix", "path": pm["file"]})
        # pure helpers on their own inputs
        imp_cases = [list(s) for s in sels[:: max(1, len(sels) // 300)]]
        for s in imp_cases:
            reqs.append({"verb": "gen.imports", "names": sorted(s)})
        id_cases = []
        for _ in range(300 if ctx.quick else 3000):
            n = rng.randint(0, 8)
            cat = [[rng.choice(["FURB", "XYZ", "AB", "ABCD", ""]), rng.choice([0, 1, 5, 99, 100, 101, 192, 999, rng.randint(0, 2000)])] for _ in range(n)]
            id_cases.append((cat, rng.choice(["FURB", "XYZ", "AB", "ABCD", "", "NEW"])))
            reqs.append({"verb": "gen.nextid", "ids": cat, "prefix": id_cases[-1][1]})
        if not ctx.driver.available():
            res.disagreements.append({"where": "driver", "reason": "driver executable not built"})
            return
        answers = ctx.driver.batch(reqs)
        ai = iter(answers)

        # -------------------------------------------------------------- per selection: file, reading, loader
        cli_jobs: dict[Any, list[dict[str, Any]]] = collections.defaultdict(list)
        for m, text in zip(all_meta, texts):
            a_main, a_read = next(ai), next(ai)
            sel = tuple(sorted(m["sel"]))
            r = m["res"]
            key = (sel, m["scenario"], m["file"])
            exp_pos = expected_positions(sel)
            res.case(key, nontrivial=bool(exp_pos))
            res.bump("selection_size_%s" % ("1" if len(sel) == 1 else "2" if len(sel) == 2 else "3-9" if len(sel) < 10 else "10+"))
            res.bump("scenario_" + m["scenario"])
            replay = {
                "selection (as returned by the type> prompt)": m["raw"], "filename> answer": m["file"], "prefix> answer": m["prefix"],
                "how": "in an empty directory: stub refurb.gen.fzf to answer the three prompts, call refurb.gen.main(); then "
                "`python -m refurb corpus.py --load <dotted path of the file>` on harness/props/c19.py:CORPUS",
            }
            if r["exc"] or r["rc"] != 0 or text is None:
                res.violate(
                    f"gen.main() did not write a file for selection {list(sel)}: {r['exc'] or r['stdout']}",
                    {"kind": "gen-failed", "exc": (r["exc"] or "").split(":")[0]},
                    dict(replay, observed=r),
                )
                continue
            if r["stdout"] != f"Generated {m['file']}\n":
                res.disagree("stdout", key, f"Generated {m['file']}\n", r["stdout"])
            # byte equality with the model
            if a_main.get("r") != "written" or a_main.get("text") != text:
                res.disagree("render", {"raw": m["raw"], "prefix": m["prefix"]}, str(a_main)[:600], text[:600])
            # next id: independent statement of the rule
            same = [c for p, c in m["ids"] if p == m["prefix"]]
            want_code = max(same) + 1 if same else 100
            if want_code in same:
                want_code = None
            # valid Python + Python's reading
            try:
                pr = py_reading(text)
            except SyntaxError as e:
                res.violate(
                    f"generated file is not valid Python for selection {list(sel)}: {e}",
                    {"kind": "invalid-python", "size": min(len(sel), 3)},
                    dict(replay, observed=text),
                )
                continue
            mr = model_reading(a_read)
            if mr != pr:
                res.disagree("reading", {"raw": m["raw"]}, mr, pr)
            # oracle on the text (Python's reading)
            if sorted(pr["pattern"] or []) != list(sel) or (pr["params"] or [[None, ""]])[0][1].split("|") != list(sel):
                res.violate(
                    f"annotation/pattern do not list exactly the selected classes {list(sel)}",
                    {"kind": "wrong-names-in-template"},
                    dict(replay, observed=pr),
                )
            imported = {n: mod for mod, n in pr["imports"]}
            bad_imp = [n for n in sel if imported.get(n) != rgen.NODES[n].__module__]
            dup_imp = [n for n, c in collections.Counter(n for _, n in pr["imports"]).items() if c > 1]
            if bad_imp or dup_imp:
                res.violate(
                    f"selected names not imported (exactly once) from their defining module: {bad_imp or dup_imp}",
                    {"kind": "bad-import", "names": (bad_imp or dup_imp)[:2]},
                    dict(replay, observed=pr["imports"]),
                )
            # loader, in the helper process
            if r.get("import_exc"):
                res.violate(
                    f"importing the generated module fails: {r['import_exc']}",
                    {"kind": "import-fails", "exc": r["import_exc"].split(":")[0]},
                    dict(replay, observed=r["import_exc"]),
                )
                continue
            impl_types = r["types"]
            if "error" in impl_types:
                res.violate(
                    f"the loader rejects the generated check: {impl_types['error']}",
                    {"kind": "loader-rejects", "msg": impl_types["error"].split(": ", 1)[-1][:60]},
                    dict(replay, observed=impl_types["error"]),
                )
            elif sorted(impl_types["ok"]) != list(sel) or not r.get("types_identical"):
                res.violate(
                    f"the loader registers the check under {impl_types['ok']} instead of {list(sel)}",
                    {"kind": "registered-under-other-types"},
                    dict(replay, observed=impl_types),
                )
            model_types = a_read["types"]
            if ("ok" in model_types) != ("ok" in impl_types) or (
                "ok" in model_types and model_types["ok"] != impl_types["ok"]
            ):
                res.disagree("loader", {"raw": m["raw"]}, model_types, impl_types)
            if a_read["errorClass"] != r.get("error_class") or r.get("error_class") != "ErrorInfo":
                res.disagree("error_class", {"raw": m["raw"]}, a_read["errorClass"], r.get("error_class"))
            if (r.get("prefix"), r.get("code")) != (m["prefix"], want_code):
                res.violate(
                    f"generated check carries {r.get('prefix')}{r.get('code')}, required {m['prefix']}{want_code} "
                    f"(codes in use for that prefix: {sorted(same)[-3:]})",
                    {"kind": "wrong-code", "scenario": m["scenario"]},
                    dict(replay, observed=[r.get("prefix"), r.get("code")], required=[m["prefix"], want_code]),
                )
            if a_main.get("id") != r.get("code"):
                res.disagree("nextid", {"prefix": m["prefix"]}, a_main.get("id"), r.get("code"))
            m["exp_pos"], m["model_fires"], m["code"], m["replay"] = exp_pos, dict(a_read["fires"]), r.get("code"), replay
            cli_jobs[(m["scenario"], m.get("batch", str(m["cwd"])))].append(m)
            if len(res.samples) < 3:
                res.sample({"selection": list(sel), "prefix": m["prefix"], "code": r.get("code"), "imports": pr["imports"], "expected_firings": sum(exp_pos.values())})

        # -------------------------------------------------------------- path cases
        for pm, r in zip(meta_path, results_path):
            a_main, a_suffix = next(ai), next(ai)
            cwd = pm["cwd"]
            res.case(("path", pm["label"]))
            res.bump("path_cases")
            target = Path(pm["file"]) if pm["file"].startswith("/") else cwd / pm["file"]
            suffix_impl = Path(pm["file"]).suffix
            if a_suffix != suffix_impl:
                res.disagree("suffix", pm["file"], a_suffix, suffix_impl)
            written = r["rc"] == 0 and r["exc"] is None
            if (a_main.get("r") == "written") != written:
                res.disagree("main-outcome", pm["file"], a_main.get("r"), r)
            inits = sorted(str(p.relative_to(cwd).parent) for p in cwd.rglob("__init__.py"))
            inits_out = sorted(str(p) for p in outside.rglob("__init__.py"))
            rep = {"filename> answer": pm["file"], "cwd": "an empty directory", "observed": r, "__init__.py in": inits}
            if pm["ok"]:
                if not written or not target.is_file():
                    res.violate(f"gen.main() fails for target {pm['label']!r}: {r['exc'] or r['stdout']}", {"kind": "path-write-fails", "path": pm["label"]}, rep)
                    continue
                inside = target.resolve().is_relative_to(cwd.resolve())
                if inside:
                    rel = target.resolve().parent.relative_to(cwd.resolve())
                    parts = list(rel.parts)
                    req = [{"verb": "gen.init", "parts": parts}]
                    model_inits = sorted("/".join(x) or "." for x in ctx.driver.batch(req)[0])
                    if model_inits != inits:
                        res.disagree("init-folders", pm["file"], model_inits, inits)
                    if "." in inits:
                        res.notes.append(f"target {pm['label']!r} placed directly in the working directory: gen also creates ./__init__.py (folders_needing_init_file(cwd) = [cwd])")
                    need = ["/".join(parts[:k]) for k in range(1, len(parts) + 1)]
                    miss = [n for n in need if n not in inits]
                    if miss:
                        res.violate(f"no __init__.py created in {miss} for target {pm['label']!r}", {"kind": "init-missing"}, rep)
                    dotted = ".".join([*parts, target.stem])
                    pm["loads"] = [dotted] + ([parts[0]] if parts else [])
                    pm["exp_pos"] = expected_positions(("IfStmt", "WhileStmt"))
                elif inits or inits_out:
                    res.violate(f"__init__.py created although the target {pm['label']!r} is outside the working directory", {"kind": "init-outside"}, rep)
            else:
                leftovers = sorted(str(p.relative_to(cwd)) for p in cwd.rglob("*") if p.name != "corpus.py")
                if r["rc"] != 1 or r["stdout"] != 'refurb: File must end in ".py"\n' or leftovers:
                    res.violate(
                        f"target {pm['label']!r} (not a .py file) is not refused cleanly: rc={r['rc']} exc={r['exc']} files={leftovers}",
                        {"kind": "bad-suffix-not-refused", "path": pm["label"]},
                        rep,
                    )

        # -------------------------------------------------------------- pure helper correspondences
        for s in imp_cases:
            a = next(ai)
            impl = rgen.build_imports(sorted(s))
            res.case(("imports", tuple(sorted(s))), nontrivial=len({rgen.NODES[n].__module__ for n in s}) > 1)
            if a != impl:
                res.disagree("build_imports", sorted(s), a, impl)
        for cat, pfx in id_cases:
            a = next(ai)
            hi = 0
            for p, c in cat:
                if p == pfx:
                    hi = max(hi, c + 1)
            res.case(("nextid", json.dumps(cat), pfx), nontrivial=any(p == pfx for p, _ in cat))
            if a != {"highest": hi, "id": hi or 100}:
                res.disagree("nextid-arith", {"cat": cat, "prefix": pfx}, a, {"highest": hi, "id": hi or 100})
        res.bump("helper_cases", len(imp_cases) + len(id_cases))

        # -------------------------------------------------------------- CLI: load, fire, explain
        def cli_one(item: tuple[Any, list[dict[str, Any]]]) -> tuple[list[dict[str, Any]], int, str, str]:
            (scen, _), ms = item
            cwd = ms[0]["cwd"]
            load = ["plg"] if scen == "fresh" else [ms[0]["module"]]
            env = {"PYTHONPATH": str(site)} if scen in ("EPP", "EPPX", "LOWW") else None
            rc, out, err = core.refurb_cli(["corpus.py", "--quiet", "--load", *load], cwd=cwd, env_extra=env)
            return ms, rc, out, err

        def explain_one(m: dict[str, Any]) -> tuple[dict[str, Any], str]:
            env = {"PYTHONPATH": str(site)} if m["scenario"] in ("EPP", "EPPX", "LOWW") else None
            rc, out, err = core.refurb_cli(["--explain", f"{m['prefix']}{m['code']:03d}", "--load", m["module"]], cwd=m["cwd"], env_extra=env)
            return m, out + err

        def path_one(pm: dict[str, Any]) -> tuple[dict[str, Any], list[tuple[str, int, str, str]]]:
            outs = []
            for ld in pm["loads"]:
                rc, out, err = core.refurb_cli(["corpus.py", "--quiet", "--load", ld], cwd=pm["cwd"])
                outs.append((ld, rc, out, err))
            return pm, outs

        all_ms = [m for ms in cli_jobs.values() for m in ms]
        n_explain = 24 if ctx.quick else 200
        explain_ms = [m for m in all_ms if m["scenario"] != "fresh"] + rng.sample(
            [m for m in all_ms if m["scenario"] == "fresh"], min(n_explain, len(all_ms))
        )
        with ThreadPoolExecutor(14) as ex:
            f_cli = [ex.submit(cli_one, it) for it in cli_jobs.items()]
            f_exp = [ex.submit(explain_one, m) for m in explain_ms]
            f_path = [ex.submit(path_one, pm) for pm in meta_path if pm.get("loads")]
            cli_results = [f.result() for f in f_cli]
            explain_results = [f.result() for f in f_exp]
            path_results = [f.result() for f in f_path]

        dead_reported: set[str] = set()
        for ms, rc, out, err in cli_results:
            diags, other = core.parse_plain(out)
            res.bump("cli_runs")
            if err.strip() or other or rc not in (0, 1):
                # someone in the batch is rejected / crashes: find out who, one by one
                for m in ms:
                    rc1, out1, err1 = core.refurb_cli(["corpus.py", "--quiet", "--load", m["module"]], cwd=m["cwd"])
                    d1, o1 = core.parse_plain(out1)
                    if err1.strip() or o1 or rc1 not in (0, 1):
                        res.violate(
                            f"`--load` of the check generated for {sorted(m['sel'])} is not accepted: {(o1 or [err1.strip()[-300:]])[0]}",
                            {"kind": "load-rejected", "line": (o1 or ["traceback"])[0].split(": ", 1)[-1][:60]},
                            dict(m["replay"], observed={"rc": rc1, "stdout": out1[-600:], "stderr": err1[-600:]}),
                        )
                continue
            by_code: dict[tuple[str, int], collections.Counter] = collections.defaultdict(collections.Counter)
            for dg in diags:
                by_code[(dg["prefix"], dg["code"])][(dg["line"], dg["col"])] += 1
                if (dg["prefix"], dg["code"]) in {(m["prefix"], m["code"]) for m in ms} and dg["msg"] != "Your message here":
                    res.violate("diagnostic of the generated check has another message", {"kind": "message"}, {"line": dg})
            for m in ms:
                got = by_code.get((m["prefix"], m["code"]), collections.Counter())
                sel = tuple(sorted(m["sel"]))
                # model's prediction: sum over the nodes the probe saw
                pred: collections.Counter = collections.Counter()
                for n in nodes:
                    k = m["model_fires"].get(n["cls"], 0)
                    if k:
                        pred[(n["line"], n["col"])] += k
                if pred != got:
                    res.disagree("fires", {"selection": list(sel)}, sorted(pred.items())[:8], sorted(got.items())[:8])
                exp = m["exp_pos"]
                if got != exp:
                    extra = got - exp
                    missing = exp - got
                    at = sorted((extra or missing).items())[0][0]
                    here = [n for n in nodes if (n["line"], n["col"]) == at]
                    if extra and not missing and all(exp[p] > 0 for p in extra):
                        culprit = next((n for n in here if n["cls"] in sel and set(n["mro"][1:]) & set(sel)), here[0])
                        base = sorted(set(culprit["mro"][1:]) & set(sel))
                        res.violate(
                            f"the check generated for {list(sel)} reports each {culprit['cls']} node {got[at]} times "
                            f"(both {culprit['cls']} and its base class {base} are selected; visit_{'func_def' if culprit['cls']=='FuncDef' else 'lambda_expr'} chains to visit_func)",
                            {"kind": "fires-twice", "node_class": culprit["cls"], "selected_base": base[0] if base else None},
                            dict(m["replay"], observed=f"{got[at]} diagnostics {m['prefix']}{m['code']} at corpus.py:{at[0]}:{at[1]}", required="one diagnostic per node of a selected type"),
                        )
                    else:
                        res.violate(
                            f"the check generated for {list(sel)} does not fire on exactly the nodes of the selected types "
                            f"(extra at {sorted(extra)[:3]}, missing at {sorted(missing)[:3]})",
                            {"kind": "fires-on-wrong-nodes", "extra": bool(extra), "missing": bool(missing), "selection_size": min(len(sel), 3)},
                            dict(m["replay"], observed=sorted(got.items())[:10], required=sorted(exp.items())[:10]),
                        )
                # offered node types that exist in mypy's tree of the corpus but are never handed to a check
                if len(sel) == 1 and sel[0] not in kinds_present and tree.get(sel[0], 0) > 0 and not got and sel[0] not in dead_reported:
                    dead_reported.add(sel[0])
                    res.violate(
                        f"`refurb gen` offers {sel[0]} but the generated check can never fire: mypy's tree of the corpus has "
                        f"{tree[sel[0]]} {sel[0]} node(s), the visitor hands none of them to checks",
                        {"kind": "never-fires", "node_type": sel[0]},
                        dict(m["replay"], observed="no diagnostic", required=f"a diagnostic for each {sel[0]} node (e.g. the `analyzed` form of a call)"),
                    )
        res.distribution["offered_types_never_handed_over_but_in_tree"] = sorted(dead_reported)

        for m, out in explain_results:
            res.bump("explain_runs")
            head = f"{m['prefix']}{m['code']}: <name unknown> "
            if not out.startswith(head) or "TODO: fill this in" not in out:
                res.violate(
                    f"`--explain {m['prefix']}{m['code']} --load {m['module']}` does not show the generated check",
                    {"kind": "explain", "scenario": m["scenario"]},
                    dict(m["replay"], observed=out[:400], required=head + "… TODO: fill this in …"),
                )
        for pm, outs in path_results:
            for ld, rc, out, err in outs:
                res.bump("path_load_runs")
                diags, other = core.parse_plain(out)
                got = collections.Counter((dg["line"], dg["col"]) for dg in diags if dg["prefix"] == "PTH")
                if err.strip() or other or got != pm["exp_pos"]:
                    res.violate(
                        f"check generated at {pm['label']!r} does not work when loaded as `--load {ld}`",
                        {"kind": "path-load", "path": pm["label"], "as": "module" if "." in ld or ld == "top" else "package"},
                        {"filename> answer": pm["file"], "argv": ["corpus.py", "--quiet", "--load", ld], "stdout": out[-500:], "stderr": err[-500:]},
                    )

        # -------------------------------------------------------------- `refurb gen` through the CLI with a fake fzf on PATH
        fz = d / "bin"
        fz.mkdir()
        (fz / "fzf").write_text(FAKE_FZF.format(py=core.PY))
        (fz / "fzf").chmod(0o755)
        fake_cases = [(("CallExpr", "AsPattern"), "cli/one.py", "FURB"), (("FuncDef",), "two.py", "ZZZ")]
        if not ctx.quick:
            fake_cases += [(tuple(rng.sample(names, 7)), "x/y/z.py", "ABCD"), (("IntExpr",), "bad.txt", "ZZZ")]
        for k, (s, file, pfx) in enumerate(fake_cases):
            cwd = d / f"f{k}"
            cwd.mkdir()
            raw = list(s)
            rng.shuffle(raw)
            (cwd / "answers.json").write_text(
                json.dumps({"type> ": {"out": "".join(n + "\n" for n in raw)}, "filename> ": {"out": file + "\n", "rc": 1}, "prefix> ": {"out": pfx + "\n", "rc": 1}})
            )
            rc, out, err = core.refurb_cli(["gen"], cwd=cwd, env_extra={"PATH": f"{fz}:{os.environ.get('PATH', '')}", "RV_FZF_ANSWERS": str(cwd / "answers.json")})
            res.case(("fake-fzf", tuple(sorted(s)), file, pfx))
            res.bump("cli_gen_runs")
            a = ctx.driver.batch([{"verb": "gen.main", "raw": raw, "file": file, "prefix": pfx, "ids": ids}])[0]
            f = cwd / file
            if a.get("r") == "written":
                if err.strip() or rc != 0 or not f.is_file() or f.read_text() != a["text"]:
                    res.disagree("cli-gen", {"raw": raw, "file": file, "prefix": pfx}, a.get("text", "")[:300], (f.read_text()[:300] if f.is_file() else out + err[-400:]))
            elif rc != 1 or f.exists():
                res.disagree("cli-gen", {"raw": raw, "file": file}, a, {"rc": rc, "out": out})
    res.exhaustive = False
    res.notes.append(
        "singletons are exhaustive in both tiers; pairs are exhaustive in the thorough tier (%d), sampled in the quick tier" % n_pairs_all
    )
    res.trusted_extra += [
        "harness/props/c19.py: CORPUS (one file with every node kind the parser/analyser produces from source) and PROBE (plugin subscribed "
        "to every valid node type + reflective walk of mypy's tree) are the reference for 'nodes of the selected types'",
        "Python's `ast` is the reference for what a written file contains (the Lean token reading is compared with it on every file)",
        "fzf itself is not run (not installed): `gen.fzf` / the prompts / a fake `fzf` executable answer the three prompts",
    ]


def replay(path) -> int:
    """Re-run one recorded case against the repository: regenerate with the stubbed prompts, load, report."""
    rec = json.loads(Path(path).read_text())
    rp = rec.get("replay", {})
    raw = rp.get("selection (as returned by the type> prompt)")
    file = rp.get("filename> answer")
    pfx = rp.get("prefix> answer", "XYZ")
    print(json.dumps(rec, indent=1)[:3000])
    if not raw or not file:
        return 0
    with core.scratch("rv-c19r-") as d:
        (d / "corpus.py").write_text(CORPUS)
        r = run_gen_jobs([{"cwd": str(d), "raw": raw, "file": file, "prefix": pfx, "stub": "fzf"}])["results"][0]
        print("gen.main():", json.dumps(r)[:800])
        f = d / file
        if f.is_file() and not file.startswith("/"):
            dotted = ".".join(Path(file).with_suffix("").parts)
            rc, out, err = core.refurb_cli(["corpus.py", "--quiet", "--load", dotted], cwd=d)
            diags, other = core.parse_plain(out)
            mine = [dg for dg in diags if dg["prefix"] == r.get("prefix") and dg["code"] == r.get("code")]
            print(f"refurb corpus.py --load {dotted}: rc={rc}, {len(mine)} diagnostics of {r.get('prefix')}{r.get('code')}; other lines: {other[:3]} {err[-300:]}")
            c = collections.Counter((dg["line"], dg["col"]) for dg in mine)
            print("positions reported more than once:", sorted(p for p, k in c.items() if k > 1)[:10])
    return 0
