"""C15 — suggestions never need a newer Python than the configured target version.

Lean: Props/C15.lean — the gate shapes for every target (unbounded), the generated sweep table
(Generated/Gates.lean: every check's idioms under every target 3.6 … 3.13, by execution) against the
committed reference table Model/Introduced.lean (`decide +kernel`), lifted to every target ≥ 3.6.

Correspondence (model vs implementation):
  * `gate` verb (table, clamped outside the sweep) vs the REAL `check` functions of every check that
    takes `settings`, called on the nodes of their own idioms with `Settings(python_version=v)` for
    swept, out-of-range ((2,7), (3,5), (3,14), (3,40), (4,0) …) and random targets;
  * `gate` verb vs refurb's CLI under `--python-version 3.n` and under `python_version = "3.n"` in
    pyproject.toml (fresh processes), per check: reported? which messages?
  * `target` verb vs `Settings.get_python_version()`; `introduced` verb vs the harness' reading of
    Introduced.lean; the reference table's API rows and syntax rows vs mypy's bundled typeshed / parser;
  * files whose syntax is newer than the target are refused by refurb as mypy's parser predicts (the target
    reaches mypy, refurb/main.py `opt.python_version`).

Oracle (implementation only, fresh processes, targets 3.7 … running interpreter; three spellings of the target:
`--python-version`, pyproject `python_version`, `Settings(python_version=…)`):
  every replacement of every diagnostic (all checks, all files: docstring Bad examples, test/data*, corpus/C15,
  synthetic and generated idioms) is scanned for features newer than the target; adjacent targets are compared
  site by site — a diagnostic may appear or switch to a spelling that needs something newer, never vanish;
  the spellings of the target must give identical reports.
  quick: the CLI spellings cover the docstring examples, corpus, synthetic/generated idioms and the test data of the
  version-sensitive checks, the Settings spelling covers everything; thorough: every spelling covers everything.
"""

from __future__ import annotations

import json
import re
import subprocess
import sys
import time
from concurrent.futures import ThreadPoolExecutor
from pathlib import Path
from textwrap import dedent
from typing import Any

from .. import core
from .. import extract_c15 as x

GENERATED = ["Catalogue", "Gates"]

FIRST_IN_RANGE = (3, 7)  # the property's quantifier: "from 3.7 to the running interpreter's version"

# extra idioms for the oracle: replacements with version-dependent features in other operand shapes
SYNTHETIC = {
    "syn_shlex.py": 'import shlex\nfrom shlex import quote\nargs = ["a", "b c"]\ncmd = " ".join(shlex.quote(a) for a in args)\ncmd2 = " ".join(quote(a) for a in args if a)\n',
    "syn_removeprefix.py": 'def f(s: str, p: str) -> str:\n    if s.startswith(p):\n        s = s[len(p):]\n    return s[:-3] if s.endswith("abc") else s\n',
    "syn_cache.py": "import functools\n\n@functools.lru_cache(maxsize=None)\ndef g(n: int) -> int:\n    return n\n",
    "syn_dict_union.py": "def h(a: dict[str, int], b: dict[str, int]) -> None:\n    _ = {**a, **b}\n    _ = dict(**a, **b)\n    _ = {**a, 'k': 1}\n",
    "syn_bit_count.py": 'def k(n: int) -> int:\n    return bin(n).count("1") + bin(n + 1).count("1")\n',
    "syn_isinstance.py": "def m(o: object) -> bool:\n    return isinstance(o, int) or isinstance(o, str)\n\ndef n(o: type) -> bool:\n    return issubclass(o, int) or issubclass(o, str)\n",
    "syn_fromisoformat.py": 'from datetime import datetime\n\ndef p(s: str) -> datetime:\n    return datetime.fromisoformat(s.replace("Z", "+00:00"))\n',
}


# GEN-IDIOM for the version-sensitive checks: (needed imports, statement template); holes are filled per operand class
IDIOM_TEMPLATES = [
    ("import shlex", '{t} = " ".join(shlex.quote({v}) for {v} in {strs})'),
    ("import shlex", '{t} = " ".join([shlex.quote({v}) for {v} in {strs}])'),
    ("import shlex", '{t} = " ".join(shlex.quote({v}.strip()) for {v} in {strs} if {v})'),
    ("from shlex import quote", '{t} = " ".join(quote({v}) for {v} in {strs})'),
    ("", '{t} = {s}[len({p}):] if {s}.startswith({p}) else {s}'),
    ("", '{t} = {s}[:-len({p})] if {s}.endswith({p}) else {s}'),
    ("", '{t} = {s}[:-4] if {s}.endswith(".txt") else {s}'),
    ("", '{t} = {s}[3:] if {s}.startswith("abc") else {s}'),
    ("", '{t} = {{**{d1}, **{d2}}}'),
    ("", '{t} = {{**{d1}, "k": 1}}'),
    ("", '{t} = dict(**{d1}, **{d2})'),
    ("", '{t} = {{"k": 1, **{d1}, **{d2}, **{d1}}}'),
    ("", '{t} = bin({i}).count("1")'),
    ("", '{t} = bin({i})[2:].count("1")'),
    ("", '{t} = isinstance({o}, int) or isinstance({o}, str)'),
    ("", '{t} = issubclass(type({o}), int) or issubclass(type({o}), (str, bytes))'),
    ("", '{t} = isinstance({o}, (int, float)) or isinstance({o}, str) or isinstance({o}, bytes)'),
    # the CLASS operands vary too: a name bound to a tuple of classes, an attribute holding one, a class object from a call
    ("", '{t} = isinstance({o}, NUMERIC) or isinstance({o}, complex)'),
    ("", '{t} = isinstance({o}, str) or isinstance({o}, w.kinds)'),
    ("", '{t} = issubclass(type({o}), NUMERIC) or issubclass(type({o}), (str, w.kinds))'),
    ("", '{t} = isinstance({o}, type({o})) or isinstance({o}, NUMERIC)'),
    ("from datetime import datetime", '{t} = datetime.fromisoformat({s}.replace("Z", "+00:00"))'),
    ("from datetime import datetime", '{t} = datetime.fromisoformat({s}[:-1] + "+00:00")'),
    ("import datetime as dt", '{t} = dt.datetime.fromisoformat({s}.rstrip("Z") + "+00:00")'),
]
DECORATED = [
    ("import functools", "@functools.lru_cache(maxsize=None)\ndef {f}(n: int) -> int:\n    return n + 1\n"),
    ("from functools import lru_cache", "@lru_cache(maxsize=None)\ndef {f}(n: int) -> int:\n    return n + 1\n"),
]
OPERANDS = {
    "strs": ["ss", "w.ss", "[s1, s2]", "ss[1:]", "(s1, s2)", "sorted(ss)"],
    "s": ["s1", "w.s", "(s1 + s2)", "s1.lower()", "ss[0]"],
    "p": ["s2", "w.s", '"pre"', "s2.strip()"],
    "d1": ["d1", "w.d", "d1.copy()"],
    "d2": ["d2", "w.d", "dict(d2)"],
    "i": ["n1", "w.n", "(n1 + 1)", "abs(n1)", "n1 * 2", "0b1011"],
    "o": ["o1", "w.o", "ss[0]", "n1"],
}
PREAMBLE = (
    "NUMERIC = (int, float)\n"
    "class W:\n    ss: list[str] = []\n    s: str = ''\n    d: dict[str, int] = {}\n    n: int = 0\n    o: object = None\n    kinds = (bytes, bytearray)\n\n"
    "w = W()\nss: list[str] = ['a', 'b c']\ns1 = 'abc.txt'\ns2 = 'abc'\nd1: dict[str, int] = {}\nd2: dict[str, int] = {}\nn1 = 5\no1: object = 1\n\n"
)
CONTEXTS = [
    lambda body: body,
    lambda body: "def fn() -> None:\n" + indent(body) ,
    lambda body: "class K:\n    def m(self) -> None:\n" + indent(indent(body)),
    lambda body: "if n1:\n" + indent(body) + "else:\n    pass\n",
    lambda body: "for _i in range(2):\n" + indent(body),
    lambda body: "try:\n" + indent(body) + "finally:\n    pass\n",
    lambda body: "async def co() -> None:\n" + indent(body),
    lambda body: "with open('f') as fh:\n" + indent(body),
    # code guarded by the running version: mypy decides from the TARGET version which branch is reachable — both branches are
    # still the user's code, and what refurb says about them must not shrink when the target is raised
    lambda body: "import sys\nif sys.version_info >= (3, 9):\n" + indent(body) + "else:\n" + indent(body),
    lambda body: "import sys\nif sys.version_info < (3, 10):\n" + indent(body) + "else:\n" + indent(body),
    lambda body: "import sys\nif sys.version_info >= (3, 11):\n    pass\nelse:\n" + indent(body),
]


_NEEDS: dict[str, bool] = {}


def needs_resolution(code: str) -> bool:
    """does the check consult what only mypy's semantic analysis provides (fullnames, symbol nodes, types)?  Read off the
    check's own source: such a check cannot fire in a block mypy does not analyse; a purely syntactic one can."""
    if not _NEEDS:
        import re as _re

        from .. import extract as _ex

        for r in _ex.catalogue_rows():
            try:
                mod = __import__(r["module"], fromlist=["x"])
                src = Path(mod.__file__).read_text()
            except Exception:  # noqa: BLE001
                src = ""
            _NEEDS[f"{r['prefix']}{r['code']}"] = bool(_re.search(r"fullname|get_mypy_type|is_same_type|is_pathlike|is_subclass|\.node\b|is_mapping|is_sized|TypeInfo|is_bool_literal|is_none_literal", src))
    return _NEEDS.get(code, True)


def line_dead_under(src: str, line: int, v: tuple[int, int]) -> bool:
    """is `line` inside a branch of an `if sys.version_info <op> (3, N):` statement that cannot run under version v?
    (mypy decides the same from the target version and does not analyse such a branch at all)"""
    import ast as _ast

    try:
        tree = _ast.parse(src)
    except SyntaxError:
        return False
    for n in _ast.walk(tree):
        if not isinstance(n, _ast.If) or not isinstance(n.test, _ast.Compare) or len(n.test.ops) != 1:
            continue
        left, right = n.test.left, n.test.comparators[0]
        if not (isinstance(left, _ast.Attribute) and left.attr == "version_info" and isinstance(right, _ast.Tuple)):
            continue
        try:
            bound = tuple(int(e.value) for e in right.elts)  # type: ignore[attr-defined]
        except Exception:  # noqa: BLE001
            continue
        op = type(n.test.ops[0])
        truth = {_ast.GtE: v >= bound, _ast.Gt: v > bound, _ast.Lt: v < bound, _ast.LtE: v <= bound}.get(op)
        if truth is None:
            continue
        dead = n.orelse if truth else n.body
        first = min([dead[0].lineno] + [d_.lineno for d_ in getattr(dead[0], "decorator_list", [])]) if dead else 0
        if dead and first <= line <= max(getattr(x_, "end_lineno", x_.lineno) for x_ in dead):
            return True
    return False


def version_guard_file() -> str:
    """one always-present file: an ordinary idiom (FURB108, FURB123) and the version-dependent ones in BOTH branches of a guard
    for every minor version of the sweep"""
    parts = ["import sys\n", PREAMBLE]
    for k, minor in enumerate(range(7, 14)):
        body = (
            f"va{k} = n1 == 1 or n1 == 2\nvb{k} = int(n1)\nvc{k} = s1[3:] if s1.startswith(\"abc\") else s1\n"
            f"vd{k} = {{**d1, **d2}}\nve{k} = bin(n1).count(\"1\")\nvf{k} = isinstance(o1, int) or isinstance(o1, str)\n"
        )
        parts.append(f"if sys.version_info >= (3, {minor}):\n" + indent(body) + "else:\n" + indent(body.replace("v", "w")))
        parts.append(f"if sys.version_info < (3, {minor}):\n" + indent(body.replace("v", "x")))
    parts.append("ya = isinstance(o1, NUMERIC) or isinstance(o1, complex)\nyb = isinstance(o1, str) or isinstance(o1, w.kinds)\nyc = issubclass(type(o1), NUMERIC) or issubclass(type(o1), str)\n")
    return "\n".join(parts)


def indent(text: str) -> str:
    return "".join("    " + line + "\n" for line in text.splitlines())


def generated_idioms(rng: Any, n_files: int) -> dict[str, str]:
    """GEN-IDIOM x GEN-CTX for the checks whose replacement needs a version-dependent feature."""
    out: dict[str, str] = {}
    for k in range(n_files):
        imports: list[str] = []
        chunks: list[str] = []
        for j in range(rng.randint(3, 7)):
            if rng.random() < 0.15:
                imp, tmpl = rng.choice(DECORATED)
                body = tmpl.format(f=f"g{j}")
            else:
                imp, tmpl = rng.choice(IDIOM_TEMPLATES)
                holes = {h: rng.choice(vs) for h, vs in OPERANDS.items()}
                body = tmpl.format(t=f"t{j}", v=rng.choice(["x", "arg", "item"]), **holes) + "\n"
            if imp and imp not in imports:
                imports.append(imp)
            chunks.append(rng.choice(CONTEXTS)(body))
        out[f"gen_{k:03d}.py"] = "\n".join(imports) + "\n\n" + PREAMBLE + "\n".join(chunks)
    out["gen_vguard.py"] = version_guard_file()
    return out


def vstr(v: tuple[int, int]) -> str:
    return f"{v[0]}.{v[1]}"


# ------------------------------------------------------------------------------------------
# CLI sweep


def cli_one(d: Path, tag: str, files: list[dict[str, Any]], names: list[str], v: tuple[int, int], spelling: str, alone: set[str]) -> dict[str, Any]:
    """One target, one spelling, one batch of files, in its own directory; with the refusal loop."""
    sub = d / tag
    sub.mkdir()
    by_name = {f["name"]: f for f in files}
    for n in names:
        (sub / n).write_text(by_name[n]["src"])
    if spelling == "config":
        (sub / "pyproject.toml").write_text(f'[tool.refurb]\npython_version = "{vstr(v)}"\n')
        extra: list[str] = []
    else:
        (sub / "pyproject.toml").write_text("")
        extra = ["--python-version", vstr(v)]
    refused: dict[str, str] = {}
    names = list(names)
    runs = []
    for _ in range(6):
        if not names:
            return {"diags": [], "refused": refused, "other": [], "runs": runs, "names": names}
        argv = [*names, "--enable-all", "--quiet", *extra]
        rc, out, err = core.refurb_cli(argv, cwd=sub, timeout=600)
        diags, other = core.parse_plain(out)
        runs.append({"argv": argv, "rc": rc, "stderr": err[-600:]})
        bad, rest = x.split_refused(other)
        mine = {k: w for k, w in bad.items() if k in names}
        if mine:
            refused.update(mine)
            names = [n for n in names if n not in mine]
            continue
        if bad and not diags and set(names) <= alone:
            # mypy refuses a module these files import (third-party code newer than the target)
            if len(names) == 1:
                k, w = next(iter(bad.items()))
                refused[names[0]] = f"imports {k}: {w}"
                return {"diags": [], "refused": refused, "other": [], "runs": runs, "names": []}
            parts = [cli_one(d, f"{tag}-{i}", files, [n], v, spelling, alone) for i, n in enumerate(names)]
            return {
                "diags": [g for p in parts for g in p["diags"]], "refused": {**refused, **{k: w for p in parts for k, w in p["refused"].items()}},
                "other": [o for p in parts for o in p["other"]], "runs": runs + [r for p in parts for r in p["runs"]], "names": [n for p in parts for n in p["names"]],
            }
        return {
            "diags": [[g["file"], f"{g['prefix']}{g['code']}", g["line"], g["col"], g["msg"]] for g in diags],
            "refused": refused,
            "other": rest + [f"{k}: {w}" for k, w in bad.items()] + ([f"stderr: {err[-300:]}"] if err.strip() else []),
            "runs": runs,
            "names": names,
            "rc": rc,
        }
    return {"diags": [], "refused": refused, "other": ["refusal loop did not converge"], "runs": runs, "names": names}


def cli_sweep(
    files: list[dict[str, Any]], versions: list[tuple[int, int]], select: dict[str, Any]
) -> dict[tuple[tuple[int, int], str], dict[str, Any]]:
    """`select[spelling]` = None (all files) or the set of file names linted under that spelling."""
    pre = x.prescreen(files, versions)
    alone = x.third_party_importers(files)
    jobs = []
    for v in versions:
        for sp, only in select.items():
            names = [f["name"] for f in files if f["name"] not in pre[v] and (only is None or f["name"] in only)]
            main = [n for n in names if n not in alone]
            parts = [main[0::2], main[1::2]] if len(main) > 60 else [main]
            jobs += [(v, sp, f"main{i}", part) for i, part in enumerate(parts)]
            third = [n for n in names if n in alone]
            if third:
                jobs.append((v, sp, "third", third))
            if sp == "flag":
                # the target reaches mypy (refurb/main.py: opt.python_version): a file whose syntax is newer than the
                # target must be refused by refurb exactly as mypy's parser predicts; one file per distinct reason
                seen_reasons: set[str] = set()
                for n, why in sorted(pre[v].items()):
                    if why not in seen_reasons and (only is None or n in only):
                        seen_reasons.add(why)
                        jobs.append((v, sp, f"refused-{n[:-3]}", [n]))
    out: dict[tuple[tuple[int, int], str], dict[str, Any]] = {
        (v, sp): {"diags": [], "refused": {k: w for k, w in pre[v].items() if select[sp] is None or k in select[sp]}, "other": [], "runs": []}
        for v in versions
        for sp in select
    }
    with core.scratch("rv-c15-") as d:
        with ThreadPoolExecutor(16) as ex:
            # big batches first, so the long poles start at once
            order = sorted(range(len(jobs)), key=lambda i: -len(jobs[i][3]))
            done = list(ex.map(lambda i: cli_one(d, f"{vstr(jobs[i][0])}-{jobs[i][1]}-{jobs[i][2]}", files, jobs[i][3], jobs[i][0], jobs[i][1], alone), order))
            results = [None] * len(jobs)
            for i, r in zip(order, done):
                results[i] = r
    for (v, sp, _tag, _names), r in zip(jobs, results):
        if _tag.startswith("refused-"):
            out[(v, sp)].setdefault("refusal_probes", []).append({"file": _names[0], "predicted": pre[v][_names[0]], "refurb_refused": r["refused"], "diags": len(r["diags"]), "runs": r["runs"]})
            continue
        o = out[(v, sp)]
        o["diags"] += r["diags"]
        o["refused"].update(r["refused"])
        o["other"] += r["other"]
        o["runs"] += r["runs"]
    return out


# ------------------------------------------------------------------------------------------
# the real gated check functions under arbitrary targets

STUB_WORKER = dedent(
    '''
    import functools, json, sys

    def main():
        job = json.load(open(sys.argv[1]))
        import refurb.main as M
        from refurb.error import ErrorCode
        from refurb.settings import Settings
        out = {}
        for code, files in job["checks"].items():
            recorded = []
            orig = M.load_checks
            def spy(settings, orig=orig, recorded=recorded):
                found = orig(settings)
                for ty, funcs in found.items():
                    for i, f in enumerate(funcs):
                        def inner(node, errors, settings, f=f):
                            recorded.append((f, node))
                            return f(node, errors, settings)
                        functools.update_wrapper(inner, f)
                        funcs[i] = inner
                return found
            M.load_checks = spy
            try:
                errs = M.run_refurb(Settings(files=files, disable_all=True, enable={ErrorCode(int(code[4:]), code[:4])},
                                             quiet=True, python_version=tuple(job["base"])))
            finally:
                M.load_checks = orig
            texts = [e for e in errs if isinstance(e, str)]
            per = {}
            for v in job["versions"]:
                msgs, exc = set(), None
                for f, node in recorded:
                    errors = []
                    try:
                        f(node, errors, Settings(python_version=tuple(v)))
                    except BaseException as e:
                        exc = type(e).__name__ + ": " + str(e)[:200]
                    msgs.update(e.msg for e in errors)
                per["%d.%d" % tuple(v)] = {"msgs": sorted(msgs), "exc": exc}
            out[code] = {"calls": len(recorded), "texts": texts[:5], "per": per}
        json.dump(out, open(sys.argv[2], "w"))

    main()
    '''
)


def stub_targets(files: list[dict[str, Any]], gated: list[str], versions: list[tuple[int, int]], base: tuple[int, int]) -> dict[str, Any]:
    with core.scratch("rv-c15s-") as d:
        for f in files:
            (d / f["name"]).write_text(f["src"])
        (d / "_stub.py").write_text(STUB_WORKER)
        job = {
            "checks": {c: [f["name"] for f in files if f["own"] == c] for c in gated},
            "versions": [list(v) for v in versions],
            "base": list(base),
        }
        (d / "_job.json").write_text(json.dumps(job))
        p = subprocess.run([core.PY, "_stub.py", "_job.json", "_out.json"], cwd=d, capture_output=True, text=True, timeout=900, env=core.py_env())
        if p.returncode != 0:
            raise RuntimeError("C15 stub worker failed: " + p.stderr[-2000:])
        return json.loads((d / "_out.json").read_text())


# ------------------------------------------------------------------------------------------
# the reference table against typeshed / mypy's parser

API_PROBES = {
    "shlex.join": "shlex.join",
    "str.removeprefix": '"".removeprefix',
    "str.removesuffix": '"".removesuffix',
    "dict | dict": "{1: 2} | {3: 4}",
    "functools.cache": "functools.cache",
    "int.bit_count": "(1).bit_count",
    "isinstance(x, A | B)": "isinstance(1, int | str)",
    "math.isqrt/prod/dist/comb/perm": "(math.isqrt, math.prod, math.dist, math.comb, math.perm)",
    "math.lcm": "math.lcm",
    "statistics.fmean": "statistics.fmean",
    "functools.cached_property": "functools.cached_property",
    "Path.unlink(missing_ok=)": "pathlib.Path().unlink(missing_ok=True)",
    "Path.is_relative_to/readlink/with_stem": "(pathlib.Path().is_relative_to, pathlib.Path().readlink, pathlib.Path().with_stem)",
    "Path.hardlink_to": "pathlib.Path().hardlink_to",
    "Path.write_text(newline=)": 'pathlib.Path().write_text("", newline="")',
    "itertools.pairwise": "itertools.pairwise",
    "zip(strict=)": "zip([1], [2], strict=True)",
    "tomllib": "",  # see IMPORT_PROBES
    "contextlib.chdir": "contextlib.chdir",
    "hashlib.file_digest": "hashlib.file_digest",
    "datetime.UTC": "datetime.UTC",
    "operator.call": "operator.call",
    "itertools.batched": "itertools.batched",
    "math.tau": "math.tau",
    "secrets": "secrets.token_hex",
    "contextlib.suppress": "contextlib.suppress",
    "abc.ABC": "abc.ABC",
}
IMPORT_PROBES = {"tomllib": "import tomllib"}
SYNTAX_PROBES = {
    "walrus :=": "if (n := 1):\n    pass\n",
    "positional-only parameters": "def f(a, /, b):\n    pass\n",
    "match statement": "match 1:\n    case _:\n        pass\n",
    "f-string": 'x = f"{1}"\n',
    "variable annotation": "x: int = 1\n",
}
TYPESHED_FLOOR = (3, 8)  # mypy 1.13's typeshed has no conditions for older versions any more


def reference_probe_runs() -> dict[str, Any]:
    """mypy (its bundled typeshed) on one probe line per API feature, under each target >= the typeshed floor."""
    versions = [v for v in x.VERSIONS if v >= TYPESHED_FLOOR]
    lines = ["import abc, contextlib, datetime, functools, hashlib, itertools, math, operator, pathlib, secrets, shlex, statistics"]
    where: dict[int, str] = {}
    for name, src in API_PROBES.items():
        lines.append(IMPORT_PROBES.get(name) or src)
        where[len(lines)] = name
    with core.scratch("rv-c15r-") as d:
        (d / "probe.py").write_text("\n".join(lines) + "\n")

        def run(v: tuple[int, int]) -> tuple[tuple[int, int], str]:
            p = subprocess.run(
                [core.PY, "-m", "mypy", "--python-version", vstr(v), "--no-incremental", "--cache-dir", str(d / f"c{v[1]}"), "--no-error-summary", "probe.py"],
                cwd=d, capture_output=True, text=True, timeout=300, env=core.py_env(),
            )
            return v, p.stdout + p.stderr

        with ThreadPoolExecutor(8) as ex:
            outs = dict(ex.map(run, versions))
    return {"outs": outs, "where": where, "lines": lines}


def validate_reference(res: core.Result, ref: list[dict[str, Any]], runs: dict[str, Any]) -> None:
    since = {r["name"]: r["since"] for r in ref}
    outs, where, lines = runs["outs"], runs["where"], runs["lines"]
    for v, out in outs.items():
        bad_lines = {int(m.group(1)) for m in re.finditer(r"^probe\.py:(\d+): error:", out, re.M)}
        foreign = [l for l in out.splitlines() if l.strip() and not l.startswith("probe.py:") and ": note: " not in l]
        if foreign:
            res.disagree("reference-table/mypy", {"version": vstr(v)}, "a mypy run that only talks about probe.py", foreign[:3])
            continue
        for ln, name in where.items():
            if name not in since:
                res.disagree("reference-table", {"feature": name}, "an entry of Introduced.lean", "probe names a feature the table lacks")
                continue
            res.case(("reference", name, v), nontrivial=since[name] > TYPESHED_FLOOR)
            available = ln not in bad_lines
            expected = since[name] <= v
            if available != expected:
                res.disagree(
                    "reference-table", {"feature": name, "target": vstr(v), "probe": lines[ln - 1]},
                    {"since": vstr(since[name]), "available": expected},
                    {"typeshed_says_available": available, "mypy": [l for l in out.splitlines() if l.startswith(f"probe.py:{ln}:")][:2]},
                )
    files = [{"name": f"syn{i}.py", "src": src} for i, src in enumerate(SYNTAX_PROBES.values())]
    pre = x.prescreen(files, x.VERSIONS)
    for i, name in enumerate(SYNTAX_PROBES):
        for v in x.VERSIONS:
            res.case(("reference-syntax", name, v), nontrivial=since.get(name, (0, 0)) > x.VERSIONS[0])
            accepted = f"syn{i}.py" not in pre[v]
            if name not in since or accepted != (since[name] <= v):
                res.disagree("reference-table/syntax", {"feature": name, "target": vstr(v)}, {"since": since.get(name)}, {"mypy_parser_accepts": accepted, "why": pre[v].get(f"syn{i}.py")})
    res.bump("reference_rows_validated", len(where) + len(SYNTAX_PROBES))


# ------------------------------------------------------------------------------------------


def run(ctx) -> None:
    res = ctx.res
    try:
        t = x.gate_table_cached()
    except Exception as e:  # noqa: BLE001 - the sweep itself failed (refurb could not lint its own idioms): nothing to examine
        if not res.extraction_errors:
            res.extraction_errors.append(f"C15 sweep: {type(e).__name__}: {e}")
        return
    ref = x.reference_table()
    since = {r["name"]: r["since"] for r in ref}
    running = tuple(sys.version_info[:2])
    files = list(t["files"]) + [{"name": n, "own": None, "src": s, "origin": "synthetic idiom (harness/props/c15.py)"} for n, s in SYNTHETIC.items()]
    corpus = {}
    for cf in sorted((core.VERIF / "corpus" / "C15").glob("*.json")):
        c = json.loads(cf.read_text())
        corpus[c["file_name"]] = c
        files.append({"name": c["file_name"], "own": None, "src": c["file"], "origin": f"corpus/C15/{cf.name}"})
    gen = generated_idioms(ctx.rng("idioms"), 8 if ctx.quick else 80)
    files += [{"name": n, "own": None, "src": s, "origin": f"generated idiom file {n} (seed {core.seed()})"} for n, s in gen.items()]
    by_name = {f["name"]: f for f in files}
    src_lines = {f["name"]: f["src"].splitlines() for f in files}
    table = {(g["code"], g["ver"]): g for g in t["gates"]}
    var_text = {v["id"]: v["text"] for v in t["variants"]}
    var_feats = {(v["code"], v["text"]): v["features"] for v in t["variants"]}
    codes = sorted({g["code"] for g in t["gates"]})
    cat = {r["code"]: r for r in x.extract.catalogue_rows() if r["prefix"] == "FURB"}
    gated = sorted(f"FURB{c}" for c, r in cat.items() if r["nann"] == 4)
    featured = {c for c in codes if any(since.get(f, (9, 9)) > x.VERSIONS[0] for v in t["variants"] if v["code"] == c for f in v["features"])}
    varying = {c for c in codes if len({(table[(c, v)]["reports"], tuple(table[(c, v)]["variants"])) for v in x.VERSIONS}) > 1}
    res.rule = (
        "cases: (a) one per (check, target, spelling) of the CLI sweep — every built-in check x targets 3.6..running x {--python-version, "
        "pyproject python_version}; (b) one per (gated check, target) of the stub sweep — the real check functions of the checks taking `settings` "
        "on the nodes of their own idioms under swept, out-of-range and random targets; (c) one per diagnostic site x adjacent target pair; "
        "(d) reference-table rows x targets against typeshed/mypy's parser (thorough). Idioms: every docstring Bad example (auto-prelude), every "
        "test/data*/ *.py, 7 synthetic files, 8 (quick) / 80 (thorough) generated files (20 idiom templates of the 7 version-sensitive checks x operand classes x 8 contexts). Non-trivial = the check proposes a feature newer than 3.6, or its row pattern/messages vary with the "
        "target, or (sites) the site's diagnostic differs between the two targets; distinct = distinct (kind, check/site, target, spelling)"
    )
    res.assumptions += [
        "a replacement's features are what harness/extract_c15.py's scanner finds in the proposed fragment and not in the replaced fragment / flagged source line; "
        "feature -> first version is the committed table Model/Introduced.lean (>=3.9 API rows and syntax rows re-validated against typeshed/mypy's parser in the thorough tier)",
        "files mypy refuses under a target (newer syntax, or third-party imports written for a newer Python) produce no diagnostics under that target and are skipped there",
        "beyond the swept targets refurb behaves as under the nearest swept target (checked for the gated checks by calling them with out-of-range targets; "
        "for ungated checks only typeshed could make a difference)",
    ]
    res.trusted_extra += [
        "lean/RefurbVerif/Model/Introduced.lean: feature -> first Python version, committed by hand from docs.python.org (one source per row)",
        "harness/extract_c15.py: the scanner that turns a message into feature names (tokens new in the proposed fragment), and the sweep runner",
        "mypy's parser / bundled typeshed as the referent the reference table is validated against",
    ]
    res.not_proved += [
        "typeshed's version conditions change mypy's types between targets; that influence on ungated checks is exercised by the sweep (3.6..3.13), not modelled",
        "feature detection is a scanner over message text, not a semantic analysis; FURB162's feature (fromisoformat accepting Z) is attached by check code",
    ]

    # ---- (a0) reference table: harness' reading == the compiled model's table
    if not ctx.driver.available():
        res.disagreements.append({"where": "driver", "reason": "driver executable not built"})
        return
    (model_ref,) = ctx.driver.batch([{"verb": "introduced"}])
    mine = [{"name": r["name"], "since": list(r["since"]), "tokens": r["tokens"]} for r in ref]
    res.case(("introduced",))
    if model_ref != mine:
        diff = [a for a, b in zip(model_ref, mine) if a != b][:3] or [f"lengths {len(model_ref)} vs {len(mine)}"]
        res.disagree("introduced-table-parse", "Model/Introduced.lean", diff, "harness/extract_c15.py:reference_table reads it differently")

    # ---- (a1) Settings.get_python_version
    from refurb.settings import Settings

    probes = [None, (3, 7), (3, 12), (2, 7), (0, 0), (4, 0), (3, 100)]
    answers = ctx.driver.batch([{"verb": "target", "configured": list(p) if p else None, "running": list(running)} for p in probes])
    for p, a in zip(probes, answers):
        res.case(("target", p), nontrivial=True)
        impl = list(Settings(python_version=p).get_python_version())
        if a != impl:
            res.disagree("get_python_version", {"python_version": p}, a, impl)

    # ---- the three expensive parts run side by side (all are subprocess-bound)
    rng = ctx.rng("targets")
    extra = [(2, 7), (3, 0), (3, 5), (3, 14), (3, 20), (3, 40), (3, 100), (4, 0), (4, 1)]
    extra += [(rng.choice([2, 3, 3, 3, 4]), rng.randint(0, 30)) for _ in range(30 if ctx.quick else 300)]
    targets = sorted(set(x.VERSIONS + extra))
    cli_versions = [v for v in x.VERSIONS if v <= running]
    focus = featured | varying | {int(c[4:]) for c in gated}
    # quick: the CLI sweeps (both spellings) take every docstring example, the synthetic idioms and the test data of the
    # version-sensitive checks; the other test data is covered by the in-process sweep below.  thorough: everything.
    subset = {
        f["name"] for f in files
        if f["name"] in SYNTHETIC or f["name"] in gen or f["name"] in corpus or f["name"].startswith("doc_") or (f["own"] and int(f["own"][4:]) in focus)
    }
    select = {"flag": subset if ctx.quick else None, "config": subset if ctx.quick else None}
    t_phase = time.time()
    with ThreadPoolExecutor(3) as pool:
        fut_stub = pool.submit(stub_targets, files, gated, targets, running)
        fut_sweep = pool.submit(cli_sweep, files, cli_versions, select)
        fut_ref = pool.submit(reference_probe_runs)
        stub, sweep, ref_runs = fut_stub.result(), fut_sweep.result(), fut_ref.result()
    res.notes.append(f"stub sweep + CLI sweep + typeshed probes took {time.time() - t_phase:.1f}s side by side")
    # the translator's own sweep (fresh processes, `run_refurb(Settings(python_version=v))`, every file, 3.6 … 3.13) is
    # implementation behaviour too: the oracle looks at it as a third "spelling"
    for v in x.VERSIONS:
        sweep[(v, "settings")] = {"diags": t["state"][v]["diags"], "refused": t["state"][v]["refused"], "other": [], "runs": []}
    select["settings"] = {f["name"] for f in t["files"]}

    def argv_for(fname: str, v: tuple[int, int], sp: str) -> list[str]:
        return [fname, "--enable-all", "--quiet"] + ([] if sp == "config" else ["--python-version", vstr(v)])

    def pyproject_for(v: tuple[int, int], sp: str) -> str:
        return f'[tool.refurb]\npython_version = "{vstr(v)}"\n' if sp == "config" else ""

    how = "write `file` as `file_name` (and `pyproject` as pyproject.toml) into an empty directory and run `python -m refurb <argv>` there"

    # ---- (a2) the real gated check functions under arbitrary targets vs the model (table + clamp)
    reqs = [{"verb": "gate", "code": int(c[4:]), "version": list(v)} for c in gated for v in targets]
    model = ctx.driver.batch(reqs)
    k = 0
    for c in gated:
        if stub[c]["calls"] == 0 or stub[c]["texts"]:
            res.disagree("stub-sweep", {"check": c}, "the check is called on its own idioms", {"calls": stub[c]["calls"], "refurb_said": stub[c]["texts"]})
        for v in targets:
            m = model[k]
            k += 1
            got = stub[c]["per"][vstr(v)]
            res.case(("stub", c, v), nontrivial=True)
            res.bump("stub_targets_out_of_sweep" if v not in x.VERSIONS else "stub_targets_swept")
            want_msgs = sorted(vv["text"] for vv in m.get("variants", []))
            if got["exc"] or m.get("reports") != bool(got["msgs"]) or want_msgs != got["msgs"]:
                res.disagree(
                    "gate-vs-check-function", {"check": c, "target": vstr(v), "how": "check(node, errors, Settings(python_version=target)) on the nodes of the check's own idioms"},
                    {"reports": m.get("reports"), "messages": want_msgs[:4]}, {"reports": bool(got["msgs"]), "messages": got["msgs"][:4], "exception": got["exc"]},
                )
    res.sample({"stub": {"check": gated[0] if gated else None, "targets": [vstr(v) for v in targets[:12]], "calls": stub[gated[0]]["calls"] if gated else 0}})

    # ---- (a3) the CLI sweeps vs the model, per check
    own = {f["name"]: f["own"] for f in files}
    own_files: dict[int, set[str]] = {}
    for f in t["files"]:
        if f["own"]:
            own_files.setdefault(int(f["own"][4:]), set()).add(f["name"])

    def feats_of(d: list[Any]) -> list[str]:
        fname, code, line, _col, msg = d
        lines = src_lines.get(fname, [])
        return x.features_of_message(code, msg, lines[line - 1] if 0 < line <= len(lines) else None)

    model_rows = ctx.driver.batch([{"verb": "gate", "code": c, "version": list(v)} for v in cli_versions for c in codes])
    k = 0
    for v in cli_versions:
        per_sp: dict[str, dict[int, set[str]]] = {}
        for sp in ("flag", "config"):
            r = sweep[(v, sp)]
            if r["other"]:
                # a crash/traceback is C03's subject; here it only means this target could not be examined
                res.disagree("cli-run", {"target": vstr(v), "spelling": sp, "runs": r["runs"][-1:]}, "diagnostics only", r["other"][:4])
            per: dict[int, set[str]] = {c: set() for c in codes}
            for fname, code, _l, _c, msg in r["diags"]:
                if own.get(fname) == code and int(code[4:]) in per:
                    per[int(code[4:])].add(msg)
            per_sp[sp] = per
        for c in codes:
            m = model_rows[k]
            k += 1
            want = sorted(vv["text"] for vv in m.get("variants", []))
            for sp in ("flag", "config"):
                if select[sp] is not None and not own_files.get(c, set()) <= select[sp]:
                    continue  # quick tier: not all idioms of this check were linted through the CLI
                res.case(("cli", c, v, sp), nontrivial=c in featured or c in varying)
                got = sorted(per_sp[sp][c])
                if want != got or m.get("rowReports") != bool(got):
                    res.disagree(
                        "gate-vs-cli", {"check": f"FURB{c}", "target": vstr(v), "spelling": sp},
                        {"reports": m.get("rowReports"), "messages": [w for w in want if w not in got][:3]},
                        {"reports": bool(got), "messages": [g for g in got if g not in want][:3]},
                    )
        res.bump("cli_runs", sum(len(sweep[(v, sp)]["runs"]) for sp in ("flag", "config")))
        res.bump(f"cli_diagnostics@{vstr(v)}", len(sweep[(v, "flag")]["diags"]))
    for v in x.VERSIONS:
        res.bump(f"diagnostics@{vstr(v)}", len(sweep[(v, "settings")]["diags"]))
        res.bump(f"refused_files@{vstr(v)}", len(sweep[(v, "settings")]["refused"]))

    for v in cli_versions:
        for pr in sweep[(v, "flag")].get("refusal_probes", []):
            res.case(("refusal", pr["file"], v), nontrivial=True)
            res.bump("refusal_probes")
            if pr["file"] not in pr["refurb_refused"] or pr["diags"]:
                res.disagree(
                    "target-not-forwarded-to-mypy", {"file": by_name[pr["file"]]["origin"], "target": vstr(v), "argv": pr["runs"][-1]["argv"] if pr["runs"] else None},
                    {"refused": True, "why": pr["predicted"]}, {"refused": pr["file"] in pr["refurb_refused"], "diagnostics": pr["diags"]},
                )

    # ---- (b) oracle 1: the spellings of the target agree (flag vs config file vs Settings object)
    for v in cli_versions:
        for sp_a, sp_b in (("flag", "config"), ("flag", "settings")):
            common = None
            for sp in (sp_a, sp_b):
                if select[sp] is not None:
                    common = select[sp] if common is None else common & select[sp]
            a = sorted(tuple(d) for d in sweep[(v, sp_a)]["diags"] if common is None or d[0] in common)
            b = sorted(tuple(d) for d in sweep[(v, sp_b)]["diags"] if common is None or d[0] in common)
            res.case(("spellings", v, sp_b), nontrivial=True)
            if a != b and v < FIRST_IN_RANGE:
                res.bump("spellings_differ_below_3.7_(outside_the_property's_range)")
            elif a != b:
                only = [d for d in a if d not in b][:3] + [d for d in b if d not in a][:3]
                d0 = only[0]
                res.violate(
                    f"target {vstr(v)} given as {sp_a} and as {sp_b} gives different reports ({d0[1]} in {by_name[d0[0]]['origin']})",
                    {"kind": "target-spelling-differs", "check": d0[1], "target": vstr(v), "spellings": f"{sp_a}/{sp_b}"},
                    {"file_name": d0[0], "file": by_name[d0[0]]["src"], "origin": by_name[d0[0]]["origin"], "argv_flag": argv_for(d0[0], v, "flag"),
                     "argv_config": argv_for(d0[0], v, "config"), "pyproject": pyproject_for(v, "config"), "differing": only, "required": "identical reports", "how": how},
                )

    # ---- (b2) both spellings at once: the command line's target wins over the config file's (the target the user typed is
    # the one the replacements must respect)
    with core.scratch("rv-c15both-") as bd:
        names_b = sorted(SYNTHETIC)
        jobs_b = []
        for flag_v, cfg_v in (((3, 8), (3, 12)), ((3, 12), (3, 8)), ((3, 7), (3, 13)), ((3, 9), (3, 10))):
            for tag, cfg in (("both", cfg_v), ("flag-only", None), ("mypy-section", cfg_v), ("mypy-flag", cfg_v), ("mypy-args", cfg_v)):
                sub = bd / f"{tag}-{vstr(flag_v)}-{vstr(cfg_v)}"
                sub.mkdir()
                for n in names_b:
                    (sub / n).write_text(SYNTHETIC[n])
                # the TARGET is refurb's own; a version MYPY is configured with ([tool.mypy], `-- --python-version`, mypy_args) is not it
                text = {"both": f'[tool.refurb]\npython_version = "{vstr(cfg_v)}"\n', "flag-only": "", "mypy-section": f'[tool.mypy]\npython_version = "{vstr(cfg_v)}"\n',
                        "mypy-flag": "", "mypy-args": f'[tool.refurb]\nmypy_args = ["--python-version", "{vstr(cfg_v)}"]\n'}[tag]
                (sub / "pyproject.toml").write_text(text)
                jobs_b.append((flag_v, cfg_v, tag, sub))
        with ThreadPoolExecutor(8) as ex:
            outs_b = list(ex.map(lambda j: core.refurb_cli([*names_b, "--enable-all", "--quiet", "--python-version", vstr(j[0])] + (["--", "--python-version", vstr(j[1])] if j[2] == "mypy-flag" else []), cwd=j[3], timeout=600), jobs_b))
        by = {(j[0], j[1], j[2]): o for j, o in zip(jobs_b, outs_b)}
        for flag_v, cfg_v in {(j[0], j[1]) for j in jobs_b}:
            alone_ = by[(flag_v, cfg_v, "flag-only")]
            for tag_m in ("mypy-section", "mypy-flag", "mypy-args"):
                om = by[(flag_v, cfg_v, tag_m)]
                res.case(("flag-vs-mypy-version", tag_m, flag_v, cfg_v), nontrivial=True)
                res.bump("cli_runs")
                dm, d0_ = core.parse_plain(om[1])[0], core.parse_plain(alone_[1])[0]
                key_ = lambda x: (x["file"], x["line"], x["col"], x["code"], x["msg"])  # noqa: E731
                if om[2].strip() or sorted(map(key_, dm)) != sorted(map(key_, d0_)):
                    only_m = [f"{x['file']}:{x['line']} FURB{x['code']}: {x['msg']}" for x in dm if x not in d0_][:3] + [f"(missing) {x['file']}:{x['line']} FURB{x['code']}: {x['msg']}" for x in d0_ if x not in dm][:3]
                    res.violate(
                        f"--python-version {vstr(flag_v)} does not decide the target when mypy is given the version {vstr(cfg_v)} through {tag_m}: {only_m[:2]}",
                        {"kind": "mypy-version-overrides-target", "via": tag_m},
                        {"files": {n: SYNTHETIC[n] for n in names_b}, "via": tag_m, "mypy_version": vstr(cfg_v), "argv": [*names_b, "--enable-all", "--quiet", "--python-version", vstr(flag_v)],
                         "differing": only_m, "stderr": om[2][-300:], "required": "the diagnostics of the same command without any mypy version", "how": how},
                    )
                    break
            both = by[(flag_v, cfg_v, "both")]
            res.case(("flag-over-config", flag_v, cfg_v), nontrivial=True)
            res.bump("cli_runs", 2)
            if both[:2] != alone_[:2]:
                da, db = core.parse_plain(both[1])[0], core.parse_plain(alone_[1])[0]
                only = [f"{x['file']}:{x['line']} FURB{x['code']}: {x['msg']}" for x in da if x not in db][:3] + [f"(missing) {x['file']}:{x['line']} FURB{x['code']}: {x['msg']}" for x in db if x not in da][:3]
                res.violate(
                    f"--python-version {vstr(flag_v)} with python_version = \"{vstr(cfg_v)}\" in the config file does not behave like --python-version {vstr(flag_v)} alone: {only[:2]}",
                    {"kind": "flag-does-not-override-config", "flag": vstr(flag_v), "config": vstr(cfg_v)},
                    {"files": {n: SYNTHETIC[n] for n in names_b}, "pyproject": f'[tool.refurb]\npython_version = "{vstr(cfg_v)}"\n', "argv": [*names_b, "--enable-all", "--quiet", "--python-version", vstr(flag_v)],
                     "differing": only, "required": "the report of the same command with an empty pyproject.toml", "how": how},
                )

    # ---- oracle 2: no replacement needs more than the target (every diagnostic of every check on every file)
    unlisted: dict[str, Any] = {}
    found: dict[tuple[str, str, tuple[int, int]], tuple[int, str, list[Any]]] = {}
    for (v, sp), r in sweep.items():
        if v > running:
            continue
        for d in r["diags"]:
            fname, code, line, col, msg = d
            for f in feats_of(d):
                if f not in since:
                    unlisted.setdefault(f, {"check": code, "message": msg, "file": by_name[fname]["origin"]})
                elif since[f] > v:
                    res.bump("feature_newer_than_target" + ("" if v >= FIRST_IN_RANGE else "_below_3.7_(outside_the_property's_range)"))
                    if v >= FIRST_IN_RANGE:
                        key = (code, f, v)
                        cand = (len(by_name[fname]["src"]), "" if sp == "flag" else sp, [sp, d])
                        if key not in found or cand[:2] < found[key][:2]:
                            found[key] = cand  # smallest witness file, command-line spelling preferred
    for (code, f, v), (_n, _sp, (sp, d)) in sorted(found.items()):
        fname, _code, line, col, msg = d
        res.violate(
            f"{code} proposes {f} (new in {vstr(since[f])}) under target {vstr(v)}: {msg}",
            {"kind": "feature-newer-than-target", "check": code, "feature": f, "target": vstr(v)},
            {"file_name": fname, "file": by_name[fname]["src"], "origin": by_name[fname]["origin"], "argv": argv_for(fname, v, sp),
             "pyproject": pyproject_for(v, sp), "seen_with": sp, "observed": f"{fname}:{line}:{col} [{code}]: {msg}",
             "required": f"no proposal of {f} before {vstr(since[f])}", "how": how},
        )
    for f, info in sorted(unlisted.items()):
        # a token nobody classified: not a violation, but the scan is blind to it -> the property is not shown for it
        res.disagree("scanner-unlisted-feature", info, "every token of a proposed fragment is an entry of Model/Introduced.lean", f)

    # ---- oracle 3: raising the target one step never loses a diagnostic; a changed message is a newer spelling
    for sp in ("settings", "flag"):
        for lo, hi in zip(cli_versions, cli_versions[1:]):
            a = {(d[0], d[2], d[3], d[1]): d for d in sweep[(lo, sp)]["diags"]}
            b = {(d[0], d[2], d[3], d[1]): d for d in sweep[(hi, sp)]["diags"]}
            skip = set(sweep[(hi, sp)]["refused"]) | set(sweep[(lo, sp)]["refused"])
            for site, d in a.items():
                if site[0] in skip:
                    continue
                e = b.get(site)
                changed = e is None or e[4] != d[4]
                res.case(("site", sp, site, lo, hi), nontrivial=changed)
                if not changed:
                    continue
                fname, line, col, code = site
                base = {"file_name": fname, "file": by_name[fname]["src"], "origin": by_name[fname]["origin"],
                        "argv_lower": argv_for(fname, lo, "flag"), "argv_higher": argv_for(fname, hi, "flag"),
                        "observed_lower": f"{fname}:{line}:{col} [{code}]: {d[4]}", "how": how}
                in_range = lo >= FIRST_IN_RANGE
                if e is None:
                    res.bump("diagnostic_lost_when_raising" + ("" if in_range else "_below_3.7"))
                    if in_range:
                        where = "dead-version-guard-branch" if line_dead_under(by_name[fname]["src"], line, hi) and not line_dead_under(by_name[fname]["src"], line, lo) else "live-code"
                        res.violate(
                            f"{code} at {by_name[fname]['origin']}:{line} is reported under {vstr(lo)} and not under {vstr(hi)} ({where})",
                            {"kind": "diagnostic-lost-when-raising-target", "check": code, "where": where, "needs": "resolved-names" if needs_resolution(code) else "syntax-only", "from": vstr(lo), "to": vstr(hi)},
                            {**base, "observed_higher": "nothing at that site", "required": "the diagnostic stays (or switches to a newer spelling)"},
                        )
                else:
                    res.bump("message_switches")
                    newer = [f for f in feats_of(e) if f in since and lo < since[f] <= hi]
                    if not newer and in_range:
                        res.violate(
                            f"{code} at {by_name[fname]['origin']}:{line} changes its message between {vstr(lo)} and {vstr(hi)} without the new one needing anything newer than {vstr(lo)}",
                            {"kind": "switch-not-to-newer-spelling", "check": code, "from": vstr(lo), "to": vstr(hi)},
                            {**base, "observed_higher": f"{fname}:{line}:{col} [{code}]: {e[4]}",
                             "required": "a message changes only to the spelling that needs a feature first available in the higher target"},
                        )
            for site, e in b.items():
                if site not in a and site[0] not in skip:
                    res.case(("site+", sp, site, lo, hi), nontrivial=True)
                    res.bump("diagnostics_added_when_raising")

    # what lies beyond the property's range, for the record (typeshed removals: `re.T` is gone in 3.13)
    for v in [v for v in x.VERSIONS if v > running]:
        prev = t["state"][running]["diags"]
        now = {(d[0], d[2], d[3], d[1]) for d in t["state"][v]["diags"]}
        lost = [d for d in prev if (d[0], d[2], d[3], d[1]) not in now and d[0] not in t["state"][v]["refused"]]
        res.notes.append(
            f"outside the property's range (target {vstr(v)} > running {vstr(running)}): {len(lost)} diagnostic(s) of target {vstr(running)} are not reported"
            + (f", e.g. {lost[0][1]} `{lost[0][4]}` (typeshed no longer has the replaced name)" if lost else "")
        )

    # ---- (d) the reference table against typeshed / mypy's parser
    validate_reference(res, ref, ref_runs)

    v0 = next((v for v in t["variants"] if v["code"] == 188), None)
    if v0:
        res.sample({"variant": v0["text"], "features": v0["features"], "since": [vstr(since[f]) for f in v0["features"] if f in since]})
    res.sample({"cli": sweep[(cli_versions[0], "flag")]["runs"][:1], "files": len(files)})
    res.bump("idiom_files", len(files))
    res.bump("cli_files", len(subset) if ctx.quick else len(files))
    res.bump("checks", len(codes))
    res.bump("gated_checks", len(gated))
    res.bump("variants", len(t["variants"]))
    res.bump("checks_with_post_3.6_feature", len(featured))
    res.notes.append("checks whose row pattern or messages vary with the target: " + ", ".join(f"FURB{c}" for c in sorted(varying)))
    res.exhaustive = False


def replay(path) -> int:
    """Re-run a recorded violation against the current /repo; exit 1 if it still happens."""
    data = json.loads(Path(path).read_text())
    rp, sig = data.get("replay", {}), data.get("signature", {})
    print(json.dumps({"what": data.get("what"), "signature": sig}, indent=1))
    if "file" not in rp:
        print(json.dumps(data, indent=1))
        return 0
    name = rp.get("file_name", "replay.py")
    still = False
    with core.scratch("rv-c15p-") as d:
        (d / name).write_text(rp["file"])
        (d / "pyproject.toml").write_text(rp.get("pyproject", ""))
        for key in ("argv", "argv_flag", "argv_config", "argv_lower", "argv_higher"):
            if key not in rp:
                continue
            if key == "argv_config":
                (d / "pyproject.toml").write_text(rp.get("pyproject", ""))
            elif key != "argv":
                (d / "pyproject.toml").write_text("")
            rc, out, err = core.refurb_cli(rp[key], cwd=d)
            print(f"$ refurb {' '.join(rp[key])}    (rc={rc})\n{out}{err[-500:]}")
            if key == "argv" and rp.get("observed", "\0") in out:
                still = True
            if key == "argv_higher" and sig.get("kind") == "diagnostic-lost-when-raising-target":
                site = rp["observed_lower"].split(": ", 1)[0]
                still = site not in out
    print("required:", rp.get("required"))
    return 1 if still else 0
