"""Translators for C02.

`Printable`: the Unicode table `repr(str)` consults (`str.isprintable`), from the running interpreter.
Generated/Printable.lean holds the inclusive ranges of code points that are NOT printable; `_stringify` escapes
string literals with `repr(value)[1:-1]`, whose `\\x../\\u..../\\U........` escapes are chosen by this table.

`Templates`: every message a check under refurb/checks/** can build, read off the CURRENT source of the check by a
small symbolic evaluation of its `ast` (see `scan_module`): each `ErrorInfo.from_node(node, msg)` / `ErrorInfo(line,
col, msg)` site is evaluated on every path that reaches it, string-valued locals (`msg = f"Replace …"`, `old = …`,
`new = f"not {new}"`, `func = "max" if … else "min"`, `for oper in ("==", "is")`, `"==" | "!=" as oper`) are followed,
local helper functions are inlined.  A message becomes a list of literal chunks and holes; a hole is `stringify(<expr>)`
(kind `sfy`) or a raw interpolation of something else (`raw:<what>`: a name from a table, `node.name`, `str(node)`, a
`", ".join(…)`).  Every back-quoted fragment of a message is then parsed with placeholder names in the holes
(CPython's parser is the reference grammar) and turned into a `Node` with holes (`.other i`), so that Lean computes, by
`reqs`, the level each hole's position demands.
"""

from __future__ import annotations

import ast
import re
import sys
from typing import Any

from . import core, extract


@extract.register("Printable")
def gen_printable() -> str:
    ranges: list[list[int]] = []
    for c in range(sys.maxunicode + 1):
        if not chr(c).isprintable():
            if ranges and ranges[-1][1] == c - 1:
                ranges[-1][1] = c
            else:
                ranges.append([c, c])
    return (
        extract.HEADER
        + "namespace RefurbVerif.Generated\n\n"
        + "/-- inclusive ranges of code points for which `str.isprintable()` is false (what `repr` escapes) -/\n"
        + "def nonPrintableRanges : List (Nat × Nat) := %s\n" % extract.llist(["(%d, %d)" % (a, b) for a, b in ranges])
        + "\nend RefurbVerif.Generated\n"
    )


# --------------------------------------------------------------------------------------------
# message templates of the checks, from their source


class Unknown:
    """a value the evaluation does not follow; interpolated into a message it becomes a raw hole"""

    def __init__(self, kind: str, src: str) -> None:
        self.kind, self.src = kind, src

    def key(self) -> Any:
        return ("U", self.kind, self.src)


# a symbolic string: tuple of parts ("lit", text) | ("sfy", source of the argument) | ("raw", kind, source)
SStr = tuple
MAX_ALTS = 24
MAX_ENVS = 400


def s_lit(t: str) -> SStr:
    return (("lit", t),) if t else ()


def s_cat(a: SStr, b: SStr) -> SStr:
    if a and b and a[-1][0] == "lit" and b[0][0] == "lit":
        return a[:-1] + (("lit", a[-1][1] + b[0][1]),) + b[1:]
    return a + b


def is_sstr(v: Any) -> bool:
    return isinstance(v, tuple) and (not v or isinstance(v[0], tuple))


def lit_value(v: Any) -> str | None:
    """the Python string a symbolic string stands for, if it has no hole"""
    if is_sstr(v) and all(p[0] == "lit" for p in v):
        return "".join(p[1] for p in v)
    return None


def as_sstr(v: Any, src: str) -> SStr:
    """what interpolating `v` into an f-string gives"""
    if is_sstr(v):
        return v
    if isinstance(v, Unknown):
        return (("raw", v.kind, v.src),)
    return (("raw", "expr", src),)


def vkey(v: Any) -> Any:
    if isinstance(v, Unknown):
        return v.key()
    if isinstance(v, list):
        return ("L", tuple(vkey(x) for x in v))
    return v


class Table:
    """a module-level dict with literal string keys"""

    def __init__(self, rows: list[tuple[str, Any]]) -> None:
        self.rows = rows

    def lookup(self, key: Any) -> list[Any] | None:
        k = lit_value(key)
        if k is not None:
            hit = [v for kk, v in self.rows if kk == k]
            return hit[-1:] or None
        vals = Scanner._dedupe([v for _, v in self.rows])
        return vals if len(vals) <= 12 and not any(isinstance(v, Unknown) for v in vals) else None


class Scanner:
    """symbolic evaluation of one check module"""

    def __init__(self, tree: ast.Module, relpath: str) -> None:
        self.tree, self.relpath = tree, relpath
        self.funcs: dict[str, ast.FunctionDef] = {}
        self.methods: dict[tuple[str, str], ast.FunctionDef] = {}
        self.consts: dict[str, Any] = {}
        self.static_msg: str | None = None
        self.code: str | None = None
        self.sites: dict[int, set[SStr]] = {}
        self.reporting: set[str] = set()
        self.depth = 0
        self.cls: str | None = None
        for st in tree.body:
            if isinstance(st, ast.FunctionDef):
                self.funcs[st.name] = st
            elif isinstance(st, ast.ClassDef):
                if st.name == "ErrorInfo":
                    self._error_info(st)
                for m in st.body:
                    if isinstance(m, ast.FunctionDef):
                        self.methods[(st.name, m.name)] = m
            elif isinstance(st, ast.Assign) and len(st.targets) == 1 and isinstance(st.targets[0], ast.Name):
                c = self._const(st.value)
                if c is not None:
                    self.consts[st.targets[0].id] = c

    @staticmethod
    def _const(e: ast.expr) -> Any:
        if isinstance(e, ast.Constant) and isinstance(e.value, str):
            return s_lit(e.value)
        if isinstance(e, (ast.Tuple, ast.List, ast.Set)) and e.elts and all(isinstance(x, ast.Constant) and isinstance(x.value, str) for x in e.elts):
            return [s_lit(x.value) for x in e.elts]  # type: ignore[attr-defined]
        if isinstance(e, ast.Dict) and e.keys and all(isinstance(k, ast.Constant) and isinstance(k.value, str) for k in e.keys):
            return Table([(k.value, Scanner._cell(v)) for k, v in zip(e.keys, e.values)])  # type: ignore[union-attr]
        return None

    @staticmethod
    def _cell(e: ast.expr) -> Any:
        """a value of a module-level table: strings are followed, tuples element-wise, anything else is opaque"""
        if isinstance(e, ast.Constant) and isinstance(e.value, str):
            return s_lit(e.value)
        if isinstance(e, ast.Tuple):
            return [Scanner._cell(x) for x in e.elts]
        return Unknown("cell", ast.unparse(e))

    def _error_info(self, cls: ast.ClassDef) -> None:
        prefix, code = "FURB", None
        for st in cls.body:
            tgt = st.target if isinstance(st, ast.AnnAssign) else st.targets[0] if isinstance(st, ast.Assign) else None
            val = getattr(st, "value", None)
            if isinstance(tgt, ast.Name) and isinstance(val, ast.Constant):
                if tgt.id == "code":
                    code = val.value
                elif tgt.id == "prefix":
                    prefix = val.value
                elif tgt.id == "msg" and isinstance(val.value, str):
                    self.static_msg = val.value
        if code is not None:
            self.code = f"{prefix}{code}"

    # ---- expressions

    def eval(self, e: ast.expr, env: dict[str, Any]) -> list[Any]:
        """all values `e` may have in `env` (symbolic strings, lists of values, tables, or Unknown)"""
        src = ast.unparse(e)
        if isinstance(e, ast.Constant):
            return [s_lit(e.value)] if isinstance(e.value, str) else [Unknown("const", src)]
        if isinstance(e, ast.JoinedStr):
            outs: list[SStr] = [()]
            for p in e.values:
                if isinstance(p, ast.Constant):
                    alts: list[SStr] = [s_lit(str(p.value))]
                else:
                    assert isinstance(p, ast.FormattedValue)
                    if p.conversion != -1 or p.format_spec is not None:
                        alts = [(("raw", "fmt", ast.unparse(p.value)),)]
                    else:
                        alts = [as_sstr(v, ast.unparse(p.value)) for v in self.eval(p.value, env)]
                outs = [s_cat(o, a) for o in outs for a in alts][:MAX_ALTS]
            return list(outs)
        if isinstance(e, ast.BinOp) and isinstance(e.op, ast.Add):
            ls, rs = self.eval(e.left, env), self.eval(e.right, env)
            if any(is_sstr(v) for v in ls + rs):
                return [s_cat(as_sstr(a, ast.unparse(e.left)), as_sstr(b, ast.unparse(e.right))) for a in ls for b in rs][:MAX_ALTS]
            return [Unknown("expr", src)]
        if isinstance(e, ast.IfExp):
            t = self.truth(e.test, env)
            out: list[Any] = []
            if t is not False:
                out += self.eval(e.body, env)
            if t is not True:
                out += self.eval(e.orelse, env)
            return self._dedupe(out)
        if isinstance(e, ast.Name):
            if e.id in env:
                return [env[e.id]]
            if e.id in self.consts:
                return [self.consts[e.id]]
            return [Unknown("name", e.id)]
        if isinstance(e, ast.NamedExpr):
            vs = self.eval(e.value, env)
            env[e.target.id] = vs[0] if len(vs) == 1 else Unknown("name", e.target.id)
            return vs
        if isinstance(e, (ast.Tuple, ast.List, ast.Set)):
            if any(isinstance(x, ast.Starred) for x in e.elts):
                return [Unknown("expr", src)]
            combos: list[list[Any]] = [[]]
            for x in e.elts:
                combos = [c + [v] for c in combos for v in self.eval(x, env)][:MAX_ALTS]
            return combos
        if isinstance(e, ast.Attribute):
            return [Unknown("attr", src)]
        if isinstance(e, ast.Subscript):
            base = self.eval(e.value, env)
            if len(base) == 1 and isinstance(base[0], list) and isinstance(e.slice, ast.Constant) and isinstance(e.slice.value, int):
                try:
                    return [base[0][e.slice.value]]
                except IndexError:
                    pass
            if len(base) == 1 and isinstance(base[0], Table):
                keys = self.eval(e.slice, env)
                if len(keys) == 1:
                    hit = base[0].lookup(keys[0])
                    if hit:
                        return hit
            return [Unknown("table", src)]
        if isinstance(e, ast.Call):
            return self.eval_call(e, env, src)
        return [Unknown("expr", src)]

    def eval_call(self, e: ast.Call, env: dict[str, Any], src: str) -> list[Any]:
        f = e.func
        if isinstance(f, ast.Name) and f.id in ("stringify", "_stringify") and len(e.args) == 1 and not e.keywords:
            return [(("sfy", ast.unparse(e.args[0])),)]
        if isinstance(f, ast.Name) and f.id == "slice_expr_to_slice_call" and len(e.args) == 1:
            return [(("raw", "slicecall", ast.unparse(e.args[0])),)]
        if isinstance(f, ast.Name) and f.id in ("str", "repr") and len(e.args) == 1:
            return [(("raw", f.id, ast.unparse(e.args[0])),)]
        if isinstance(f, ast.Name) and f.id in self.funcs and self.depth < 4:
            return self.inline(self.funcs[f.id], e, env, None)
        if isinstance(f, ast.Attribute) and isinstance(f.value, ast.Name) and f.value.id == "self" and self.cls and (self.cls, f.attr) in self.methods and self.depth < 4:
            return self.inline(self.methods[(self.cls, f.attr)], e, env, "self")
        if isinstance(f, ast.Attribute) and f.attr == "join" and len(e.args) == 1:
            seps, lists = self.eval(f.value, env), self.eval(e.args[0], env)
            if len(seps) == 1 and lit_value(seps[0]) is not None and len(lists) == 1 and isinstance(lists[0], list) and lists[0]:
                acc: SStr = ()
                for i, x in enumerate(lists[0]):
                    acc = s_cat(s_cat(acc, seps[0] if i else ()), as_sstr(x, "item"))
                return [acc]
            return [(("raw", "join", src),)]
        if isinstance(f, ast.Attribute) and f.attr == "get" and e.args:
            base = self.eval(f.value, env)
            if len(base) == 1 and isinstance(base[0], Table):
                keys = self.eval(e.args[0], env)
                if len(keys) == 1:
                    hit = base[0].lookup(keys[0])
                    if hit:
                        if lit_value(keys[0]) is None and len(e.args) > 1:
                            hit = hit + self.eval(e.args[1], env)
                        return self._dedupe(hit)
        return [Unknown("call", src)]

    def inline(self, fn: ast.FunctionDef, call: ast.Call, env: dict[str, Any], skip: str | None) -> list[Any]:
        params = [a.arg for a in fn.args.posonlyargs + fn.args.args]
        if skip and params and params[0] == skip:
            params = params[1:]
        defaults = dict(zip(reversed(params), reversed(fn.args.defaults)))
        defaults.update({a.arg: d for a, d in zip(fn.args.kwonlyargs, fn.args.kw_defaults) if d is not None})
        bound: list[dict[str, Any]] = [{}]
        for i, p in enumerate(params + [a.arg for a in fn.args.kwonlyargs]):
            arg: ast.expr | None = call.args[i] if i < len(call.args) and i < len(params) and not any(isinstance(a, ast.Starred) for a in call.args[: i + 1]) else None
            for kw in call.keywords:
                if kw.arg == p:
                    arg = kw.value
            if arg is None:
                arg = defaults.get(p)
            vals = self.eval(arg, env) if arg is not None else [Unknown("name", p)]
            # an argument the caller does not know is named after the parameter it becomes
            vals = [Unknown("name", p) if isinstance(v, Unknown) else v for v in vals]
            bound = [dict(b, **{p: v}) for b in bound for v in self._dedupe(vals)][:MAX_ALTS]
        self.depth += 1
        rets: list[Any] = []
        saved = self.cls
        try:
            for b in bound:
                self.block(fn.body, [b], rets)
        finally:
            self.depth -= 1
            self.cls = saved
        return self._dedupe(rets) or [Unknown("call", ast.unparse(call))]

    @staticmethod
    def _dedupe(vals: list[Any]) -> list[Any]:
        seen, out = set(), []
        for v in vals:
            k = vkey(v)
            if k not in seen:
                seen.add(k)
                out.append(v)
        return out[:MAX_ALTS]

    def truth(self, t: ast.expr, env: dict[str, Any]) -> bool | None:
        """decide a test when it only compares fully known strings (prunes impossible paths)"""
        if isinstance(t, ast.UnaryOp) and isinstance(t.op, ast.Not):
            r = self.truth(t.operand, env)
            return None if r is None else not r
        if isinstance(t, ast.Compare) and len(t.ops) == 1:
            ls, rs = self.eval(t.left, dict(env)), self.eval(t.comparators[0], dict(env))
            if len(ls) == 1 and len(rs) == 1:
                a = lit_value(ls[0])
                if a is not None and isinstance(t.ops[0], (ast.Eq, ast.NotEq)):
                    b = lit_value(rs[0])
                    if b is not None:
                        return (a == b) == isinstance(t.ops[0], ast.Eq)
                if a is not None and isinstance(t.ops[0], (ast.In, ast.NotIn)) and isinstance(rs[0], list):
                    bs = [lit_value(x) for x in rs[0]]
                    if all(x is not None for x in bs):
                        return (a in bs) == isinstance(t.ops[0], ast.In)
        if isinstance(t, ast.Name) and t.id in env:
            a = lit_value(env[t.id])
            if a is not None:
                return bool(a)
        return None

    # ---- statements

    def record(self, node: ast.AST, env: dict[str, Any]) -> None:
        """every ErrorInfo construction inside `node`, and every local function called there that may report"""
        for c in ast.walk(node):
            if not isinstance(c, ast.Call):
                continue
            f = c.func
            direct = isinstance(f, ast.Name) and f.id == "ErrorInfo"
            via = isinstance(f, ast.Attribute) and f.attr == "from_node" and isinstance(f.value, ast.Name) and f.value.id == "ErrorInfo"
            if not (direct or via):
                if self.depth < 4:
                    if isinstance(f, ast.Name) and f.id in self.funcs and f.id in self.reporting:
                        self.inline(self.funcs[f.id], c, dict(env), None)
                    elif isinstance(f, ast.Attribute) and isinstance(f.value, ast.Name) and f.value.id == "self" and self.cls and (self.cls, f.attr) in self.methods and "self." + f.attr in self.reporting:
                        self.inline(self.methods[(self.cls, f.attr)], c, dict(env), "self")
                continue
            msg: ast.expr | None = None
            pos = 2 if direct else 1
            if len(c.args) > pos:
                msg = c.args[pos]
            for kw in c.keywords:
                if kw.arg == "msg":
                    msg = kw.value
            if msg is None:
                vals: list[Any] = [s_lit(self.static_msg)] if self.static_msg is not None else [(("raw", "default", "msg"),)]
            else:
                vals = [as_sstr(v, ast.unparse(msg)) for v in self.eval(msg, dict(env))]
            if c.lineno not in self.sites:
                self.sites[c.lineno] = set()
            self.sites[c.lineno].update(vals)

    def _fork(self, envs: list[dict[str, Any]]) -> list[dict[str, Any]]:
        seen, out = set(), []
        for env in envs:
            k = tuple(sorted((n, vkey(v)) for n, v in env.items() if not isinstance(v, Unknown) or v.kind != "name" or v.src != n))
            if k not in seen:
                seen.add(k)
                out.append(env)
        return out[:MAX_ENVS]

    def bind(self, tgt: ast.expr, val: Any, env: dict[str, Any]) -> None:
        if isinstance(tgt, ast.Name):
            env[tgt.id] = val
        elif isinstance(tgt, (ast.Tuple, ast.List)):
            stars = [i for i, x in enumerate(tgt.elts) if isinstance(x, ast.Starred)]
            n = len(tgt.elts)
            for i, x in enumerate(tgt.elts):
                if isinstance(x, ast.Starred):
                    self.bind(x.value, Unknown("name", ast.unparse(x.value)), env)
                elif isinstance(val, list) and not stars and len(val) == n:
                    self.bind(x, val[i], env)
                elif isinstance(val, list) and len(stars) == 1 and len(val) >= n - 1 and i < stars[0]:
                    self.bind(x, val[i], env)
                else:
                    for nm in ast.walk(x):
                        if isinstance(nm, ast.Name):
                            env[nm.id] = Unknown("name", nm.id)

    def pattern(self, p: ast.pattern, envs: list[dict[str, Any]]) -> list[dict[str, Any]]:
        """bind the capture names of a pattern; `"a" | "b" as name` enumerates the literals"""
        for n in ast.walk(p):
            if isinstance(n, ast.MatchAs) and n.name:
                lits: list[str] | None = None
                if isinstance(n.pattern, ast.MatchOr):
                    cand = [q.value.value for q in n.pattern.patterns if isinstance(q, ast.MatchValue) and isinstance(q.value, ast.Constant) and isinstance(q.value.value, str)]
                    if len(cand) == len(n.pattern.patterns):
                        lits = cand
                elif isinstance(n.pattern, ast.MatchValue) and isinstance(n.pattern.value, ast.Constant) and isinstance(n.pattern.value.value, str):
                    lits = [n.pattern.value.value]
                if lits:
                    envs = [dict(env, **{n.name: s_lit(v)}) for env in envs for v in lits]
                else:
                    for env in envs:
                        env[n.name] = Unknown("name", n.name)
            elif isinstance(n, ast.MatchStar) and n.name:
                for env in envs:
                    env[n.name] = Unknown("name", n.name)
            elif isinstance(n, ast.MatchMapping) and n.rest:
                for env in envs:
                    env[n.rest] = Unknown("name", n.rest)
        return envs

    def block(self, stmts: list[ast.stmt], envs: list[dict[str, Any]], rets: list[Any] | None) -> list[dict[str, Any]]:
        """run `stmts` on every environment; returns the environments that fall through"""
        for st in stmts:
            if not envs:
                break
            envs = self._fork(self.stmt(st, envs, rets))
        return envs

    def stmt(self, st: ast.stmt, envs: list[dict[str, Any]], rets: list[Any] | None) -> list[dict[str, Any]]:
        out: list[dict[str, Any]] = []
        if isinstance(st, (ast.Assign, ast.AnnAssign, ast.AugAssign)):
            if st.value is None:
                return envs
            for env in envs:
                self.record(st.value, env)
                for v in self.eval(st.value, env):
                    e2 = dict(env)
                    if isinstance(st, ast.AugAssign):
                        if isinstance(st.target, ast.Name) and isinstance(st.op, ast.Add) and is_sstr(e2.get(st.target.id)):
                            e2[st.target.id] = s_cat(e2[st.target.id], as_sstr(v, ast.unparse(st.value)))
                        else:
                            # the new value is another hole than the old one (`size //= 2`)
                            self.bind(st.target, Unknown("name", ast.unparse(st)), e2)
                    else:
                        for tgt in st.targets if isinstance(st, ast.Assign) else [st.target]:
                            self.bind(tgt, v, e2)
                    out.append(e2)
            return out
        if isinstance(st, ast.Return):
            for env in envs:
                if st.value is not None:
                    self.record(st.value, env)
                    if rets is not None:
                        rets += self.eval(st.value, dict(env))
            return []
        if isinstance(st, (ast.Continue, ast.Break, ast.Raise)):
            return []
        if isinstance(st, ast.Expr):
            for env in envs:
                self.record(st.value, env)
                # a list that is changed in place is only followed through `append`
                c = st.value
                if isinstance(c, ast.Call) and isinstance(c.func, ast.Attribute) and isinstance(c.func.value, ast.Name) and isinstance(env.get(c.func.value.id), list):
                    nm = c.func.value.id
                    if c.func.attr == "append" and len(c.args) == 1:
                        vs = self.eval(c.args[0], dict(env))
                        env[nm] = env[nm] + [vs[0]] if len(vs) == 1 else Unknown("name", nm)
                    else:
                        env[nm] = Unknown("name", nm)
            return envs
        if isinstance(st, ast.If):
            for env in envs:
                self.record(st.test, env)
                t = self.truth(st.test, env)
                e_then, e_else = dict(env), dict(env)
                for n in ast.walk(st.test):
                    if isinstance(n, ast.NamedExpr):
                        vs = self.eval(n.value, dict(env))
                        for v in vs[:1]:
                            e_then[n.target.id] = v if len(vs) == 1 and not isinstance(v, Unknown) else Unknown("name", n.target.id)
                            e_else[n.target.id] = e_then[n.target.id]
                thens = [e_then]
                # `if found := TABLE.get(key):` — one path per row of the table
                if isinstance(st.test, ast.NamedExpr):
                    vs = [v for v in self.eval(st.test.value, dict(env)) if not isinstance(v, Unknown)]
                    if len(vs) > 1:
                        thens = [dict(e_then, **{st.test.target.id: v}) for v in vs]
                if t is not False:
                    out += self.block(st.body, thens, rets)
                if t is not True:
                    out += self.block(st.orelse, [e_else], rets)
            return out
        if isinstance(st, ast.Match):
            for env in envs:
                self.record(st.subject, env)
                for case in st.cases:
                    ce = self.pattern(case.pattern, [dict(env)])
                    if case.guard is not None:
                        ce2: list[dict[str, Any]] = []
                        for e2 in ce:
                            self.record(case.guard, e2)
                            alts = [e2]
                            for n in ast.walk(case.guard):
                                if isinstance(n, ast.NamedExpr):
                                    vs = [v for v in self.eval(n.value, dict(e2)) if not isinstance(v, Unknown)]
                                    alts = [dict(a, **{n.target.id: v}) for a in alts for v in (vs or [Unknown("name", n.target.id)])]
                            ce2 += alts
                        ce = ce2
                    out += self.block(case.body, ce, rets)
                out.append(env)
            return out
        if isinstance(st, (ast.For, ast.While)):
            for env in envs:
                starts = [dict(env)]
                if isinstance(st, ast.For):
                    self.record(st.iter, env)
                    it = self.eval(st.iter, dict(env))
                    if len(it) == 1 and isinstance(it[0], list) and it[0] and all(is_sstr(x) for x in it[0]):
                        starts = []
                        for x in it[0]:
                            e2 = dict(env)
                            self.bind(st.target, x, e2)
                            starts.append(e2)
                    else:
                        self.bind(st.target, Unknown("name", ast.unparse(st.target)), starts[0])
                else:
                    self.record(st.test, env)
                once = self.block(st.body, [dict(s) for s in starts], rets)
                twice = self.block(st.body, [dict(s) for s in once[:8]], rets) if len(starts) == 1 else []
                for e2 in once + twice:
                    # a list that grows inside a loop has no fixed shape
                    for nm, v in list(e2.items()):
                        if isinstance(v, list) and vkey(v) != vkey(env.get(nm)) and isinstance(env.get(nm), list):
                            e2[nm] = Unknown("name", nm)
                after = self._fork([env] + once + twice)
                out += after + self.block(st.orelse, [dict(a) for a in after], rets)
            return out
        if isinstance(st, (ast.With, ast.Try)):
            if isinstance(st, ast.With):
                for env in envs:
                    for item in st.items:
                        self.record(item.context_expr, env)
            envs2 = self.block(list(st.body), [dict(e) for e in envs], rets)
            if isinstance(st, ast.Try):
                for h in st.handlers:
                    envs2 += self.block(h.body, [dict(e) for e in envs], rets)
                envs2 = self.block(st.orelse + st.finalbody, envs2, rets)
            return envs2
        if isinstance(st, (ast.FunctionDef, ast.ClassDef, ast.Import, ast.ImportFrom, ast.Pass, ast.Global, ast.Nonlocal, ast.Delete)):
            return envs
        for env in envs:
            self.record(st, env)
        return envs

    def run(self) -> None:
        """entry points: every function/method that no other function of the module calls; the others are inlined
        at their call sites (with the arguments the caller passes)"""
        fns: dict[str, ast.FunctionDef] = dict(self.funcs)
        fns.update({"self." + name: fn for (_cls, name), fn in self.methods.items()})
        calls: dict[str, set[str]] = {}
        for key, fn in fns.items():
            cs: set[str] = set()
            for n in ast.walk(fn):
                if isinstance(n, ast.Call):
                    if isinstance(n.func, ast.Name) and n.func.id in self.funcs:
                        cs.add(n.func.id)
                    if isinstance(n.func, ast.Attribute) and isinstance(n.func.value, ast.Name) and n.func.value.id == "self" and "self." + n.func.attr in fns:
                        cs.add("self." + n.func.attr)
            calls[key] = cs
        self.reporting = {k for k, fn in fns.items() if any(isinstance(n, ast.Name) and n.id == "ErrorInfo" for n in ast.walk(fn))}
        while True:
            more = {k for k, cs in calls.items() if cs & self.reporting} - self.reporting
            if not more:
                break
            self.reporting |= more
        called = {c for k, cs in calls.items() for c in cs if c != k}
        for name, fn in self.funcs.items():
            if name in called or name not in self.reporting:
                continue
            self.cls = None
            self.block(fn.body, [{a.arg: Unknown("name", a.arg) for a in fn.args.args}], None)
        for (cls, name), fn in self.methods.items():
            if cls == "ErrorInfo" or "self." + name not in self.reporting or ("self." + name in called and not name.startswith("visit_")):
                continue
            self.cls = cls
            self.block(fn.body, [{a.arg: Unknown("name", a.arg) for a in fn.args.args}], None)


def hole_table(parts: SStr) -> tuple[str, list[tuple[str, str]]]:
    """message text with `{i}` for hole i (numbered by first occurrence of the same source; literal braces are not
    escaped), and the holes' kinds"""
    holes: list[tuple[str, str]] = []
    text = ""
    for p in parts:
        if p[0] == "lit":
            text += p[1]
            continue
        h = ("sfy", p[1]) if p[0] == "sfy" else ("raw:" + p[1], p[2])
        if h not in holes:
            holes.append(h)
        text += "{%d}" % holes.index(h)
    return text, holes


def numbered(parts: SStr) -> list[Any]:
    """parts with hole numbers: str (literal) | int (hole)"""
    _, holes = hole_table(parts)
    out: list[Any] = []
    for p in parts:
        if p[0] == "lit":
            out.append(p[1])
        else:
            out.append(holes.index(("sfy", p[1]) if p[0] == "sfy" else ("raw:" + p[1], p[2])))
    return out


def fragments(nparts: list[Any]) -> list[dict[str, Any]]:
    """the back-quoted fragments of a message: role (`old`: the code being replaced, `new`: the proposed code,
    `other`), and the fragment's own parts"""
    frags: list[dict[str, Any]] = []
    cur: list[Any] | None = None
    before = ""
    for p in nparts:
        if isinstance(p, int):
            if cur is not None:
                cur.append(p)
            else:
                before += "\x00"
            continue
        pieces = p.split("`")
        for i, piece in enumerate(pieces):
            if i > 0:
                if cur is None:
                    cur = []
                else:
                    b = before.rstrip().lower()
                    role = "old" if b.endswith(("replace", "instead of")) else "new" if b.endswith(("with", "use", "to")) else "other"
                    frags.append({"role": role, "parts": cur})
                    cur, before = None, ""
            if piece:
                if cur is not None:
                    cur.append(piece)
                else:
                    before += piece
    return frags


# ---- a fragment as a tree with holes


class Unmodelled(Exception):
    pass


PH = re.compile(r"__h(\d+)__")
BIN = {ast.BitOr: "bitor", ast.BitXor: "bitxor", ast.BitAnd: "bitand", ast.LShift: "lshift", ast.RShift: "rshift", ast.Add: "add", ast.Sub: "sub", ast.Mult: "mul", ast.Div: "div", ast.FloorDiv: "floordiv", ast.Mod: "mod", ast.MatMult: "matmul", ast.Pow: "pow"}
BIN_TEXT = {"or_": "or", "and_": "and", "bitor": "|", "bitxor": "^", "bitand": "&", "lshift": "<<", "rshift": ">>", "add": "+", "sub": "-", "mul": "*", "div": "/", "floordiv": "//", "mod": "%", "matmul": "@", "pow": "**"}
BIN_PREC = {"or_": 3, "and_": 4, "bitor": 7, "bitxor": 8, "bitand": 9, "lshift": 10, "rshift": 10, "add": 11, "sub": 11, "mul": 12, "div": 12, "floordiv": 12, "mod": 12, "matmul": 12, "pow": 14}
CMP = {ast.Eq: "eq", ast.NotEq: "ne", ast.Lt: "lt", ast.LtE: "le", ast.Gt: "gt", ast.GtE: "ge", ast.Is: "is_", ast.IsNot: "isNot", ast.In: "in_", ast.NotIn: "notIn"}
CMP_TEXT = {"eq": "==", "ne": "!=", "lt": "<", "le": "<=", "gt": ">", "ge": ">=", "is_": "is", "isNot": "is not", "in_": "in", "notIn": "not in"}
UN = {ast.USub: "neg", ast.UAdd: "pos", ast.Invert: "inv", ast.Not: "not_"}
UN_TEXT = {"neg": "-", "pos": "+", "inv": "~", "not_": "not"}


def to_tree(e: ast.AST) -> tuple:
    """CPython's tree of a fragment (holes are the names `__hN__`) as the model's `Node`, in the shape mypy gives it
    (`and`/`or` chains right-nested, True/False/None as names)"""
    r = to_tree
    if isinstance(e, ast.Name):
        m = PH.fullmatch(e.id)
        if m:
            return ("hole", int(m.group(1)))
        if "__h" in e.id:
            raise Unmodelled("adjacent holes")
        return ("name", e.id)
    if isinstance(e, ast.Attribute):
        if "__h" in e.attr:
            raise Unmodelled("hole as attribute name")
        return ("member", r(e.value), e.attr)
    if isinstance(e, ast.Constant):
        v = e.value
        if v is True or v is False or v is None:
            return ("name", str(v))
        if v is Ellipsis:
            return ("ellipsis",)
        if isinstance(v, int):
            return ("int", v)
        if isinstance(v, str):
            if "__h" in v:
                raise Unmodelled("hole inside a literal")
            return ("str", v)
        if isinstance(v, bytes):
            if b"__h" in v:
                raise Unmodelled("hole inside a literal")
            return ("bytes", repr(v)[2:-1])
        if isinstance(v, (float, complex)):
            return ("float" if isinstance(v, float) else "complex", str(v))
        raise Unmodelled("constant")
    if isinstance(e, ast.Dict):
        return ("dict", [(None if k is None else r(k), r(v)) for k, v in zip(e.keys, e.values)])
    if isinstance(e, (ast.Tuple, ast.List, ast.Set)):
        return ({ast.Tuple: "tuple", ast.List: "list", ast.Set: "set"}[type(e)], [r(x) for x in e.elts])
    if isinstance(e, ast.Call):
        args = [("star", "", r(a.value)) if isinstance(a, ast.Starred) else ("pos", "", r(a)) for a in e.args]
        for kw in e.keywords:
            if kw.arg is not None and "__h" in kw.arg:
                raise Unmodelled("hole as keyword name")
            args.append(("star2", "", r(kw.value)) if kw.arg is None else ("named", kw.arg, r(kw.value)))
        return ("call", r(e.func), args)
    if isinstance(e, ast.Subscript):
        return ("index", r(e.value), r(e.slice))
    if isinstance(e, ast.Slice):
        o = lambda x: None if x is None else r(x)  # noqa: E731
        return ("slice", o(e.lower), o(e.upper), o(e.step))
    if isinstance(e, ast.BinOp):
        return ("op", BIN[type(e.op)], r(e.left), r(e.right))
    if isinstance(e, ast.BoolOp):
        op = "and_" if isinstance(e.op, ast.And) else "or_"
        vals = [r(v) for v in e.values]
        acc = vals[-1]
        for v in reversed(vals[:-1]):
            acc = ("op", op, v, acc)
        return acc
    if isinstance(e, ast.Compare):
        return ("cmp", r(e.left), [(CMP[type(o)], r(c)) for o, c in zip(e.ops, e.comparators)])
    if isinstance(e, ast.UnaryOp):
        return ("unary", UN[type(e.op)], r(e.operand))
    if isinstance(e, ast.Lambda):
        a = e.args
        if a.posonlyargs or a.defaults or a.vararg or a.kwonlyargs or a.kwarg:
            raise Unmodelled("lambda parameters")
        return ("lambda", [p.arg for p in a.args], r(e.body))
    if isinstance(e, ast.IfExp):
        return ("cond", r(e.body), r(e.test), r(e.orelse))
    if isinstance(e, ast.Await):
        return ("await", r(e.value))
    if isinstance(e, ast.NamedExpr):
        return ("walrus", r(e.target), r(e.value))
    if isinstance(e, ast.Starred):
        return ("star", r(e.value))
    if isinstance(e, ast.JoinedStr):
        parts: list[tuple] = []
        for p in e.values:
            if isinstance(p, ast.Constant):
                if "__h" in p.value:
                    raise Unmodelled("hole inside a literal")
                parts.append(("str", p.value))
            else:
                assert isinstance(p, ast.FormattedValue)
                spec = ""
                if p.format_spec is not None:
                    vals = p.format_spec.values  # type: ignore[attr-defined]
                    if len(vals) != 1 or not isinstance(vals[0], ast.Constant):
                        raise Unmodelled("nested format spec")
                    spec = vals[0].value
                    if "__h" in spec:
                        raise Unmodelled("hole inside a format spec")
                parts.append(("ffield", r(p.value), None if p.conversion < 0 else chr(p.conversion), spec))
        if not any(p[0] == "ffield" for p in parts):
            return ("str", "".join(p[1] for p in parts))
        return ("fstr", parts)
    raise Unmodelled(type(e).__name__)


def lchar(c: str) -> str:
    if c == "'":
        return "'\\''"
    if c == "\\":
        return "'\\\\'"
    if c == "\n":
        return "'\\n'"
    if c == "\t":
        return "'\\t'"
    if c == "\r":
        return "'\\r'"
    if 32 <= ord(c) < 127 or ord(c) > 160:
        return "'" + c + "'"
    return "(Char.ofNat %d)" % ord(c)


def lchars(s: str) -> str:
    """a `List Char` literal (the kernel evaluates `String.toList` of a fresh literal very slowly: never emit one)"""
    return "[" + ",".join(lchar(c) for c in s) + "]"


def lopt(x: str | None) -> str:
    return "none" if x is None else f"(some {x})"


def lean_node(t: tuple | None) -> str:
    """the tree as a Lean term of type `Node`"""
    n = lean_node
    k = t[0]  # type: ignore[index]
    if k == "hole":
        return f"(.other {t[1]})"
    if k in ("name", "float", "complex", "str", "bytes"):
        return f"(.{k} {lchars(t[1])})"
    if k == "int":
        return f"(.int {t[1]})"
    if k == "ellipsis":
        return ".ellipsis"
    if k == "member":
        return f"(.member {n(t[1])} {lchars(t[2])})"
    if k == "dict":
        return "(.dict [%s])" % ", ".join(f"({lopt(None if a is None else n(a))}, {n(b)})" for a, b in t[1])
    if k in ("tuple", "list", "set"):
        return "(.%s [%s])" % (k, ", ".join(n(x) for x in t[1]))
    if k == "call":
        return "(.call %s [%s])" % (n(t[1]), ", ".join(f"(.{kk}, {lchars(nm)}, {n(a)})" for kk, nm, a in t[2]))
    if k == "index":
        return f"(.index {n(t[1])} {n(t[2])})"
    if k == "slice":
        return "(.slice %s %s %s)" % tuple(lopt(None if x is None else n(x)) for x in t[1:])
    if k == "op":
        return f"(.op .{t[1]} {n(t[2])} {n(t[3])})"
    if k == "cmp":
        return "(.cmp %s [%s])" % (n(t[1]), ", ".join(f"(.{o}, {n(x)})" for o, x in t[2]))
    if k == "unary":
        return f"(.unary .{t[1]} {n(t[2])})"
    if k == "lambda":
        return "(.lambda [%s] (some %s))" % (", ".join(f"({lchars(p)}, .pos)" for p in t[1]), n(t[2]))
    if k == "cond":
        return f"(.cond {n(t[1])} {n(t[2])} {n(t[3])})"
    if k == "await":
        return f"(.await {n(t[1])})"
    if k == "walrus":
        return f"(.walrus {n(t[1])} {n(t[2])})"
    if k == "star":
        return f"(.star {n(t[1])})"
    if k == "fstr":
        return "(.fstr [%s])" % ", ".join(n(x) for x in t[1])
    if k == "ffield":
        return "(.ffield %s %s %s)" % (n(t[1]), "none" if t[2] is None else "(some '%s')" % t[2], lchars(t[3]))
    raise Unmodelled(k)


def prec(t: tuple) -> int:
    k = t[0]
    if k == "walrus":
        return 0
    if k == "lambda":
        return 1
    if k == "cond":
        return 2
    if k == "op":
        return BIN_PREC[t[1]]
    if k == "unary":
        return 5 if t[1] == "not_" else 13
    if k == "cmp":
        return 6
    if k == "await":
        return 15
    if k in ("member", "call", "index"):
        return 16
    if k in ("star", "slice", "ffield"):
        return 0
    return 17


def strlit(v: str) -> str:
    return '"' + repr(v)[1:-1].replace('"', '\\"') + '"'


def pr(t: tuple) -> str:
    """twin of the Lean reference printer `pr` followed by `render` (holes print as `{i}`); used only to tell whether
    the fragment's text IS the reference text of its tree — Lean re-checks that (`gen_text_exact`)"""

    def w(level: int, x: tuple) -> str:
        s = pr(x)
        return "(" + s + ")" if prec(x) < level else s

    def opt(x: tuple | None) -> str:
        return "" if x is None else w(1, x)

    k = t[0]
    if k == "hole":
        return "{%d}" % t[1]
    if k in ("name", "float", "complex"):
        return t[1]
    if k == "int":
        return str(t[1])
    if k == "str":
        return strlit(t[1])
    if k == "bytes":
        return 'b"' + t[1].replace('"', '\\"') + '"'
    if k == "ellipsis":
        return "..."
    if k == "member":
        return ("(" + pr(t[1]) + ")" if t[1][0] == "int" else w(16, t[1])) + "." + t[2]
    if k == "dict":
        return "{" + ", ".join(("**" + w(7, b)) if a is None else (w(1, a) + ": " + w(1, b)) for a, b in t[1]) + "}"
    if k == "tuple":
        return "(" + ", ".join(w(0, x) for x in t[1]) + ("," if len(t[1]) == 1 else "") + ")"
    if k == "list":
        return "[" + ", ".join(w(0, x) for x in t[1]) + "]"
    if k == "set":
        return "{" + ", ".join(w(0, x) for x in t[1]) + "}"
    if k == "call":
        args = []
        for kk, nm, a in t[2]:
            args.append({"named": nm + "=" + w(1, a), "star": "*" + w(1, a), "star2": "**" + w(1, a)}.get(kk) if kk != "pos" else w(0, a))
        return w(16, t[1]) + "(" + ", ".join(args) + ")"
    if k == "index":
        i = t[2]
        if i[0] == "tuple":
            body = ", ".join(w(0, x) for x in i[1]) + ("," if len(i[1]) == 1 else "")
            idx = body if any(x[0] == "slice" for x in i[1]) else "(" + body + ")"
        else:
            idx = pr(i)
        return w(16, t[1]) + "[" + idx + "]"
    if k == "slice":
        return opt(t[1]) + ":" + opt(t[2]) + ("" if t[3] is None else ":" + w(1, t[3]))
    if k == "op":
        o = t[1]
        lhs = {"or_": 4, "and_": 5, "pow": 15}.get(o, BIN_PREC[o])
        rhs = {"or_": 3, "and_": 4, "pow": 13}.get(o, BIN_PREC[o] + 1)
        return w(lhs, t[2]) + " " + BIN_TEXT[o] + " " + w(rhs, t[3])
    if k == "cmp":
        return w(7, t[1]) + "".join(" " + CMP_TEXT[o] + " " + w(7, x) for o, x in t[2])
    if k == "unary":
        return UN_TEXT[t[1]] + (" " if t[1] == "not_" else "") + w(5 if t[1] == "not_" else 13, t[2])
    if k == "lambda":
        return "lambda" + ((" " + ", ".join(t[1])) if t[1] else "") + ": " + w(1, t[2])
    if k == "cond":
        return w(3, t[1]) + " if " + w(3, t[2]) + " else " + w(1, t[3])
    if k == "await":
        return "await " + w(16, t[1])
    if k == "walrus":
        return pr(t[1]) + " := " + w(1, t[2])
    if k == "star":
        return "*" + w(7, t[1])
    if k == "fstr":
        out = 'f"'
        for p in t[1]:
            if p[0] == "str":
                body = repr(p[1])[1:-1].replace('"', '\\"')
                out += body.replace("{", "{{").replace("}", "}}") if ("{" in p[1] or "}" in p[1]) else body
            else:
                out += pr(p)
        return out + '"'
    if k == "ffield":
        inner = w(3, t[1])
        spec = t[3]
        return "{" + (" " if inner.startswith("{") and t[1][0] != "hole" else "") + inner + ("" if t[2] is None else "!" + t[2]) + ("" if not spec else ":" + (spec if all(32 <= ord(c) < 127 and c not in "\\\"'{}" for c in spec) else repr(spec)[1:-1].replace('"', '\\"'))) + "}"
    raise Unmodelled(k)


def is_target(t: tuple) -> bool:
    return t[0] in ("hole", "name", "member", "index") or (t[0] in ("tuple", "list") and bool(t[1]) and all(is_target(x) for x in t[1]))


def analyse_fragment(parts: list[Any], code: str = "") -> dict[str, Any]:
    """text (holes as `{i}`), form, and the tree(s) of a fragment.

    form: `expr` | `assign` (`target = value`) | `for` (`for target in iterable`, a clause) | `in` / `notin` (the tail
    `in <expr>` of a comparison) | `unmodelled:<why>` (Python accepts it, the model's `Node` has no such shape) |
    `unparsed` (neither an expression nor statements nor one of the clause forms)"""
    text = "".join("{%d}" % p if isinstance(p, int) else p for p in parts)
    src = "".join("__h%d__" % p if isinstance(p, int) else p for p in parts)
    out: dict[str, Any] = {"text": text, "form": "unparsed", "tree": None, "target": None, "exact": False}
    if re.search(r"[A-Za-z0-9_]__h\d+__|__h\d+__[A-Za-z0-9_]", src):
        out["form"] = "unmodelled:hole joined to a name"
        return out

    def attempt(code: str, mode: str) -> Any:
        import warnings

        try:
            with warnings.catch_warnings():
                warnings.simplefilter("ignore")
                return ast.parse(code, mode=mode).body
        except (SyntaxError, ValueError, RecursionError):
            return None

    try:
        if code == "FURB119" and src.startswith("{") and src.endswith("}") and attempt("f\'\'\'" + src + "\'\'\'", "eval") is not None:
            out["form"] = "unmodelled:f-string field"  # this check quotes replacement fields, not displays
            return out
        body = attempt(src, "eval")
        if body is not None:
            tree = to_tree(body)
            out.update(form="expr", tree=tree, exact=(pr(tree) if prec(tree) >= 1 else "(" + pr(tree) + ")") == text)
            return out
        stmts = attempt(src, "exec")
        if stmts is not None:
            if len(stmts) == 1 and isinstance(stmts[0], ast.Assign) and len(stmts[0].targets) == 1:
                tgt, val = to_tree(stmts[0].targets[0]), to_tree(stmts[0].value)
                if is_target(tgt):
                    out.update(form="assign", tree=val, target=tgt, exact=pr(tgt) + " = " + (pr(val) if prec(val) >= 1 else "(" + pr(val) + ")") == text)
                    return out
            out["form"] = "unmodelled:statements"
            return out
        if src.startswith("for ") and not src.rstrip().endswith(":"):
            stmts = attempt(src + ": pass", "exec")
            if stmts is not None and len(stmts) == 1 and isinstance(stmts[0], ast.For):
                tgt, it = to_tree(stmts[0].target), to_tree(stmts[0].iter)
                if is_target(tgt):
                    out.update(form="for", tree=it, target=tgt, exact="for " + pr(tgt) + " in " + (pr(it) if prec(it) >= 1 else "(" + pr(it) + ")") == text)
                    return out
        for kw, form in (("in ", "in"), ("not in ", "notin")):
            if src.startswith(kw):
                body = attempt("_ " + src, "eval")
                if isinstance(body, ast.Compare) and len(body.ops) == 1:
                    tree = to_tree(body)
                    out.update(form=form, tree=tree, exact=pr(tree) == "_ " + text)
                    return out
        for wrap, form in (
            (lambda s: s[1:] if s.startswith("@") else None, "unmodelled:decorator"),
            (lambda s: s + " pass" if s.startswith("class ") and s.endswith(":") else None, "unmodelled:class header"),
            (lambda s: "match _:\n " + s if s.startswith("case ") else None, "unmodelled:case clause"),
            (lambda s: "if _:\n pass\n" + s if s.startswith("else:") else None, "unmodelled:else clause"),
            (lambda s: "match _:\n case " + s + ": pass" if re.match(r"^[A-Za-z_][\w.]*\(.*\) as \w+$", s) else None, "unmodelled:pattern"),
            (lambda s: "_(" + s + ")" if re.match(r"^\w+=", s) else None, "unmodelled:keyword argument"),
            (lambda s: "f\'\'\'" + s + "\'\'\'" if s.startswith("{") and s.endswith("}") else None, "unmodelled:f-string field"),
            (lambda s: re.sub(r" (except\b|finally:|else:)", r"\n\1", s) if s.startswith(("try:", "with ")) else None, "unmodelled:statements"),
            (lambda s: "(" + s + ")" if " for " in s else None, "unmodelled:GeneratorExp"),
        ):
            code = wrap(src)
            if code is not None and (attempt(code, "exec") is not None):
                out["form"] = form
                return out
        # schematic fragments: `...` standing for a comprehension variable or clause
        code = src.replace("for ... in", "for _w_ in")
        if code != src and (attempt(code, "eval") is not None or attempt("(" + code + ")", "eval") is not None):
            out["form"] = "unmodelled:schematic comprehension"
            return out
        # `...` standing for further names / clauses of a statement (`global x, y, ...`)
        code = re.sub(r"\.\.\.", "_w_", src)
        if code != src and (attempt(code, "eval") is not None or attempt(code, "exec") is not None):
            out["form"] = "unmodelled:schematic"
            return out
    except Unmodelled as ex:
        out.update(form="unmodelled:" + str(ex), tree=None, target=None)
        return out
    return out


def position(tree: tuple, hole: int, path: str = "top") -> list[str]:
    """where hole `hole` sits (read off the parsed fragment): e.g. `receiver of .copy`, `operand of not`"""
    k = tree[0]
    if k == "hole":
        return [path] if tree[1] == hole else []
    kids: list[tuple[str, tuple]] = []
    if k == "member":
        kids = [("receiver of ." + tree[2], tree[1])]
    elif k == "dict":
        for a, b in tree[1]:
            kids += ([("dict key", a)] if a is not None else []) + [("dict value" if a is not None else "operand of **", b)]
    elif k in ("tuple", "list", "set"):
        kids = [(k + " item", x) for x in tree[1]]
    elif k == "call":
        kids = [("callee", tree[1])] + [({"pos": "argument", "named": "value of " + nm + "=", "star": "operand of *", "star2": "operand of **"}[kk], a) for kk, nm, a in tree[2]]
    elif k == "index":
        kids = [("subscript base", tree[1]), ("subscript", tree[2])]
    elif k == "slice":
        kids = [("slice bound", x) for x in tree[1:] if x is not None]
    elif k == "op":
        kids = [("left of " + BIN_TEXT[tree[1]], tree[2]), ("right of " + BIN_TEXT[tree[1]], tree[3])]
    elif k == "cmp":
        kids = [("left of " + CMP_TEXT[tree[2][0][0]], tree[1])] + [("right of " + CMP_TEXT[o], x) for o, x in tree[2]]
    elif k == "unary":
        kids = [("operand of " + UN_TEXT[tree[1]], tree[2])]
    elif k == "lambda":
        kids = [("lambda body", tree[2])]
    elif k == "cond":
        kids = [("value of if-else", tree[1]), ("condition of if-else", tree[2]), ("else value", tree[3])]
    elif k == "await":
        kids = [("operand of await", tree[1])]
    elif k == "walrus":
        kids = [("value of :=", tree[2])]
    elif k == "star":
        kids = [("operand of *", tree[1])]
    elif k == "fstr":
        kids = [("f-string", x) for x in tree[1]]
    elif k == "ffield":
        kids = [("f-string field", tree[1])]
    out: list[str] = []
    for p, x in kids:
        out += position(x, hole, p)
    return out


def scan_source(src: str, relpath: str) -> dict[str, Any] | None:
    tree = ast.parse(src)
    sc = Scanner(tree, relpath)
    if sc.code is None:
        return None
    sc.run()
    msgs: list[dict[str, Any]] = []
    seen: set[str] = set()
    for line in sorted(sc.sites):
        for parts in sorted(sc.sites[line], key=lambda p: (hole_table(p)[0], repr(hole_table(p)[1]))):
            text, holes = hole_table(parts)
            k = text + repr([h[0] for h in holes])
            if k in seen:
                continue
            seen.add(k)
            nparts = numbered(parts)
            frags = []
            for fr in fragments(nparts):
                a = analyse_fragment(fr["parts"], sc.code)
                used = sorted({p for p in fr["parts"] if isinstance(p, int)})
                a.update(role=fr["role"], holes=used, positions={})
                for t_ in (a["target"], a["tree"]):
                    if t_ is not None:
                        for h in used:
                            ps = position(t_, h, "target" if t_ is a["target"] and a["target"] is not None else "top")
                            if ps:
                                a["positions"].setdefault(h, [])
                                a["positions"][h] += ps
                frags.append(a)
            msgs.append({"line": line, "text": text, "parts": nparts, "holes": [list(h) for h in holes], "fragments": frags})
    return {"code": sc.code, "file": relpath, "messages": msgs}


def scan_checks() -> list[dict[str, Any]]:
    """every message of every check of the current source tree"""
    out = []
    root = core.REPO / "refurb" / "checks"
    for f in sorted(root.rglob("*.py")):
        if f.name == "__init__.py":
            continue
        r = scan_source(f.read_text(), str(f.relative_to(core.REPO)))
        if r is not None:
            out.append(r)
    out.sort(key=lambda r: (re.sub(r"\d+", "", r["code"]), int(re.sub(r"\D", "", r["code"]) or 0)))
    return out


def all_checks() -> list[dict[str, Any]]:
    """`scan_checks()`, memoised on the content of the check sources and of this extractor"""
    from pathlib import Path

    own = extract.sha(Path(__file__).read_text())
    for stale in (core.VERIF / ".cache").glob("c02-templates-*.json"):
        if not stale.name.startswith(f"c02-templates-{own}-"):
            stale.unlink(missing_ok=True)
    return core.cached_json(f"c02-templates-{own}", ["refurb/checks/**/*.py"], scan_checks)


FORMS = {"expr": ".expr", "assign": ".assign", "for": ".forIn", "in": ".inTail", "notin": ".notInTail", "unparsed": ".unparsed"}


def _frag_row(msg: dict[str, Any], mi: int, fr: dict[str, Any]) -> str:
    kinds = {i: msg["holes"][i][0] for i in fr["holes"]}
    pos = {int(h): ps for h, ps in fr["positions"].items()}
    note = fr["form"] + "".join("; {%d} %s%s" % (i, k, (" @ " + ", ".join(pos[i])) if i in pos else "") for i, k in sorted(kinds.items()))
    return "    ⟨%d, .%s, %s, %s, %s, %s, %s, %s,\n      %s⟩  -- %s" % (
        mi,
        fr["role"],
        FORMS.get(fr["form"], ".unmodelled"),
        extract.lbool(fr["exact"]),
        extract.llist(["(%d, %s)" % (i, extract.lbool(k == "sfy")) for i, k in sorted(kinds.items())]),
        lopt(None if fr["target"] is None else lean_node(fr["target"])),
        lopt(None if fr["tree"] is None else lean_node(fr["tree"])),
        lchars(fr["text"]),
        extract.lstr(note),
        fr["text"].replace("\n", "\\n"),
    )


@extract.register("Templates")
def gen_templates() -> str:
    checks = all_checks()
    blocks: list[str] = []
    for c in checks:
        rows: list[str] = []
        for mi, m in enumerate(c["messages"]):
            for fr in m["fragments"]:
                rows.append(_frag_row(m, mi, fr))
        # the comment of a row must not swallow the separator: put the comma on the next line
        body = "\n    ,\n".join(rows)
        blocks.append("  ⟨%d, %s, %s, %d, [\n%s\n  ]⟩" % (int(re.sub(r"\D", "", c["code"]) or 0), extract.lstr(c["code"]), extract.lstr(c["file"]), len(c["messages"]), body))
    return (
        extract.HEADER
        + "import RefurbVerif.Lemmas.Templates\n\nnamespace RefurbVerif.Generated\nopen RefurbVerif.Sfy RefurbVerif.C02\n\n"
        + LEAN_TYPES
        + "def genTable : List GenCheck := [\n" + "\n  ,\n".join(blocks) + "\n]\n"
        + LEAN_SUMMARY
        + "\nend RefurbVerif.Generated\n"
    )


LEAN_TYPES = """/-- what a fragment is in its message: the code to be replaced, the proposed code, or something else quoted -/
inductive Role where
  | old | new | other
  deriving DecidableEq, Repr

/-- how a fragment parses with names in its holes (CPython's parser): an expression; `target = value`;
    `for target in iterable` (a clause); `in operand` / `not in operand` (the tail of a comparison); `unmodelled`:
    Python accepts it (as statements, a decorator, a generator expression, with a hole inside a name or a literal …)
    but the model's `Node` has no tree for it; `unparsed`: none of these -/
inductive Form where
  | expr | assign | forIn | inTail | notInTail | unmodelled | unparsed
  deriving DecidableEq, Repr

/-- One back-quoted fragment of one message a check can build (harness/extract_c02.py reads the messages off the
    check's source). `msg`: index of the message within its check; `holes`: hole number and whether it is filled by
    `stringify(…)` (else: by something else — a name from a table, `node.name`, `str(node)`, a joined list);
    `shape`/`target`: the fragment's tree(s) with holes `.other i`; `text`: the fragment, `{i}` where hole `i` is;
    `exact`: the harness claims `text` is the reference text of the tree (re-checked in Lean); `note`: for the reader
    (form detail, what fills each hole and where it sits) -/
structure GenFrag where
  msg : Nat
  role : Role
  form : Form
  exact : Bool
  holes : List (Nat × Bool)
  target : Option Node
  shape : Option Node
  text : List Char
  note : String
  deriving Repr

/-- the messages of one check: numeric code, name, source file, number of distinct messages, their fragments -/
structure GenCheck where
  code : Nat
  name : String
  file : String
  messages : Nat
  frags : List GenFrag
  deriving Repr

"""

LEAN_SUMMARY = """
/-- the fragment a row stands for (`none`: a form the model has no tree for) -/
def GenFrag.frag (g : GenFrag) : Option Frag :=
  match g.form, g.target, g.shape with
  | .expr, _, some s => some (.expr s)
  | .assign, some t, some s => some (.assign t s)
  | .forIn, some t, some s => some (.forIn t s)
  | .inTail, _, some (.cmp _ [(.in_, e)]) => some (.inTail false e)
  | .notInTail, _, some (.cmp _ [(.notIn, e)]) => some (.inTail true e)
  | _, _, _ => none

/-- what the holes of a row demand of the text put into them (`reqs` of Model/Stringify.lean through its executable
    twin: the level of the hole's position, not-a-bare-integer before `.attr`, no leading brace in an f-string field) -/
def GenFrag.reqs (g : GenFrag) : Option (List Req) := g.frag.map reqsF2

/-- the class of a fragment: role, form, and per hole occurrence (filled by `stringify`?, level, notInt, noBrace);
    level 99 = the position is not modelled -/
abbrev FragClass := Role × Form × List (Bool × Nat × Bool × Bool)

def GenFrag.sfy (g : GenFrag) (i : Nat) : Bool := (g.holes.lookup i).getD false

def GenFrag.cls (g : GenFrag) : FragClass :=
  (g.role, g.form,
    match g.reqs with
    | some rs => rs.map (fun r => (g.sfy r.hole, r.level, r.notInt, r.noBrace))
    | none => g.holes.map (fun h => (h.2, 99, false, false)))

/-- per check: code, number of distinct messages and the distinct classes of its fragments, in order of appearance -/
def genSummary : List (Nat × Nat × List FragClass) :=
  genTable.map (fun c => (c.code, c.messages, (c.frags.map GenFrag.cls).eraseDups))

/-! comparison with the committed template tables (`templates` of the model, `templatesMore`) -/

/-- built only from literal chunks and quoted fragments: every hole is filled by `stringify(…)` -/
def closed (g : GenFrag) : Bool := g.holes.all (fun h => h.2)

/-- the expression the committed table would list for a row of the regenerated one: the shape itself (not when it
    is a bare hole: the whole quoted node); for a loop head the iterable; for `in …` the comparison `_ in …` -/
def comparableShape (g : GenFrag) : Option Node :=
  match g.form, g.shape with
  | .expr, some (.other _) => none
  | .expr, some s => some s
  | .forIn, some (.other _) => none
  | .forIn, some s => some s
  | .inTail, some s => some s
  | .notInTail, some s => some s
  | _, _ => none

/-- `FURB145` ↦ 145 -/
def codeOf (s : String) : Nat := (s.toList.filter Char.isDigit).foldl (fun n c => 10 * n + (c.toNat - 48)) 0

def roleOf (s : String) : Role := if s == "old" then .old else if s == "new" then .new else .other

/-- the committed templates of one check: role and canonical form (text and hole demands up to hole numbering) -/
def committedOf (code : Nat) : List (Role × (Toks × List Req)) :=
  (committed.filter (fun t => codeOf t.check == code)).map (fun t => (roleOf t.role, canonForm2 t.shape))

/-- every regenerated fragment of a (check, role) the committed tables know is one of the committed templates: same
    text, same demands on the holes (up to the numbering of the holes) … -/
def genInCommitted : Bool :=
  genTable.all (fun c =>
    let cs := committedOf c.code
    c.frags.all (fun g => !cs.any (fun t => t.1 == g.role) ||
      match comparableShape g with
      | some s => cs.any (fun t => t.1 == g.role && decide (t.2 = canonForm2 s))
      | none => true))

/-- … and every committed template is still built by its check: some regenerated fragment of that (check, role) has
    that text and those demands, or is a fragment the source builds in a way the table cannot show (a bare hole, a
    form without tree, a fragment with a hole that is not filled by `stringify`, e.g. a joined list of arguments) -/
def committedInGen : Bool :=
  genTable.all (fun c =>
    (committedOf c.code).all (fun t => c.frags.any (fun g => g.role == t.1 &&
      match comparableShape g with
      | some s => decide (t.2 = canonForm2 s) || !closed g
      | none => true)))

/-- every check of the committed tables is a check of the source -/
def committedChecksExist : Bool :=
  committed.all (fun t => genTable.any (fun c => c.code == codeOf t.check))
"""


if __name__ == "__main__":
    import json

    for r in scan_checks():
        print(r["code"], r["file"])
        for m in r["messages"]:
            print("   ", m["line"], json.dumps(m["text"], ensure_ascii=False), [h[0] for h in m["holes"]])
            for fr in m["fragments"]:
                print("        ", fr["role"], json.dumps(fr["text"]), fr["form"], "exact" if fr["exact"] else "", fr["positions"] or "")
