/- JSON glue shared by the driver verbs (no proofs here). -/
import Lean.Data.Json
open Lean

namespace RefurbVerif.Wire

def str (j : Json) (k : String) : String := (j.getObjValAs? String k).toOption.getD ""
def nat (j : Json) (k : String) : Nat := (j.getObjValAs? Nat k).toOption.getD 0
def int (j : Json) (k : String) : Int := (j.getObjValAs? Int k).toOption.getD 0
def bool (j : Json) (k : String) : Bool := (j.getObjValAs? Bool k).toOption.getD false
def arr (j : Json) (k : String) : List Json :=
  match j.getObjVal? k with
  | .ok (.arr a) => a.toList
  | _ => []
def strs (j : Json) (k : String) : List String :=
  (arr j k).filterMap (fun x => x.getStr?.toOption)
def obj (j : Json) (k : String) : Json := (j.getObjVal? k).toOption.getD Json.null
def optStr (j : Json) (k : String) : Option String :=
  match j.getObjVal? k with
  | .ok (.str s) => some s
  | _ => none

def optJ {α} (f : α → Json) : Option α → Json
  | some a => f a
  | none => Json.null

end RefurbVerif.Wire
