import RefurbVerif.Wire.Basic
import RefurbVerif.Wire.Settings
import RefurbVerif.Model.Loader
open Lean

namespace RefurbVerif.Wire
open RefurbVerif.Loader

namespace LoaderW

def toAtom (j : Json) : Atom :=
  match str j "a" with
  | "empty" => .empty
  | "node" => .node (str j "n")
  | "settings" => .settings
  | "listError" => .listError
  | "cls" => .cls (str j "n")
  | "unhashable" => .unhashable (str j "n") (str j "r")
  | _ => .opaque (str j "r")

def toAnn (j : Json) : Ann :=
  match j.getObjVal? "u" with
  | .ok (.arr a) => .union (a.toList.map toAtom) (str j "r")
  | _ => .one (toAtom j)

def toPKind (s : String) : PKind :=
  match s with
  | "posDefault" => .posDefault
  | "varPos" => .varPos
  | "kwOnly" => .kwOnly
  | "kwOnlyDefault" => .kwOnlyDefault
  | "varKw" => .varKw
  | _ => .pos

def toSig (j : Json) : Sig :=
  { callable := bool j "callable"
    params := (arr j "params").map (fun p => { name := str p "name", ann := toAnn (obj p "ann"), kind := toPKind (str p "kind") })
    ret := bool j "ret" }

def toLeaf (j : Json) : Leaf :=
  { errs := (arr j "errs").map (fun e =>
      { attr := str e "attr", clsName := str e "cls", subclass := bool e "sub", sel := toCheckSel (obj e "sel") })
    check := match j.getObjVal? "check" with
      | .ok (.obj _) => some (toSig (obj j "check"))
      | _ => none
    file := str j "file"
    line := nat j "line" }

instance : Inhabited Forest := ⟨.nil⟩

partial def toForest : List Json → Forest
  | [] => .nil
  | m :: rest =>
    if str m "k" == "pkg" then .pkg (str m "name") (toForest (arr m "kids")) (toForest rest)
    else .leaf (str m "name") (toLeaf m) (toForest rest)

def toPath (s : String) : ModPath := s.splitOn "."
def pathJ (p : ModPath) : Json := Json.str (".".intercalate p)

def loadErrJ (f : Forest) : LoadErr → Json
  | .importError t => Json.mkObj [("r", "importError"), ("text", importText f t)]
  | .typeError loc reason => Json.mkObj [("r", "typeError"), ("located", loc.isSome),
      ("text", (LoadErr.typeError loc reason).text), ("reason", reason)]
  | .crash exc => Json.mkObj [("r", "crash"), ("exc", exc)]

def reportJ (r : Report) : Json :=
  Json.mkObj [("stdout", optJ Json.str r.stdoutLine), ("traceback", r.traceback), ("exit", r.exit)]

def tableJ (t : Dispatch) : Json := Json.arr (t.map (fun x => Json.arr #[Json.str x.1, pathJ x.2])).toArray
def callJ (c : Call) : Json := Json.arr #[pathJ c.check, c.node, c.nargs]

def modulesJ (f : Forest) (b : ModPath) (targets : List ModPath) : Json :=
  let r := getModules f b targets
  Json.mkObj [("out", Json.arr (r.1.map pathJ).toArray), ("err", optJ (loadErrJ f) r.2)]

def sigJ (file : String) (line : Nat) (sig : Sig) : Json :=
  let res := match validSignature file line sig with
    | .ok tys => Json.mkObj [("r", "ok"), ("types", toJson tys)]
    | .error e => loadErrJ .nil e
  Json.mkObj [("res", res), ("annotations", toJson sig.annotations),
    ("arity", runCheckArity sig), ("old_arity", arityByAnnotations sig.annotations), ("binds", sig.binds (runCheckArity sig))]

def loadJ (f : Forest) (b : ModPath) (targets : List ModPath) (s : Settings) (nodes : List String) : Json :=
  match loadChecks f b targets s with
  | .error e => Json.mkObj [("r", "error"), ("err", loadErrJ f e), ("report", reportJ (reportOf f e))]
  | .ok t =>
    let run := match runFile f t nodes with
      | .ok calls => Json.mkObj [("r", "ok"), ("calls", Json.arr (calls.map callJ).toArray)]
      | .error e => Json.mkObj [("r", "error"), ("err", loadErrJ f e), ("report", reportJ (reportOf f e))]
    Json.mkObj [("r", "ok"), ("table", tableJ t), ("run", run)]

end LoaderW
open LoaderW

/-- verbs: get_modules, valid_signature, load_checks, loader_batch (one forest, many cases) -/
def handleLoader (verb : String) (j : Json) : Option Json :=
  match verb with
  | "get_modules" =>
    some (modulesJ (toForest (arr j "forest")) (toPath (str j "builtin")) ((strs j "targets").map toPath))
  | "valid_signature" => some (sigJ (str j "file") (nat j "line") (toSig (obj j "sig")))
  | "valid_signatures" =>
    some (Json.arr ((arr j "items").map (fun i => sigJ (str i "file") (nat i "line") (toSig (obj i "sig")))).toArray)
  | "load_checks" =>
    some (loadJ (toForest (arr j "forest")) (toPath (str j "builtin")) ((strs j "targets").map toPath)
      (toSettings (obj j "settings")) (strs j "nodes"))
  | "loader_batch" =>
    let f := toForest (arr j "forest")
    let b := toPath (str j "builtin")
    some (Json.arr ((arr j "cases").map (fun c =>
      let ts := (strs c "targets").map toPath
      match c.getObjVal? "settings" with
      | .ok (.obj _) => Json.mkObj [("modules", modulesJ f b ts),
          ("load", loadJ f b ts (toSettings (obj c "settings")) (strs c "nodes"))]
      | _ => Json.mkObj [("modules", modulesJ f b ts)])).toArray)
  | _ => none

end RefurbVerif.Wire
