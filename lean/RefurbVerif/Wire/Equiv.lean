import RefurbVerif.Wire.Basic
import RefurbVerif.Model.Equiv
import RefurbVerif.Generated.EquivCfg
open Lean

namespace RefurbVerif.Wire

namespace EquivW
open RefurbVerif.Equiv

/-- text: a JSON string, or an array of code points (lone surrogates and astral characters travel as numbers) -/
def txt (j : Json) : Equiv.Str :=
  match j with
  | .str s => s.toList
  | .arr a => a.toList.map (fun x => Char.ofNat ((x.getNat?).toOption.getD 0))
  | _ => []

def field (j : Json) (k : String) : Json := (j.getObjVal? k).toOption.getD Json.null

def optTxt (j : Json) : Option Equiv.Str :=
  match j with
  | .null => none
  | x => some (txt x)

def litKind (s : String) : LitKind :=
  match s with
  | "int" => .int
  | "str" => .str
  | "bytes" => .bytes
  | "float" => .float
  | "complex" => .complex
  | _ => .ellipsis

def seqKind (s : String) : SeqKind :=
  match s with
  | "list" => .list
  | "tuple" => .tuple
  | _ => .set

instance : Inhabited Expr := ⟨.lit .ellipsis []⟩
instance : Inhabited Exprs := ⟨.nil⟩
instance : Inhabited Args := ⟨.nil⟩
instance : Inhabited Items := ⟨.nil⟩
instance : Inhabited Rest := ⟨.nil⟩
instance : Inhabited OExpr := ⟨.none⟩

mutual
partial def toExpr (j : Json) : Expr :=
  match str j "t" with
  | "name" => .name (txt (field j "n")) (optTxt (field j "f"))
  | "member" => .member (toExpr (field j "e")) (txt (field j "n")) (optTxt (field j "f"))
  | "index" => .index (toExpr (field j "b")) (toExpr (field j "i"))
  | "call" => .call (toExpr (field j "c")) (toArgs (arr j "args"))
  | "seq" => .seq (seqKind (str j "k")) (toExprs (arr j "items"))
  | "dict" => .dict (toItems (arr j "items"))
  | "star" => .star (toExpr (field j "e"))
  | "unary" => .unary (txt (field j "op")) (toExpr (field j "e"))
  | "op" => .op (txt (field j "op")) (toExpr (field j "l")) (toExpr (field j "r"))
  | "cmp" => .cmp (toExpr (field j "first")) (toRest (arr j "rest"))
  | "slice" => .slice (toO (field j "b")) (toO (field j "e")) (toO (field j "s"))
  | "lit" => .lit (litKind (str j "k")) (txt (field j "v"))
  | _ => .other (txt (field j "kind")) (txt (field j "sc")) (txt (field j "syn"))
partial def toExprs : List Json → Exprs
  | [] => .nil
  | x :: t => .cons (toExpr x) (toExprs t)
partial def toArgs : List Json → Args
  | [] => .nil
  | x :: t =>
    match x with
    | .arr #[e, k, n] => .cons (toExpr e) ((k.getNat?).toOption.getD 0) (optTxt n) (toArgs t)
    | _ => toArgs t
partial def toItems : List Json → Items
  | [] => .nil
  | x :: t =>
    match x with
    | .arr #[k, v] => .cons (toO k) (toExpr v) (toItems t)
    | _ => toItems t
partial def toRest : List Json → Rest
  | [] => .nil
  | x :: t =>
    match x with
    | .arr #[o, e] => .cons (txt o) (toExpr e) (toRest t)
    | _ => toRest t
partial def toO (j : Json) : OExpr :=
  match j with
  | .null => .none
  | x => .some (toExpr x)
end

def cps (l : Equiv.Str) : Json := Json.arr (l.map (fun c => (c.toNat : Json))).toArray

end EquivW

open EquivW in
/-- driver verbs of C06 -/
def handleEquiv (verb : String) (j : Json) : Option Json :=
  match verb with
  | "equiv" =>
    let a := toO (field j "a")
    let b := toO (field j "b")
    let syn : Json := match a, b with
      | .some x, .some y => Equiv.synEqB x y
      | _, _ => Json.null
    some (Json.mkObj [("eq", Equiv.isEquivO Generated.equivCfg a b), ("syn", syn)])
  | "equiv_common" =>
    some (match Equiv.commonPositions Generated.equivCfg ((arr j "exprs").map toExpr) with
      | none => Json.null
      | some (i, k) => Json.arr #[i, k])
  | "equiv_unmangle" => some (cps (Equiv.unmangle (optTxt (field j "s"))))
  | "equiv_litrepr" => some (cps (Equiv.litRepr (litKind (str j "k")) (txt (field j "v"))))
  | _ => none

end RefurbVerif.Wire
