/-
C12 — per-path (amend) ignores cover exactly the files under that path.

Everything is stated over `Model/Paths.lean`.  The file system enters in two ways:
  * the general theorems (`amend_iff_under_path`, `others_unaffected_*`, `always_verdict`, …) hold
    for an ARBITRARY resolver `R : PPath → Option (List String)` — nothing is assumed about the
    operating system, symlinks or the working directory;
  * the theorems about the concrete `resolve fs fuel cwd` (cwd-independence, fuel monotonicity, no
    ".." in results, idempotence, the symlink-free closed form) hold for every finite symlink map
    `fs`; what is assumed there and not proved is that `walk` is what `os.path.realpath` does (that
    is the correspondence run of harness/props/c12.py against real directory trees).
All statements quantify over unbounded component lists / entry lists.

Known imprecision of the model (stated, not hidden): when a path runs THROUGH a symlink loop and then
leaves it again lexically (`loop/../src`), CPython's `realpath(strict=False)` gives up, normalises the
rest lexically and `Path.resolve()` may succeed; the model (like the kernel) reports the loop (`none`).
A path that ENDS inside a loop (`loop`, `loop/x`) raises in both.  The correspondence run counts these
cases separately (`resolve-loop-then-lexical-recovery`).
-/
import RefurbVerif.Model.Paths
import RefurbVerif.Props.C09

namespace RefurbVerif.C12
open RefurbVerif.Paths

/-! ### `is_relative_to` is a component-wise prefix test -/

/-- `p.is_relative_to(q)` holds exactly when `q`'s components are an initial segment of `p`'s. -/
theorem relative_iff_component_prefix (p q : List String) : isRelativeTo p q = true ↔ q <+: p := by
  simp [isRelativeTo]

/-- …i.e. `p` is `q` followed by further components ("at or below"). -/
theorem relative_iff_exists_rest (p q : List String) : isRelativeTo p q = true ↔ ∃ rest, p = q ++ rest := by
  rw [relative_iff_component_prefix]
  exact ⟨fun ⟨r, h⟩ => ⟨r, h.symm⟩, fun ⟨r, h⟩ => ⟨r, h.symm⟩⟩

/-- a path is at-or-below itself: an entry naming a file covers that file -/
theorem relative_refl (p : List String) : isRelativeTo p p = true := by
  simp [isRelativeTo]

/-- below a directory that is itself below `r` means below `r` -/
theorem relative_trans (p q r : List String) (h1 : isRelativeTo p q = true) (h2 : isRelativeTo q r = true) :
    isRelativeTo p r = true := by
  rw [relative_iff_component_prefix] at *
  exact List.IsPrefix.trans h2 h1

/-- **Siblings sharing a string prefix never match** (`src` vs `src2`, `src_old`): a file below
    `d/c'` is not relative to `d/c` unless the two components are the same string, however similar
    they look. -/
theorem sibling_prefix_never_matches (d r : List String) (c c' : String) (h : c ≠ c') :
    isRelativeTo (d ++ c' :: r) (d ++ [c]) = false := by
  rw [Bool.eq_false_iff]
  intro hp
  rw [relative_iff_component_prefix, List.prefix_append_right_inj] at hp
  obtain ⟨t, ht⟩ := hp
  simp at ht
  exact h ht.1

/-- the only way to be relative to `d/c` is to have `c` itself as the next component -/
theorem relative_to_child_iff (d p : List String) (c : String) :
    isRelativeTo p (d ++ [c]) = true ↔ ∃ r, p = d ++ c :: r := by
  rw [relative_iff_exists_rest]
  constructor
  · rintro ⟨r, rfl⟩; exact ⟨r, by simp⟩
  · rintro ⟨r, rfl⟩; exact ⟨r, by simp⟩

/-! ### The verdict of `is_ignored_via_amend`, for an arbitrary resolver -/

/-- the entry lists the diagnostic: same `str(ErrorCode)`, or one of the error's categories -/
def Names (c : Cls) (d : AmendDiag) : Prop :=
  match c with
  | .code p i => codeStr p i = codeStr d.pfx d.code
  | .cat n => n ∈ d.categories

/-- entry `e` has a path, that path (taken relative to `root`, the directory of the config file)
    resolves, and the resolved file lies at or below it, component by component -/
def Covers (R : Resolver) (root : PPath) (file : List String) (e : Clsf) : Prop :=
  ∃ q ip, e.path = some q ∧ R (root.join (parsePath q)) = some ip ∧ ip <+: file

/-- (helper) the Boolean test of the model is the proposition `Names` -/
theorem clsNames_iff (c : Cls) (d : AmendDiag) : clsNames c d = true ↔ Names c d := by
  cases c <;> simp [clsNames, Names]

/-- (helper) the loop body adds the entry iff it covers the file and lists the diagnostic -/
theorem entryHits_iff (R : Resolver) (root : PPath) (file : List String) (d : AmendDiag) (e : Clsf) :
    entryHits R root file d e = true ↔ Covers R root file e ∧ Names e.cls d := by
  unfold entryHits entryPath Covers
  cases h : e.path with
  | none => simp
  | some q =>
    cases h2 : R (root.join (parsePath q)) with
    | none => simp [h2]
    | some ip => simp [h2, relative_iff_component_prefix, clsNames_iff]

/-- **A verdict is always delivered** (since fix 5e5fe5a): whatever the amend tables contain —
    symlink loops, NUL characters, paths that do not exist — every diagnostic of a file that can be
    resolved itself is either silenced or kept; the entries cannot make the filter raise. -/
theorem always_verdict (R : Resolver) (s : Settings) (d : AmendDiag) (file : List String)
    (hf : R (parsePath d.file) = some file) : ∃ b, ignoredViaAmend R s d = some b := by
  unfold ignoredViaAmend
  rw [hf]
  exact ⟨_, rfl⟩

/-- the only way for the filter to raise is that the linted file's own path cannot be resolved
    (impossible for a file mypy has just read) -/
theorem amend_crashes_iff (R : Resolver) (s : Settings) (d : AmendDiag) :
    ignoredViaAmend R s d = none ↔ R (parsePath d.file) = none := by
  unfold ignoredViaAmend
  cases h : R (parsePath d.file) <;> simp

/-- **The property, as an equivalence.**  A diagnostic is silenced by the amend tables iff there is an
    entry that (1) carries a path, (2) whose path — joined onto the directory of the config file in
    use and resolved — is a component-wise prefix of the resolved file, and (3) which lists the
    diagnostic's code or one of its categories. -/
theorem amend_iff_under_path (R : Resolver) (s : Settings) (d : AmendDiag) :
    ignoredViaAmend R s d = some true ↔
      ∃ file, R (parsePath d.file) = some file ∧
        ∃ e ∈ s.ignore, Covers R (configRoot s.configFile) file e ∧ Names e.cls d := by
  unfold ignoredViaAmend
  cases hf : R (parsePath d.file) with
  | none => simp
  | some file =>
    simp only [Option.some.injEq, List.any_eq_true, entryHits_iff]
    constructor
    · rintro ⟨e, he, hx⟩; exact ⟨file, rfl, e, he, hx⟩
    · rintro ⟨file', hf', e, he, hx⟩; cases hf'; exact ⟨e, he, hx⟩

/-- **…and the diagnostic is kept** iff the file resolves and no entry both covers the file and lists
    the code/category. -/
theorem amend_kept_iff (R : Resolver) (s : Settings) (d : AmendDiag) :
    ignoredViaAmend R s d = some false ↔
      ∃ file, R (parsePath d.file) = some file ∧
        ∀ e ∈ s.ignore, ¬ (Covers R (configRoot s.configFile) file e ∧ Names e.cls d) := by
  unfold ignoredViaAmend
  cases hf : R (parsePath d.file) with
  | none => simp
  | some file =>
    simp only [Option.some.injEq, List.any_eq_false, entryHits_iff]
    constructor
    · intro h; exact ⟨file, rfl, fun e he => by simpa using h e he⟩
    · rintro ⟨file', hf', h⟩; cases hf'; intro e he; simpa using h e he

/-! ### Files elsewhere and other codes are unaffected -/

/-- **Other files are unaffected.**  If no path-scoped entry resolves to a component-wise prefix of the
    resolved file, the diagnostic is kept — whatever the entries list. -/
theorem others_unaffected_elsewhere (R : Resolver) (s : Settings) (d : AmendDiag) (file : List String)
    (hf : R (parsePath d.file) = some file)
    (h : ∀ e ∈ s.ignore, ∀ q ip, e.path = some q →
      R ((configRoot s.configFile).join (parsePath q)) = some ip → ¬ ip <+: file) :
    ignoredViaAmend R s d = some false := by
  rw [amend_kept_iff]
  refine ⟨file, hf, ?_⟩
  intro e he ⟨⟨q, ip, hq, hip, hpre⟩, _⟩
  exact h e he q ip hq hip hpre

/-- **Other codes are unaffected.**  If no path-scoped entry lists the diagnostic's code or one of
    its categories, the diagnostic is kept wherever the file is. -/
theorem others_unaffected_unlisted (R : Resolver) (s : Settings) (d : AmendDiag) (file : List String)
    (hf : R (parsePath d.file) = some file)
    (h : ∀ e ∈ s.ignore, e.path ≠ none → ¬ Names e.cls d) :
    ignoredViaAmend R s d = some false := by
  rw [amend_kept_iff]
  refine ⟨file, hf, ?_⟩
  intro e he ⟨⟨q, _, hq, _, _⟩, hn⟩
  exact h e he (by rw [hq]; simp) hn

/-- entries without a path (plain `ignore = [...]` / `--ignore`) play no role in this filter -/
theorem pathless_irrelevant (R : Resolver) (s : Settings) (d : AmendDiag) (e : Clsf) (hp : e.path = none) :
    ignoredViaAmend R { s with ignore := e :: s.ignore } d = ignoredViaAmend R s d := by
  unfold ignoredViaAmend
  have h2 : ∀ file, entryHits R (configRoot s.configFile) file d e = false := by
    intro file; simp [entryHits, entryPath, hp]
  cases R (parsePath d.file) with
  | none => rfl
  | some file => simp [List.any_cons, h2]

/-- **An entry whose path cannot be resolved covers nothing**: it can be deleted from the tables
    without changing any verdict (a symlink loop contains no files). -/
theorem unresolvable_entry_covers_nothing (R : Resolver) (s : Settings) (d : AmendDiag) (e : Clsf) (q : String)
    (hp : e.path = some q) (hr : R ((configRoot s.configFile).join (parsePath q)) = none) :
    ignoredViaAmend R { s with ignore := e :: s.ignore } d = ignoredViaAmend R s d := by
  unfold ignoredViaAmend
  have h2 : ∀ file, entryHits R (configRoot s.configFile) file d e = false := by
    intro file; simp [entryHits, entryPath, hp, hr]
  cases R (parsePath d.file) with
  | none => rfl
  | some file => simp [List.any_cons, h2]

/-- the verdict does not depend on the order (or multiplicity) of the entries: `ignore` is a set -/
theorem order_irrelevant (R : Resolver) (s : Settings) (d : AmendDiag) (l : List Clsf)
    (h : ∀ e, e ∈ l ↔ e ∈ s.ignore) :
    ignoredViaAmend R { s with ignore := l } d = ignoredViaAmend R s d := by
  unfold ignoredViaAmend
  have h1 : ∀ f : Clsf → Bool, l.any f = s.ignore.any f := by
    intro f
    rw [Bool.eq_iff_iff]
    simp only [List.any_eq_true]
    exact ⟨fun ⟨e, he, hx⟩ => ⟨e, (h e).mp he, hx⟩, fun ⟨e, he, hx⟩ => ⟨e, (h e).mpr he, hx⟩⟩
  simp only [h1]

/-! ### Monotonicity -/

/-- adding an entry never un-silences a diagnostic -/
theorem more_entries_mono (R : Resolver) (s : Settings) (d : AmendDiag) (e : Clsf)
    (h : ignoredViaAmend R s d = some true) :
    ignoredViaAmend R { s with ignore := e :: s.ignore } d = some true := by
  rw [amend_iff_under_path] at h ⊢
  obtain ⟨file, hf, e', he', hx⟩ := h
  exact ⟨file, hf, e', List.mem_cons_of_mem _ he', hx⟩

/-- "at or below": if an entry covers a file, it covers everything whose resolved path extends it -/
theorem covers_below (R : Resolver) (root : PPath) (file rest : List String) (e : Clsf)
    (h : Covers R root file e) : Covers R root (file ++ rest) e := by
  obtain ⟨q, ip, hq, hip, hpre⟩ := h
  exact ⟨q, ip, hq, hip, List.IsPrefix.trans hpre (List.prefix_append _ _)⟩

/-- an entry for an ancestor directory covers whatever an entry for a descendant covers -/
theorem ancestor_covers (R : Resolver) (root : PPath) (file : List String) (e e' : Clsf) (q' : String)
    (ip ip' : List String) (h : Covers R root file e)
    (hq : ∃ q, e.path = some q ∧ R (root.join (parsePath q)) = some ip)
    (hq' : e'.path = some q') (hip' : R (root.join (parsePath q')) = some ip') (hanc : ip' <+: ip) :
    Covers R root file e' := by
  obtain ⟨q, ip0, hq0, hip0, hpre⟩ := h
  obtain ⟨q1, hq1, hip1⟩ := hq
  rw [hq0] at hq1; cases hq1
  rw [hip0] at hip1; cases hip1
  exact ⟨q', ip', hq', hip', List.IsPrefix.trans hanc hpre⟩

/-! ### The verdict only depends on how the file and the entry paths resolve -/

/-- (helper) `any` only looks at the members of the list -/
theorem any_congr_mem {α} (l : List α) (f g : α → Bool) (h : ∀ x ∈ l, f x = g x) : l.any f = l.any g := by
  rw [Bool.eq_iff_iff]
  simp only [List.any_eq_true]
  exact ⟨fun ⟨x, hx, hf⟩ => ⟨x, hx, (h x hx) ▸ hf⟩, fun ⟨x, hx, hg⟩ => ⟨x, hx, (h x hx).symm ▸ hg⟩⟩

/-- two environments that resolve the file and every entry path alike give the same verdict -/
theorem amend_congr (R R' : Resolver) (s : Settings) (d : AmendDiag)
    (hf : R (parsePath d.file) = R' (parsePath d.file))
    (he : ∀ e ∈ s.ignore, ∀ q, e.path = some q →
      R ((configRoot s.configFile).join (parsePath q)) = R' ((configRoot s.configFile).join (parsePath q))) :
    ignoredViaAmend R s d = ignoredViaAmend R' s d := by
  unfold ignoredViaAmend
  rw [hf]
  have hpath : ∀ e ∈ s.ignore, entryPath R (configRoot s.configFile) e = entryPath R' (configRoot s.configFile) e := by
    intro e hm
    unfold entryPath
    cases hq : e.path with
    | none => rfl
    | some q => simp [he e hm q hq]
  have h2 : ∀ file, s.ignore.any (entryHits R (configRoot s.configFile) file d) = s.ignore.any (entryHits R' (configRoot s.configFile) file d) := by
    intro file
    apply any_congr_mem
    intro e hm; simp only [entryHits, hpath e hm]
  cases R' (parsePath d.file) with
  | none => rfl
  | some file => simp only [h2]

/-! ### The root is the directory of the config file, not the working directory -/

/-- (helper) `a / b` is absolute as soon as one operand is -/
theorem join_abs (a b : PPath) (h : a.abs = true ∨ b.abs = true) : (a.join b).abs = true := by
  unfold PPath.join
  split
  · assumption
  · rcases h with h | h
    · exact h
    · contradiction

/-- an absolute `--config-file` gives an absolute root -/
theorem configRoot_abs (cfg : String) (h : (parsePath cfg).abs = true) : (configRoot (some cfg)).abs = true := by
  have hne : cfg ≠ "" := by
    intro he; subst he; simp [parsePath] at h
  simp only [configRoot, if_neg hne, PPath.parent]
  exact h

/-- resolving an absolute path never consults the working directory -/
theorem resolve_abs_indep (fs : Links) (fuel : Nat) (cwd cwd' : List String) (p : PPath) (h : p.abs = true) :
    resolve fs fuel cwd p = resolve fs fuel cwd' p := by
  simp [resolve, h]

/-- **Entries are anchored at the config file's directory.**  With an absolute `--config-file`, what
    an entry's path resolves to is the same from every working directory. -/
theorem entry_root_is_config_dir (fs : Links) (fuel : Nat) (cwd cwd' : List String) (cfg q : String)
    (h : (parsePath cfg).abs = true) :
    resolve fs fuel cwd ((configRoot (some cfg)).join (parsePath q))
      = resolve fs fuel cwd' ((configRoot (some cfg)).join (parsePath q)) :=
  resolve_abs_indep fs fuel cwd cwd' _ (join_abs _ _ (Or.inl (configRoot_abs cfg h)))

/-- **The verdict is invariant under a change of working directory** when the config file and the
    linted file are named by absolute paths — the working directory is not an input of the rule. -/
theorem root_is_config_dir (fs : Links) (fuel : Nat) (cwd cwd' : List String) (s : Settings) (d : AmendDiag)
    (cfg : String) (hc : s.configFile = some cfg) (hcabs : (parsePath cfg).abs = true)
    (hf : (parsePath d.file).abs = true) :
    ignoredViaAmend (resolve fs fuel cwd) s d = ignoredViaAmend (resolve fs fuel cwd') s d := by
  apply amend_congr
  · exact resolve_abs_indep fs fuel cwd cwd' _ hf
  · intro e _ q _
    rw [hc]
    exact entry_root_is_config_dir fs fuel cwd cwd' cfg q hcabs

/-- the same for the resolver with Python's extra failure mode (a NUL inside a component) -/
theorem root_is_config_dir_py (fs : Links) (fuel : Nat) (cwd cwd' : List String) (s : Settings) (d : AmendDiag)
    (cfg : String) (hc : s.configFile = some cfg) (hcabs : (parsePath cfg).abs = true)
    (hf : (parsePath d.file).abs = true) :
    ignoredViaAmend (resolvePy fs fuel cwd) s d = ignoredViaAmend (resolvePy fs fuel cwd') s d := by
  apply amend_congr
  · simp only [resolvePy, resolve_abs_indep fs fuel cwd cwd' _ hf]
  · intro e _ q _
    rw [hc]
    simp only [resolvePy, entry_root_is_config_dir fs fuel cwd cwd' cfg q hcabs]

/-- an absolute entry path ignores the config root altogether -/
theorem absolute_entry_ignores_root (root root' : PPath) (q : String) (h : (parsePath q).abs = true) :
    root.join (parsePath q) = root'.join (parsePath q) := by
  simp [PPath.join, h]

/-- without `--config-file` (the default `pyproject.toml` of the working directory) the root is the
    working directory itself -/
theorem default_root_is_cwd (fs : Links) (fuel : Nat) (cwd : List String) (q : PPath) (h : q.abs = false) :
    resolve fs fuel cwd ((configRoot none).join q) = walk fs fuel cwd q.parts := by
  simp [configRoot, PPath.cur, PPath.join, h, resolve]

/-! ### Facts about `resolve` (for every finite symlink map) -/

/-- (helper) nothing left to do: the resolved prefix is the answer, whatever the fuel -/
theorem walk_nil (fs : Links) (n : Nat) (cur : List String) : walk fs n cur [] = some cur := by
  cases n <;> simp [walk]

/-- more fuel never changes a result: "enough fuel" is well defined -/
theorem walk_fuel_succ (fs : Links) : ∀ (n : Nat) (cur todo r : List String),
    walk fs n cur todo = some r → walk fs (n + 1) cur todo = some r := by
  intro n
  induction n with
  | zero =>
    intro cur todo r h
    cases todo with
    | nil => simpa [walk] using h
    | cons c rest => simp [walk] at h
  | succ m ih =>
    intro cur todo r h
    cases todo with
    | nil => simpa [walk] using h
    | cons c rest =>
      rw [walk] at h ⊢
      split
      · rename_i hc; rw [if_pos hc] at h; exact ih _ _ _ h
      · rename_i hc
        rw [if_neg hc] at h
        cases hl : List.lookup (cur ++ [c]) fs with
        | none => rw [hl] at h; exact ih _ _ _ h
        | some t => rw [hl] at h; exact ih _ _ _ h

/-- a result obtained with fuel `n` is obtained with any larger fuel -/
theorem walk_fuel_mono (fs : Links) (n m : Nat) (cur todo r : List String) (hnm : n ≤ m)
    (h : walk fs n cur todo = some r) : walk fs m cur todo = some r := by
  induction hnm with
  | refl => exact h
  | step _ ih => exact walk_fuel_succ fs _ _ _ _ ih

/-- the same for `resolve`: the fuel parameter only has to be large enough -/
theorem resolve_fuel_mono (fs : Links) (n m : Nat) (cwd : List String) (p : PPath) (r : List String)
    (hnm : n ≤ m) (h : resolve fs n cwd p = some r) : resolve fs m cwd p = some r :=
  walk_fuel_mono fs n m _ _ r hnm h

/-- a resolved path contains no ".." component (so comparing components is comparing directories) -/
theorem walk_no_dotdot (fs : Links) : ∀ (n : Nat) (cur todo r : List String),
    ".." ∉ cur → walk fs n cur todo = some r → ".." ∉ r := by
  intro n
  induction n with
  | zero =>
    intro cur todo r hc h
    cases todo with
    | nil => simp [walk] at h; rw [← h]; exact hc
    | cons c rest => simp [walk] at h
  | succ m ih =>
    intro cur todo r hc h
    cases todo with
    | nil => simp [walk] at h; rw [← h]; exact hc
    | cons c rest =>
      rw [walk] at h
      split at h
      · exact ih _ _ _ (fun hm => hc (List.dropLast_subset _ hm)) h
      · rename_i hne
        cases hl : List.lookup (cur ++ [c]) fs with
        | none =>
          rw [hl] at h
          refine ih _ _ _ ?_ h
          simp only [List.mem_append, List.mem_singleton, not_or]
          exact ⟨hc, fun he => hne he.symm⟩
        | some t =>
          rw [hl] at h
          refine ih _ _ _ ?_ h
          split
          · simp
          · exact hc

/-- `Path.resolve()` results never contain ".." (given a ".."-free working directory) -/
theorem resolve_no_dotdot (fs : Links) (n : Nat) (cwd : List String) (p : PPath) (r : List String)
    (hcwd : ".." ∉ cwd) (h : resolve fs n cwd p = some r) : ".." ∉ r := by
  refine walk_no_dotdot fs n _ _ r ?_ h
  split
  · simp
  · exact hcwd

/-- no non-empty initial segment of `p` is a symlink: `p` is a physical path -/
def Phys (fs : Links) (p : List String) : Prop := ∀ pre, pre <+: p → pre ≠ [] → fs.lookup pre = none

/-- (helper) "/" is physical -/
theorem phys_nil (fs : Links) : Phys fs [] := by
  intro pre hp hne
  exact absurd (List.prefix_nil.mp hp) hne

/-- a resolved path is physical (given a physical working directory) -/
theorem walk_phys (fs : Links) : ∀ (n : Nat) (cur todo r : List String),
    Phys fs cur → walk fs n cur todo = some r → Phys fs r := by
  intro n
  induction n with
  | zero =>
    intro cur todo r hc h
    cases todo with
    | nil => simp [walk] at h; rw [← h]; exact hc
    | cons c rest => simp [walk] at h
  | succ m ih =>
    intro cur todo r hc h
    cases todo with
    | nil => simp [walk] at h; rw [← h]; exact hc
    | cons c rest =>
      rw [walk] at h
      split at h
      · refine ih _ _ _ ?_ h
        intro pre hp hne
        exact hc pre (List.IsPrefix.trans hp (List.dropLast_prefix _)) hne
      · cases hl : List.lookup (cur ++ [c]) fs with
        | none =>
          rw [hl] at h
          refine ih _ _ _ ?_ h
          intro pre hp hne
          rcases List.prefix_concat_iff.mp hp with heq | hp'
          · rw [heq]; exact hl
          · exact hc pre hp' hne
        | some t =>
          rw [hl] at h
          refine ih _ _ _ ?_ h
          split
          · exact phys_nil fs
          · exact hc

/-- on a physical, ".."-free path the walk changes nothing -/
theorem walk_fixed (fs : Links) : ∀ (todo cur : List String) (n : Nat),
    Phys fs (cur ++ todo) → ".." ∉ todo → todo.length ≤ n → walk fs n cur todo = some (cur ++ todo) := by
  intro todo
  induction todo with
  | nil => intro cur n _ _ _; simp [walk_nil]
  | cons c rest ih =>
    intro cur n hp hd hn
    cases n with
    | zero => simp at hn
    | succ m =>
      have hc : c ≠ ".." := fun h => hd (by simp [h])
      have hl : List.lookup (cur ++ [c]) fs = none :=
        hp (cur ++ [c]) ⟨rest, by simp⟩ (by simp)
      rw [walk, if_neg hc, hl]
      have := ih (cur ++ [c]) m (by simpa using hp) (fun h => hd (List.mem_cons_of_mem _ h))
        (by simp at hn; omega)
      simpa using this

/-- **`resolve` is idempotent**: its result is a canonical name — resolving it again (from any
    working directory) gives it back.  Two spellings of one directory therefore compare equal. -/
theorem resolve_idempotent (fs : Links) (n m : Nat) (cwd cwd' : List String) (p : PPath) (r : List String)
    (hphys : Phys fs cwd) (hdd : ".." ∉ cwd) (h : resolve fs n cwd p = some r) (hm : r.length ≤ m) :
    resolve fs m cwd' { abs := true, parts := r } = some r := by
  have h1 : Phys fs r := by
    refine walk_phys fs n _ _ r ?_ h
    split
    · exact phys_nil fs
    · exact hphys
  have h2 := resolve_no_dotdot fs n cwd p r hdd h
  have := walk_fixed fs r [] m (by simpa using h1) h2 hm
  simpa [resolve] using this

/-- one lexical step: ".." drops the last component (a no-op at "/"), anything else is appended -/
def lexStep (cur : List String) (c : String) : List String := if c = ".." then cur.dropLast else cur ++ [c]

/-- **Without symlinks `resolve` is lexical normalisation.** -/
theorem walk_nolinks : ∀ (todo cur : List String) (n : Nat), todo.length ≤ n →
    walk [] n cur todo = some (todo.foldl lexStep cur) := by
  intro todo
  induction todo with
  | nil => intro cur n _; simp [walk_nil]
  | cons c rest ih =>
    intro cur n hn
    cases n with
    | zero => simp at hn
    | succ m =>
      rw [walk]
      simp only [List.lookup, List.foldl_cons, lexStep]
      split
      · exact ih _ m (by simp at hn; omega)
      · exact ih _ m (by simp at hn; omega)

/-- (helper) without ".." lexical normalisation just appends -/
theorem foldl_lexStep_plain : ∀ (todo cur : List String), ".." ∉ todo → todo.foldl lexStep cur = cur ++ todo := by
  intro todo
  induction todo with
  | nil => intro cur _; simp
  | cons c rest ih =>
    intro cur h
    have hc : c ≠ ".." := fun he => h (by simp [he])
    simp only [List.foldl_cons, lexStep, if_neg hc]
    rw [ih _ (fun hm => h (List.mem_cons_of_mem _ hm))]
    simp

/-- in a symlink-free tree a relative path without ".." resolves to `cwd ++ parts` -/
theorem resolve_plain (cwd : List String) (p : PPath) (n : Nat) (hrel : p.abs = false)
    (hd : ".." ∉ p.parts) (hn : p.parts.length ≤ n) : resolve [] n cwd p = some (cwd ++ p.parts) := by
  simp only [resolve, hrel]
  rw [walk_nolinks _ _ _ hn, foldl_lexStep_plain _ _ hd]
  rfl

/-- `x/..` cancels when `x` is not a symlink … -/
theorem dotdot_cancels_plain (fs : Links) (n : Nat) (cur rest : List String) (c : String)
    (hc : c ≠ "..") (hl : fs.lookup (cur ++ [c]) = none) :
    walk fs (n + 2) cur (c :: ".." :: rest) = walk fs n cur rest := by
  rw [walk, if_neg hc, hl, walk, if_pos rfl]
  simp

/-- … but after a symlink `..` is the parent of the link's TARGET (as the kernel does it), not of the link -/
theorem dotdot_after_link (fs : Links) (n : Nat) (cur rest : List String) (c : String) (t : PPath)
    (hc : c ≠ "..") (hl : fs.lookup (cur ++ [c]) = some t) :
    walk fs (n + 1) cur (c :: ".." :: rest) = walk fs n (if t.abs then [] else cur) (t.parts ++ ".." :: rest) := by
  rw [walk, if_neg hc, hl]

/-- **The everyday case, spelled out.**  No symlinks, config file `cdir/<name>` given absolutely,
    relative ".."-free entry paths and file name: a diagnostic is silenced iff some entry lists its
    code/category and `cdir ++ entry components` is an initial segment of `cwd ++ file components`.
    The working directory enters only through the (relative) file name. -/
theorem plain_layout_iff (cwd cdir fparts : List String) (name cfg : String) (n : Nat) (s : Settings) (d : AmendDiag)
    (hcfg : s.configFile = some cfg) (hcp : parsePath cfg = { abs := true, parts := cdir ++ [name] })
    (hcd : ".." ∉ cdir)
    (hfile : parsePath d.file = { abs := false, parts := fparts }) (hfd : ".." ∉ fparts) (hfn : fparts.length ≤ n)
    (hent : ∀ e ∈ s.ignore, ∀ q, e.path = some q → (parsePath q).abs = false ∧ ".." ∉ (parsePath q).parts ∧
      cdir.length + (parsePath q).parts.length ≤ n) :
    ignoredViaAmend (resolve [] n cwd) s d = some true ↔
      ∃ e ∈ s.ignore, ∃ q, e.path = some q ∧ cdir ++ (parsePath q).parts <+: cwd ++ fparts ∧ Names e.cls d := by
  have hne : cfg ≠ "" := by
    intro he; subst he; simp [parsePath] at hcp
  have hroot : configRoot s.configFile = { abs := true, parts := cdir } := by
    rw [hcfg]; simp [configRoot, hne, hcp, PPath.parent]
  have hfres : resolve [] n cwd (parsePath d.file) = some (cwd ++ fparts) := by
    rw [hfile]; exact resolve_plain cwd _ n rfl hfd hfn
  have heres : ∀ e ∈ s.ignore, ∀ q, e.path = some q →
      resolve [] n cwd ((configRoot s.configFile).join (parsePath q)) = some (cdir ++ (parsePath q).parts) := by
    intro e he q hq
    obtain ⟨hrel, hdd, hlen⟩ := hent e he q hq
    have hj : ({ abs := true, parts := cdir } : PPath).join (parsePath q)
        = { abs := true, parts := cdir ++ (parsePath q).parts } := by simp [PPath.join, hrel]
    rw [hroot, hj]
    show walk [] n [] (cdir ++ (parsePath q).parts) = _
    rw [walk_nolinks _ _ _ (by rw [List.length_append]; exact hlen), foldl_lexStep_plain _ _ (by
      simp only [List.mem_append, not_or]; exact ⟨hcd, hdd⟩)]
    rfl
  rw [amend_iff_under_path]
  constructor
  · rintro ⟨file, hf, e, he, ⟨q, ip, hq, hip, hpre⟩, hn⟩
    rw [hfres] at hf; cases hf
    rw [heres e he q hq] at hip; cases hip
    exact ⟨e, he, q, hq, hpre, hn⟩
  · rintro ⟨e, he, q, hq, hpre, hn⟩
    exact ⟨cwd ++ fparts, hfres, e, he, ⟨q, _, hq, heres e he q hq, hpre⟩, hn⟩

/-! ### Spelling of a path does not matter: `./`, `//`, trailing `/`, `/./` -/

/-- (helper) `str.split` never returns an empty list -/
theorem splitSlash_ne_nil (cs : List Char) : splitSlash cs ≠ [] := by
  cases cs with
  | nil => simp [splitSlash]
  | cons c cs =>
    simp only [splitSlash]
    split
    · simp
    · split <;> simp

/-- splitting distributes over a "/" : `(a + "/" + b).split("/") = a.split("/") + b.split("/")` -/
theorem splitSlash_append_slash (a b : List Char) : splitSlash (a ++ '/' :: b) = splitSlash a ++ splitSlash b := by
  induction a with
  | nil => simp [splitSlash]
  | cons c a ih =>
    simp only [List.cons_append, splitSlash]
    split
    · simp [ih]
    · rw [ih]
      cases h : splitSlash a with
      | nil => exact absurd h (splitSlash_ne_nil a)
      | cons x t => simp

/-- **Joining with "/" is concatenating components**: `Path(a + "/" + b).parts = Path(a).parts + Path(b).parts` -/
theorem parts_join_slash (a b : List Char) : partsOfChars (a ++ '/' :: b) = partsOfChars a ++ partsOfChars b := by
  simp [partsOfChars, splitSlash_append_slash]

/-- a trailing slash changes nothing (`src/` = `src`) -/
theorem parts_trailing_slash (a : List Char) : partsOfChars (a ++ ['/']) = partsOfChars a := by
  rw [parts_join_slash]; simp [partsOfChars, splitSlash, keepPart]

/-- a leading `./` changes nothing -/
theorem parts_dot_slash (a : List Char) : partsOfChars ('.' :: '/' :: a) = partsOfChars a := by
  have := parts_join_slash ['.'] a
  simp only [List.cons_append, List.nil_append] at this
  rw [this]; simp [partsOfChars, splitSlash, keepPart]

/-- a doubled slash changes nothing (`a//b` = `a/b`) -/
theorem parts_double_slash (a b : List Char) : partsOfChars (a ++ '/' :: '/' :: b) = partsOfChars (a ++ '/' :: b) := by
  rw [parts_join_slash, parts_join_slash]
  have := parts_join_slash [] b
  simp only [List.nil_append] at this
  rw [this]; simp [partsOfChars, splitSlash, keepPart]

/-- an inner `/./` changes nothing -/
theorem parts_dot_segment (a b : List Char) : partsOfChars (a ++ '/' :: '.' :: '/' :: b) = partsOfChars (a ++ '/' :: b) := by
  rw [parts_join_slash, parts_join_slash, parts_dot_slash]

/-- every component `Path(s)` yields is non-empty and not "." (but may be "..") -/
theorem parts_clean (cs : List Char) (c : String) (h : c ∈ partsOfChars cs) : c ≠ "" ∧ c ≠ "." := by
  simp only [partsOfChars, List.mem_map, List.mem_filter, keepPart, Bool.and_eq_true, bne_iff_ne] at h
  obtain ⟨x, ⟨_, hx1, hx2⟩, rfl⟩ := h
  constructor
  · intro he
    have := congrArg String.toList he
    simp at this; exact hx1 this
  · intro he
    have := congrArg String.toList he
    simp at this; exact hx2 this

/-! ### Codes are compared by their text -/

/-- (helper) letters-then-digits splits uniquely -/
theorem append_digits_inj : ∀ (l1 l2 d1 d2 : List Char),
    (∀ c ∈ l1, c.isDigit = false) → (∀ c ∈ l2, c.isDigit = false) →
    (∀ c ∈ d1, c.isDigit = true) → (∀ c ∈ d2, c.isDigit = true) →
    l1 ++ d1 = l2 ++ d2 → l1 = l2 ∧ d1 = d2 := by
  intro l1
  induction l1 with
  | nil =>
    intro l2 d1 d2 _ h2 hd1 _ h
    cases l2 with
    | nil => exact ⟨rfl, by simpa using h⟩
    | cons b l2 =>
      simp only [List.nil_append, List.cons_append] at h
      have hb : b ∈ d1 := by rw [h]; simp
      have := hd1 b hb
      rw [h2 b (by simp)] at this; exact absurd this (by simp)
  | cons a l1 ih =>
    intro l2 d1 d2 h1 h2 hd1 hd2 h
    cases l2 with
    | nil =>
      simp only [List.nil_append, List.cons_append] at h
      have ha : a ∈ d2 := by rw [← h]; simp
      have := hd2 a ha
      rw [h1 a (by simp)] at this; exact absurd this (by simp)
    | cons b l2 =>
      simp only [List.cons_append, List.cons.injEq] at h
      obtain ⟨hab, ht⟩ := h
      obtain ⟨e1, e2⟩ := ih l2 d1 d2 (fun c hc => h1 c (List.mem_cons_of_mem _ hc))
        (fun c hc => h2 c (List.mem_cons_of_mem _ hc)) hd1 hd2 ht
      exact ⟨by rw [hab, e1], e2⟩

/-- (helper) the characters of `f"{prefix}{id}"` -/
theorem codeStr_toList (p : String) (i : Nat) : (codeStr p i).toList = p.toList ++ Nat.toDigits 10 i := by
  simp [codeStr]

/-- **`str(ErrorCode)` identifies the code** as long as prefixes contain no digits (refurb's own
    `ERROR_ID_REGEX` only admits `[A-Z]{3,4}`): "FURB123" can only be (FURB, 123). -/
theorem codeStr_inj (p p' : String) (i i' : Nat)
    (hp : ∀ c ∈ p.toList, c.isDigit = false) (hp' : ∀ c ∈ p'.toList, c.isDigit = false)
    (h : codeStr p i = codeStr p' i') : p = p' ∧ i = i' := by
  have hl := congrArg String.toList h
  rw [codeStr_toList, codeStr_toList] at hl
  obtain ⟨e1, e2⟩ := append_digits_inj _ _ _ _ hp hp'
    (fun c hc => Nat.isDigit_of_mem_toDigits (by omega) (by omega) hc)
    (fun c hc => Nat.isDigit_of_mem_toDigits (by omega) (by omega) hc) hl
  refine ⟨String.toList_inj.mp e1, ?_⟩
  have := congrArg (fun l => Nat.ofDigitChars 10 l 0) e2
  simpa [Nat.ofDigitChars_ten_toDigits] using this

/-- for digit-free prefixes a code entry names a diagnostic iff prefix and number coincide -/
theorem names_code_iff (p : String) (i : Nat) (d : AmendDiag)
    (hp : ∀ c ∈ p.toList, c.isDigit = false) (hd : ∀ c ∈ d.pfx.toList, c.isDigit = false) :
    Names (.code p i) d ↔ p = d.pfx ∧ i = d.code := by
  constructor
  · exact codeStr_inj p d.pfx i d.code hp hd
  · rintro ⟨rfl, rfl⟩; rfl

/-! ### Amend entries only filter; they never unload a check (reuses C09) -/

/-- any number of path-scoped entries leaves `should_load_check` unchanged, so outside the entry's
    path the check still runs and reports -/
theorem amend_entries_never_unload (s : Settings) (c : CheckSel) (es : List Clsf) (h : ∀ e ∈ es, e.path ≠ none) :
    shouldLoad { s with ignore := es ++ s.ignore } c = shouldLoad s c := by
  induction es with
  | nil => rfl
  | cons e es ih =>
    have h1 := C09.scoped_never_unloads { s with ignore := es ++ s.ignore } c e (h e (by simp))
    have h2 := ih (fun x hx => h x (List.mem_cons_of_mem _ hx))
    rw [← h2, ← h1]
    rfl

/-! ### Entries that cannot be resolved: symlink loops, NUL characters

History: before fix 5e5fe5a `(config_root / ignore.path).resolve()` was unguarded; this file then held
`def AlwaysVerdict`, `theorem always_verdict_refuted` (witness below: an entry `loop -> loop` made the
filter raise for every diagnostic of every file) and `always_verdict_partial`.  The check found the
concrete crash (`RuntimeError: Symlink loop`, `ValueError: embedded null byte`), the fix went in, and
`always_verdict` above is now a theorem without side conditions on the tables. -/

def loopFs : Links := [(["r", "loop"], { abs := false, parts := ["loop"] })]
def loopEntry : Clsf := { cls := .code "FURB" 123, path := some "loop" }

/-- `loop -> loop`: no amount of fuel resolves it -/
theorem loop_never_resolves : ∀ n, walk loopFs n ["r"] ["loop"] = none := by
  intro n
  induction n with
  | zero => rfl
  | succ m ih =>
    rw [walk, if_neg (by decide)]
    have : List.lookup (["r"] ++ ["loop"]) loopFs = some { abs := false, parts := ["loop"] } := by decide
    rw [this]
    simpa using ih

/-- **A symlink-loop entry is inert**: with the default config root, adding the entry `loop` (a link to
    itself) to ANY tables changes no verdict, for any diagnostic and any amount of fuel. -/
theorem loop_entry_is_inert (fuel : Nat) (s : Settings) (d : AmendDiag) (hc : s.configFile = none) :
    ignoredViaAmend (resolvePy loopFs fuel ["r"]) { s with ignore := loopEntry :: s.ignore } d
      = ignoredViaAmend (resolvePy loopFs fuel ["r"]) s d := by
  apply unresolvable_entry_covers_nothing _ s d loopEntry "loop" rfl
  rw [hc]
  have hp : (configRoot none).join (parsePath "loop") = { abs := false, parts := ["loop"] } := by decide
  rw [hp]
  have hn : hasNul { abs := false, parts := ["loop"] } = false := by decide
  simp only [resolvePy, hn, resolve]
  exact loop_never_resolves fuel

/-- without symlinks and without NUL characters every path resolves (any fuel at least the number of
    components suffices) — so in an ordinary tree the file hypothesis of `always_verdict` holds -/
theorem resolves_without_links (cwd : List String) (fuel : Nat) (p : PPath)
    (hn : hasNul p = false) (hl : p.parts.length ≤ fuel) : ∃ r, resolvePy [] fuel cwd p = some r := by
  simp only [resolvePy, hn, resolve]
  rw [walk_nolinks _ _ _ hl]
  exact ⟨_, rfl⟩

/-! ### Non-vacuity: concrete layouts -/

/-- /r/conf/pyproject.toml, run from /r/w; `lnk -> /r/a/b` lives in /r -/
def exFs : Links := [(["r", "lnk"], { abs := true, parts := ["r", "a", "b"] })]
def exSettings : Settings :=
  { configFile := some "/r/conf/pyproject.toml",
    ignore := [{ cls := .code "FURB" 123, path := some "src" }, { cls := .cat "pathlib", path := some "../lnk/.." },
               { cls := .code "FURB" 105 }] }
def d123 (f : String) : AmendDiag := { file := f, pfx := "FURB", code := 123, categories := ["readability"] }
def d141 (f : String) : AmendDiag := { file := f, pfx := "FURB", code := 141, categories := ["pathlib"] }
def d105 (f : String) : AmendDiag := { file := f, pfx := "FURB", code := 105, categories := ["builtin", "readability"] }

-- the entry `src` is anchored at the config file's directory /r/conf, not at the working directory /r/w
example : ignoredViaAmend (resolvePy exFs 64 ["r", "w"]) exSettings (d123 "/r/conf/src/deep/m.py") = some true := by decide
example : ignoredViaAmend (resolvePy exFs 64 ["r", "w"]) exSettings (d123 "src/m.py") = some false := by decide
example : ignoredViaAmend (resolvePy exFs 64 ["r", "w"]) exSettings (d123 "../conf/./src//m.py") = some true := by decide
-- sibling names sharing a string prefix are not covered
example : ignoredViaAmend (resolvePy exFs 64 ["r", "w"]) exSettings (d123 "/r/conf/src2/m.py") = some false := by decide
example : ignoredViaAmend (resolvePy exFs 64 ["r", "w"]) exSettings (d123 "/r/conf/src_old/m.py") = some false := by decide
-- other codes in a covered file are kept; a pathless `ignore` entry plays no role in this filter
example : ignoredViaAmend (resolvePy exFs 64 ["r", "w"]) exSettings (d105 "/r/conf/src/m.py") = some false := by decide
-- `../lnk/..` is the parent of the link's target (/r/a), not /r
example : resolvePy exFs 64 ["r", "w"] ((configRoot exSettings.configFile).join (parsePath "../lnk/..")) = some ["r", "a"] := by decide
example : ignoredViaAmend (resolvePy exFs 64 ["r", "w"]) exSettings (d141 "/r/a/x/m.py") = some true := by decide
example : ignoredViaAmend (resolvePy exFs 64 ["r", "w"]) exSettings (d141 "/r/lnk/m.py") = some true := by decide
example : ignoredViaAmend (resolvePy exFs 64 ["r", "w"]) exSettings (d141 "/r/m.py") = some false := by decide
-- the hypotheses of `root_is_config_dir`, `plain_layout_iff`, `sibling_prefix_never_matches` are satisfiable
example : (parsePath "/r/conf/pyproject.toml").abs = true ∧ (parsePath "/r/conf/src/m.py").abs = true := by decide
example : parsePath "/r/conf/pyproject.toml" = { abs := true, parts := ["r", "conf"] ++ ["pyproject.toml"] } := by decide
example : "src".toList <+: "src2".toList ∧ isRelativeTo (["r"] ++ "src2" :: ["m.py"]) (["r"] ++ ["src"]) = false :=
  ⟨⟨['2'], by decide⟩, sibling_prefix_never_matches _ _ _ _ (by decide)⟩
-- `path = ""` and `path = "."` mean the config file's directory itself
example : (configRoot (some "sub/pyproject.toml")).join (parsePath ".") = { abs := false, parts := ["sub"] } := by decide
example : (configRoot none).join (parsePath ".") = PPath.cur := by decide
-- a NUL inside an entry path: `resolve()` raises ValueError, the entry is skipped, the verdict is delivered
example : resolvePy [] 64 ["r"] (parsePath "a\x00b") = none := by decide
example : ignoredViaAmend (resolvePy [] 64 ["r"]) { ignore := [{ cls := .code "FURB" 123, path := some "a\x00b" }, { cls := .code "FURB" 123, path := some "src" }] }
    (d123 "src/m.py") = some true := by decide

end RefurbVerif.C12
