/-
The value-level rewrite rules of refurb's checks, as pairs of expressions of Model/PyVal.lean over
operand variables.  Each row says which check proposes it, for which declared operand types, and
whether only the truth value is observable (the check fires in condition position only).
harness/props/c01.py checks on every run that refurb really proposes `new` for `old`.
-/
import RefurbVerif.Model.PyVal

namespace RefurbVerif.Py

structure Rule where
  code : Nat
  label : String
  /-- operand variables with the exact runtime class their declared static type stands for (`none` = any scalar) -/
  vars : List (String × Option TypeName)
  old : PyExpr
  new : PyExpr
  /-- the check only fires where the value is used as a condition: compare truthiness -/
  condPos : Bool := false
  deriving Repr

def x : PyExpr := .var "x"
def y : PyExpr := .var "y"
def z : PyExpr := .var "z"
def lTrue : PyExpr := .lit (vBool true)
def lFalse : PyExpr := .lit (vBool false)
def lNone : PyExpr := .lit vNone
def lInt (i : Int) : PyExpr := .lit (vInt i)
def lStrEmpty : PyExpr := .lit (.sc (.str []))
def lListEmpty : PyExpr := .lit (.list [])
def lTupleEmpty : PyExpr := .lit (.tuple [])

def anyS : Option TypeName := none

def r108_eq_or_eq : Rule :=
  { code := 108, label := "eq-or-eq", vars := [("x", anyS), ("y", anyS), ("z", anyS)],
    old := .or_ (.eq x y) (.eq x z), new := .in_ x (.tup2 y z) }

def r109_in_list : Rule :=
  { code := 109, label := "in-list", vars := [("x", anyS), ("y", anyS), ("z", anyS)],
    old := .in_ x (.list2 y z), new := .in_ x (.tup2 y z) }

def r110_if_else_or : Rule :=
  { code := 110, label := "if-else-or", vars := [("x", anyS), ("y", anyS)],
    old := .ifExp x x y, new := .or_ x y }

def r114_not_not : Rule :=
  { code := 114, label := "not-not", vars := [("x", anyS)], old := .not_ (.not_ x), new := .boolOf x }

def r115_len_eq_0_str : Rule :=
  { code := 115, label := "len-eq-0:str", vars := [("x", some .str)], old := .eq (.len x) (lInt 0), new := .not_ x, condPos := true }

def r115_len_eq_0_list : Rule :=
  { code := 115, label := "len-eq-0:list", vars := [("x", some .list)], old := .eq (.len x) (lInt 0), new := .not_ x, condPos := true }

def r115_len_ge_1_list : Rule :=
  { code := 115, label := "len-ge-1:list", vars := [("x", some .list)], old := .ge (.len x) (lInt 1), new := x, condPos := true }

def r115_len_gt_0_tuple : Rule :=
  { code := 115, label := "len-gt-0:tuple", vars := [("x", some .tuple)], old := .gt (.len x) (lInt 0), new := x, condPos := true }

def r115_len_ne_0_str : Rule :=
  { code := 115, label := "len-ne-0:str", vars := [("x", some .str)], old := .ne (.len x) (lInt 0), new := x, condPos := true }

def r123_int : Rule :=
  { code := 123, label := "int", vars := [("x", some .int)], old := .intOf x, new := x }

def r123_str : Rule :=
  { code := 123, label := "str", vars := [("x", some .str)], old := .strOf x, new := x }

def r123_bool : Rule :=
  { code := 123, label := "bool", vars := [("x", some .bool)], old := .boolOf x, new := x }

def r123_list : Rule :=
  { code := 123, label := "list", vars := [("x", some .list)], old := .listOf x, new := .copy x }

def r123_tuple : Rule :=
  { code := 123, label := "tuple", vars := [("x", some .tuple)], old := .tupleOf x, new := x }

def r124_eq_and_eq : Rule :=
  { code := 124, label := "eq-and-eq", vars := [("x", anyS), ("y", anyS), ("z", anyS)],
    old := .and_ (.eq x y) (.eq x z), new := .chainEq x y z }

def r136_max_int : Rule :=
  { code := 136, label := "max:int", vars := [("x", some .int), ("y", some .int)], old := .ifExp x (.gt x y) y, new := .max2 x y }

def r136_min_int : Rule :=
  { code := 136, label := "min:int", vars := [("x", some .int), ("y", some .int)], old := .ifExp x (.lt x y) y, new := .min2 x y }

def r136_max_str : Rule :=
  { code := 136, label := "max:str", vars := [("x", some .str), ("y", some .str)], old := .ifExp x (.gt x y) y, new := .max2 x y }

def r143_or_empty_str : Rule :=
  { code := 143, label := "or-empty:str", vars := [("x", some .str)], old := .or_ x lStrEmpty, new := x }

def r143_or_zero_int : Rule :=
  { code := 143, label := "or-zero:int", vars := [("x", some .int)], old := .or_ x (lInt 0), new := x }

def r143_or_empty_list : Rule :=
  { code := 143, label := "or-empty:list", vars := [("x", some .list)], old := .or_ x lListEmpty, new := x }

def r143_or_false_bool : Rule :=
  { code := 143, label := "or-false:bool", vars := [("x", some .bool)], old := .or_ x lFalse, new := x }

def r143_or_empty_tuple : Rule :=
  { code := 143, label := "or-empty:tuple", vars := [("x", some .tuple)], old := .or_ x lTupleEmpty, new := x }

def r145_slice_copy_list : Rule :=
  { code := 145, label := "slice-copy:list", vars := [("x", some .list)], old := .sliceAll x, new := .copy x }

def r149_eq_true : Rule :=
  { code := 149, label := "eq-true", vars := [("x", some .bool)], old := .eq x lTrue, new := x }

def r149_is_true : Rule :=
  { code := 149, label := "is-true", vars := [("x", some .bool)], old := .is_ x lTrue, new := x }

def r149_ne_false : Rule :=
  { code := 149, label := "ne-false", vars := [("x", some .bool)], old := .ne x lFalse, new := x }

def r149_eq_false : Rule :=
  { code := 149, label := "eq-false", vars := [("x", some .bool)], old := .eq x lFalse, new := .not_ x }

def r149_is_not_true : Rule :=
  { code := 149, label := "is-not-true", vars := [("x", some .bool)], old := .isNot x lTrue, new := .not_ x }

def r168_isinstance_none : Rule :=
  { code := 168, label := "isinstance-none", vars := [("x", anyS)], old := .isinstance x .noneType, new := .is_ x lNone }

def r169_type_is_none : Rule :=
  { code := 169, label := "type-is-none", vars := [("x", anyS)], old := .typeIsNone x, new := .is_ x lNone }

def r171_in_single : Rule :=
  { code := 171, label := "in-single", vars := [("x", anyS), ("y", anyS)], old := .in_ x (.tup1 y), new := .eq x y }

def r192_sorted_0_ints : Rule :=
  { code := 192, label := "sorted-0:ints", vars := [("x", some .list)], old := .index0 (.sorted x), new := .minL x }

def rules : List Rule := [
  r108_eq_or_eq,
  r109_in_list,
  r110_if_else_or,
  r114_not_not,
  r115_len_eq_0_str,
  r115_len_eq_0_list,
  r115_len_ge_1_list,
  r115_len_gt_0_tuple,
  r115_len_ne_0_str,
  r123_int,
  r123_str,
  r123_bool,
  r123_list,
  r123_tuple,
  r124_eq_and_eq,
  r136_max_int,
  r136_min_int,
  r136_max_str,
  r143_or_empty_str,
  r143_or_zero_int,
  r143_or_empty_list,
  r143_or_false_bool,
  r143_or_empty_tuple,
  r145_slice_copy_list,
  r149_eq_true,
  r149_is_true,
  r149_ne_false,
  r149_eq_false,
  r149_is_not_true,
  r168_isinstance_none,
  r169_type_is_none,
  r171_in_single,
  r192_sorted_0_ints
]

/- rules whose full statement is false on part of their declared domain: the refuting variants -/
def x136_max_bool_int : Rule :=
  { code := 136, label := "max:bool-int", vars := [("x", some .bool), ("y", some .int)], old := .ifExp x (.gt x y) y, new := .max2 x y }

def x143_or_zero_float : Rule :=
  { code := 143, label := "or-zero:float", vars := [("x", some .float)], old := .or_ x (.lit (.sc (.flt (.whole 0)))), new := x }

def x145_slice_copy_tuple : Rule :=
  { code := 145, label := "slice-copy:tuple", vars := [("x", some .tuple)], old := .sliceAll x, new := .copy x }

def x123_int_bool_operand : Rule :=
  { code := 123, label := "int:bool-operand", vars := [("x", some .bool)], old := .intOf x, new := x }

def refutedRules : List Rule := [
  x136_max_bool_int,
  x143_or_zero_float,
  x145_slice_copy_tuple,
  x123_int_bool_operand
]

/-! ### Statement-level rules (function bodies in the block language of Model/PyVal.lean)

`advice` is the exact message refurb gives for `old`: these messages are schematic, so `new` is the advice
applied by hand; harness/props/c01_stmt.py checks on every run that refurb reports `advice` on the rendered
`old` block, and that CPython runs the rendered `old` and `new` blocks as the model does. -/

structure SRule where
  code : Nat
  label : String
  vars : List (String × Option TypeName)
  old : List Stmt
  new : List Stmt
  advice : String
  /-- names whose final binding is NOT compared: a temporary / loop variable the rewrite removes -/
  ignore : List String := []
  /-- the rule's blocks are rendered inside this many enclosing `for _ in range(1):` blocks (FURB128 only sees
      swaps below the top level of a function) -/
  nest : Nat := 0

def acc : PyExpr := .var "acc"
def e_ : PyExpr := .var "e"
def a_ : PyExpr := .var "a"
def b_ : PyExpr := .var "b"
def xs_ : PyExpr := .var "xs"

def s113_two_appends : SRule :=
  { code := 113, label := "two-appends", vars := [("acc", some .list), ("a", anyS), ("b", anyS)],
    old := [.append "acc" a_, .append "acc" b_], new := [.extend2 "acc" a_ b_],
    advice := "Replace `acc.append(...); acc.append(...)` with `acc.extend((..., ...))`" }

def s125_trailing_return : SRule :=
  { code := 125, label := "trailing-return", vars := [("acc", some .list), ("a", anyS)],
    old := [.append "acc" a_, .ret none], new := [.append "acc" a_], advice := "Return is redundant here" }

def s125_return_in_else : SRule :=
  { code := 125, label := "return-in-else", vars := [("acc", some .list), ("a", anyS), ("b", anyS)],
    old := [.ifElse a_ [.append "acc" a_] [.append "acc" b_, .ret none]], new := [.ifElse a_ [.append "acc" a_] [.append "acc" b_]],
    advice := "Return is redundant here" }

def s126_else_return : SRule :=
  { code := 126, label := "else-return", vars := [("a", anyS), ("b", anyS)],
    old := [.ifElse a_ [.ret (some a_)] [.ret (some b_)]], new := [.ifElse a_ [.ret (some a_)] [], .ret (some b_)],
    advice := "Replace `else: return x` with `return x`" }

def s128_swap : SRule :=
  { code := 128, label := "swap", vars := [("a", anyS), ("b", anyS)],
    old := [.assign "tmp" a_, .assign "a" b_, .assign "b" (.var "tmp")], new := [.assign2 "a" "b" b_ a_],
    advice := "Use tuple unpacking instead of temporary variables to swap values", ignore := ["tmp"], nest := 1 }

def s133_trailing_continue : SRule :=
  { code := 133, label := "trailing-continue", vars := [("acc", some .list), ("xs", some .list)],
    old := [.forIn "e" xs_ [.append "acc" e_, .cont]], new := [.forIn "e" xs_ [.append "acc" e_]],
    advice := "Continue is redundant here" }

def s138_loop_append : SRule :=
  { code := 138, label := "loop-append", vars := [("xs", some .list)],
    old := [.assign "acc" lListEmpty, .forIn "e" xs_ [.append "acc" e_]], new := [.listComp "acc" e_ "e" xs_ none],
    advice := "Consider using list comprehension", ignore := ["e"] }

def s138_loop_append_if : SRule :=
  { code := 138, label := "loop-append-if", vars := [("xs", some .tuple)],
    old := [.assign "acc" lListEmpty, .forIn "e" xs_ [.ifElse e_ [.append "acc" e_] []]], new := [.listComp "acc" e_ "e" xs_ (some e_)],
    advice := "Consider using list comprehension", ignore := ["e"] }

def s148_index_unused : SRule :=
  { code := 148, label := "index-unused", vars := [("acc", some .list), ("xs", some .list)],
    old := [.forEnum "i" "e" xs_ [.append "acc" e_]], new := [.forIn "e" xs_ [.append "acc" e_]],
    advice := "Index is unused, use `for e in xs` instead", ignore := ["i"] }

def srules : List SRule := [
  s113_two_appends,
  s125_trailing_return,
  s125_return_in_else,
  s126_else_return,
  s128_swap,
  s133_trailing_continue,
  s138_loop_append,
  s138_loop_append_if,
  s148_index_unused
]

/- the same advice where refurb gives it although the rewrite is not behaviour-preserving: the refuting variants -/

/-- FURB113 when the second appended value reads the list -/
def sx113_reads_list : SRule :=
  { code := 113, label := "two-appends:second-reads-list", vars := [("acc", some .list), ("a", anyS)],
    old := [.append "acc" a_, .append "acc" (.len acc)], new := [.extend2 "acc" a_ (.len acc)],
    advice := "Replace `acc.append(...); acc.append(...)` with `acc.extend((..., ...))`" }

/-- FURB128 when the temporary's binding is observed afterwards -/
def sx128_swap_tmp_observed : SRule := { s128_swap with label := "swap:temporary-observed", ignore := [] }

/-- FURB138 when the filter reads the list being built (the de-duplication loop) -/
def sx138_condition_reads_list : SRule :=
  { code := 138, label := "loop-append-if:condition-reads-list", vars := [("xs", some .list)],
    old := [.assign "acc" lListEmpty, .forIn "e" xs_ [.ifElse (.notIn e_ acc) [.append "acc" e_] []]],
    new := [.listComp "acc" e_ "e" xs_ (some (.notIn e_ acc))],
    advice := "Consider using list comprehension", ignore := ["e"] }

/-- FURB138 / FURB148 when the loop variable (the dropped index) is read after the loop -/
def sx138_loop_var_observed : SRule := { s138_loop_append with label := "loop-append:loop-variable-observed", ignore := [] }
def sx148_index_observed : SRule := { s148_index_unused with label := "index-unused:index-observed", ignore := [] }

def refutedSRules : List SRule := [
  sx113_reads_list,
  sx128_swap_tmp_observed,
  sx138_condition_reads_list,
  sx138_loop_var_observed,
  sx148_index_observed
]

end RefurbVerif.Py
